#!/usr/bin/env python3
"""tools/verify_seeded.py <dir with patch.diff demo_test.go meta.json>

Confirms, in a scratch worktree of /repo outside /repo and /verif, that the seeded change compiles, passes the existing
suite, and that its demonstration fails with the change and passes without it. Removes the worktree afterwards."""
import json
import os
import shutil
import subprocess
import sys
import tempfile

ENV = dict(os.environ, GOFLAGS="-mod=mod", GOPROXY="off", GOSUMDB="off", GOTOOLCHAIN="local")


def sh(cmd, cwd):
    p = subprocess.run(cmd, cwd=cwd, env=ENV, capture_output=True, text=True)
    return p.returncode, (p.stdout + p.stderr)


def main():
    d = sys.argv[1]
    wt = tempfile.mkdtemp(prefix="seedchk-")
    os.rmdir(wt)
    subprocess.run(["git", "-C", "/repo", "worktree", "add", "--detach", wt, "HEAD"], capture_output=True)
    res = {}
    try:
        js = os.path.join(wt, "jsonschema")
        demo = os.path.join(js, "zz_seeded_demo_test.go")
        shutil.copy(os.path.join(d, "demo_test.go"), demo)
        rc, out = sh(["go", "test", "-count=1", "-run", "TestMutation", "./..."], js)
        res["demo_passes_without"] = rc == 0
        os.remove(demo)
        rc, out = sh(["git", "apply", os.path.join(d, "patch.diff")], wt)
        res["applies"] = rc == 0
        rc, out = sh(["go", "build", "./..."], js)
        res["builds"] = rc == 0
        rc, out = sh(["go", "test", "-count=1", "./..."], js)
        res["suite_passes_with"] = rc == 0
        shutil.copy(os.path.join(d, "demo_test.go"), demo)
        rc, out = sh(["go", "test", "-count=1", "-run", "TestMutation", "./..."], js)
        res["demo_fails_with"] = rc != 0
    finally:
        subprocess.run(["git", "-C", "/repo", "worktree", "remove", "--force", wt], capture_output=True)
        shutil.rmtree(wt, ignore_errors=True)
    res["confirmed"] = all(res.get(k) for k in ("demo_passes_without", "applies", "builds", "suite_passes_with", "demo_fails_with"))
    print(json.dumps(res))
    return 0 if res["confirmed"] else 1


sys.exit(main())
