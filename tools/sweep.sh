#!/bin/sh
# tools/sweep.sh "<seeds>" [tier] [props...] : every check on the unchanged tree over several seeds; prints the alarms.
cd "$(dirname "$0")/.."
SEEDS="${1:-1 2 3}"
TIER="${2:-quick}"
shift 2 2>/dev/null
PROPS="${*:-C01 C02 C03 C04 C05 C06 C07 C08 C09 C10 C11 C12 C13 C14 C15 C16 C17 C18 C19 C20}"
[ -x lean/.lake/build/bin/jsvdriver ] || ./setup.sh >/dev/null 2>&1
for s in $SEEDS; do
  for p in $PROPS; do
    out=$(VERIF_SEED=$s ./check $p --tier $TIER 2>&1)
    rc=$?
    echo "$out" | tail -1
    if [ $rc -ne 0 ]; then echo "ALARM seed=$s prop=$p rc=$rc"; echo "$out" | grep VIOLATION; fi
  done
done
echo SWEEP-DONE
