#!/usr/bin/env python3
"""tools/design_table.py : prints the markdown table of DESIGN.md §14 (one row per kept seeded change) from seeded/*/meta.json and
seeded/RESULTS.json (the last evaluation of each change by tools/par_seeded.py or tools/seeded_matrix.py)."""
import json
import os
import re

VERIF = os.path.dirname(os.path.dirname(os.path.abspath(__file__)))
res = json.load(open(os.path.join(VERIF, "seeded", "RESULTS.json")))


def key(d):
    m = re.match(r"C(\d+)-(r(\d+))?m(\d+)", d)
    return (int(m.group(1)), int(m.group(3) or 1), int(m.group(4)))


rows = []
for d in sorted((x for x in os.listdir(os.path.join(VERIF, "seeded")) if os.path.exists(os.path.join(VERIF, "seeded", x, "meta.json"))), key=key):
    meta = json.load(open(os.path.join(VERIF, "seeded", d, "meta.json")))
    pid = meta.get("property") or d.split("-")[0]
    r = res.get(d, {})
    k = "%s/quick/seed0" % pid
    e = r.get(k) or (list(r.values())[0] if r else {})
    st = "obsolete (subsumed by a later fix)" if meta.get("obsolete") else "outside the quantifier (not evaluated)" if meta.get("outside") else "not evaluated" if not e else ("caught" + (" (no failing input found: broken obligation)" if e.get("nfi") else "") if e.get("caught") else "MISSED")
    summ = re.sub(r"\s+", " ", meta.get("summary", "")).replace("|", "/")[:170]
    why = re.sub(r"\s+", " ", str(e.get("why", ""))).replace("|", "/")[:110]
    rows.append("| %s | %s… | %s | %s… |" % (d, summ, st, why))
print("| change | what it does (author's summary, abridged) | quick check of its property | first difference reported |")
print("|---|---|---|---|")
print("\n".join(rows))
