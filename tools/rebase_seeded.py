#!/usr/bin/env python3
"""tools/rebase_seeded.py : seeded patches were written against earlier states of /repo; after a "fix:" commit some no longer apply
verbatim. For every seeded/<id>/patch.diff that `git apply --check` refuses on /repo's HEAD, try a 3-way application in a scratch
worktree; if that succeeds without conflict, re-verify the change (tools/verify_seeded.py: builds, suite passes, demo fails with / passes
without) and rewrite patch.diff (the original is kept as patch.orig.diff; meta.json gets a "rebased_onto" note). Prints what it did."""
import json
import os
import shutil
import subprocess
import sys
import tempfile

VERIF = os.path.dirname(os.path.dirname(os.path.abspath(__file__)))


def sh(cmd, cwd=None):
    p = subprocess.run(cmd, cwd=cwd, capture_output=True, text=True)
    return p.returncode, p.stdout + p.stderr


head = subprocess.run(["git", "-C", "/repo", "rev-parse", "--short", "HEAD"], capture_output=True, text=True).stdout.strip()
wt = tempfile.mkdtemp(prefix="rebase-")
os.rmdir(wt)
sh(["git", "-C", "/repo", "worktree", "add", "--detach", wt, "HEAD"])
try:
    for d in sorted(os.listdir(os.path.join(VERIF, "seeded"))):
        pd = os.path.join(VERIF, "seeded", d, "patch.diff")
        if not os.path.exists(pd):
            continue
        rc, _ = sh(["git", "apply", "--check", pd], cwd=wt)
        if rc == 0:
            continue
        rc, out = sh(["git", "apply", "--3way", pd], cwd=wt)
        st = subprocess.run(["git", "status", "--porcelain"], cwd=wt, capture_output=True, text=True).stdout
        conflict = rc != 0 or any(l[:2] in ("UU", "AA", "DU", "UD") for l in st.splitlines())
        if conflict:
            print("%-12s does not apply, 3-way conflicts" % d)
        else:
            new = subprocess.run(["git", "diff", "HEAD"], cwd=wt, capture_output=True, text=True).stdout
            tmpd = tempfile.mkdtemp(prefix="rebchk-")
            open(os.path.join(tmpd, "patch.diff"), "w").write(new)
            for f in ("demo_test.go", "meta.json"):
                shutil.copy(os.path.join(VERIF, "seeded", d, f), os.path.join(tmpd, f))
            v = subprocess.run([os.path.join(VERIF, "tools", "verify_seeded.py"), tmpd], capture_output=True, text=True)
            ok = False
            try:
                ok = json.loads(v.stdout.strip().splitlines()[-1]).get("confirmed")
            except Exception:
                pass
            if ok:
                shutil.copy(pd, os.path.join(VERIF, "seeded", d, "patch.orig.diff"))
                open(pd, "w").write(new)
                meta = json.load(open(os.path.join(VERIF, "seeded", d, "meta.json")))
                meta["rebased_onto"] = head
                json.dump(meta, open(os.path.join(VERIF, "seeded", d, "meta.json"), "w"), indent=1)
                print("%-12s rebased onto %s and re-verified" % (d, head))
            else:
                print("%-12s 3-way applies but the demonstration no longer behaves (%s)" % (d, v.stdout.strip()[-200:]))
            shutil.rmtree(tmpd, ignore_errors=True)
        sh(["git", "checkout", "--", "."], cwd=wt)
        sh(["git", "reset", "-q", "--hard", "HEAD"], cwd=wt)
        sh(["git", "clean", "-fdq"], cwd=wt)
finally:
    sh(["git", "-C", "/repo", "worktree", "remove", "--force", wt])
    shutil.rmtree(wt, ignore_errors=True)
