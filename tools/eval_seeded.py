#!/usr/bin/env python3
"""tools/eval_seeded.py <PID> <mutation-out-dir> : verify every m*/ in the dir, keep confirmed ones under /verif/seeded/, run the property's check."""
import json, os, shutil, subprocess, sys
VERIF = os.path.dirname(os.path.dirname(os.path.abspath(__file__)))
pid, out = sys.argv[1], sys.argv[2]
extra = sys.argv[3:]
tag = ""
nocheck = "--no-check" in extra
if nocheck:
    extra.remove("--no-check")
if "--tag" in extra:
    i = extra.index("--tag")
    tag = extra[i + 1]
    del extra[i:i + 2]
for m in sorted(os.listdir(out)):
    d = os.path.join(out, m)
    if not os.path.isdir(d) or not os.path.exists(os.path.join(d, "patch.diff")):
        continue
    v = subprocess.run([os.path.join(VERIF, "tools", "verify_seeded.py"), d], capture_output=True, text=True)
    try:
        res = json.loads(v.stdout.strip().splitlines()[-1])
    except Exception:
        res = {"confirmed": False, "raw": v.stdout[-300:] + v.stderr[-300:]}
    sid = "%s-%s%s" % (pid, tag, m)
    print(sid, "confirmed" if res.get("confirmed") else "NOT CONFIRMED %r" % res)
    if not res.get("confirmed"):
        continue
    dst = os.path.join(VERIF, "seeded", sid)
    os.makedirs(dst, exist_ok=True)
    for f in ("patch.diff", "demo_test.go"):
        shutil.copy(os.path.join(d, f), os.path.join(dst, f))
    meta = json.load(open(os.path.join(d, "meta.json")))
    meta["verified"] = res
    meta["verified_with"] = "tools/verify_seeded.py (scratch worktree: suite passes with the change, demo fails with / passes without)"
    if nocheck:
        json.dump(meta, open(os.path.join(dst, "meta.json"), "w"), indent=1)
        continue
    t = subprocess.run([os.path.join(VERIF, "tools", "try_seeded.py"), os.path.join(dst, "patch.diff"), pid] + extra, capture_output=True, text=True)
    lines = [l for l in t.stdout.splitlines() if l.strip()]
    print("   ", "\n    ".join(lines))
    meta["checks_run"] = lines
    json.dump(meta, open(os.path.join(dst, "meta.json"), "w"), indent=1)
