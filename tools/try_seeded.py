#!/usr/bin/env python3
"""tools/try_seeded.py <patch.diff> <PID> [<PID> ...] [--tier quick|thorough] [--seed N]

Applies a seeded change to /repo, runs the named checks, and ALWAYS restores /repo (git checkout -- .).
Prints one line per check: caught / missed, with the replay file."""
import os
import subprocess
import sys

VERIF = os.path.dirname(os.path.dirname(os.path.abspath(__file__)))


def main():
    args = sys.argv[1:]
    tier, seed = "quick", "0"
    if "--tier" in args:
        i = args.index("--tier")
        tier = args[i + 1]
        del args[i:i + 2]
    if "--seed" in args:
        i = args.index("--seed")
        seed = args[i + 1]
        del args[i:i + 2]
    patch, pids = args[0], args[1:]
    st = subprocess.run(["git", "-C", "/repo", "status", "--porcelain"], capture_output=True, text=True).stdout.strip()
    if st:
        print("refusing: /repo is not clean:\n" + st)
        return 2
    r = subprocess.run(["git", "-C", "/repo", "apply", patch], capture_output=True, text=True)
    if r.returncode != 0:
        print("patch does not apply: " + r.stderr)
        return 2
    try:
        b = subprocess.run(["go", "build", "./..."], cwd="/repo/jsonschema", capture_output=True, text=True,
                           env=dict(os.environ, GOFLAGS="-mod=mod", GOPROXY="off", GOSUMDB="off", GOTOOLCHAIN="local"))
        if b.returncode != 0:
            print("patched tree does not build: " + b.stderr[-500:])
            return 2
        for pid in pids:
            p = subprocess.run([os.path.join(VERIF, "check"), pid, "--tier", tier], capture_output=True, text=True,
                               env=dict(os.environ, VERIF_SEED=seed))
            viol = [l for l in p.stdout.splitlines() if l.startswith("VIOLATION")]
            last = p.stdout.strip().splitlines()[-1] if p.stdout.strip() else ""
            print("%s %s: %s  | %s" % (pid, "CAUGHT" if viol else "missed", viol[0] if viol else "", last))
    finally:
        subprocess.run(["git", "-C", "/repo", "checkout", "--", "."])
        subprocess.run(["git", "-C", "/repo", "clean", "-fdq"])
    return 0


sys.exit(main())
