#!/usr/bin/env python3
"""tools/seeded_matrix.py [--tier quick|thorough] [--seeds "0 1"] [--also C10,C14] [ids...]

For every kept seeded change under /verif/seeded/<id>/ : apply it to /repo, run the check of the property it breaks
(and any --also checks), restore /repo, and record caught / missed in /verif/seeded/RESULTS.json (merged, keyed by id)."""
import json
import os
import subprocess
import sys

VERIF = os.path.dirname(os.path.dirname(os.path.abspath(__file__)))
ENV = dict(os.environ, GOFLAGS="-mod=mod", GOPROXY="off", GOSUMDB="off", GOTOOLCHAIN="local")


def main():
    args = sys.argv[1:]
    tier, seeds, also = "quick", ["0"], []
    if "--tier" in args:
        i = args.index("--tier"); tier = args[i + 1]; del args[i:i + 2]
    if "--seeds" in args:
        i = args.index("--seeds"); seeds = args[i + 1].split(); del args[i:i + 2]
    if "--also" in args:
        i = args.index("--also"); also = args[i + 1].split(","); del args[i:i + 2]
    ids = args or sorted(d for d in os.listdir(os.path.join(VERIF, "seeded")) if os.path.isdir(os.path.join(VERIF, "seeded", d)))
    respath = os.path.join(VERIF, "seeded", "RESULTS.json")
    results = json.load(open(respath)) if os.path.exists(respath) else {}
    st = subprocess.run(["git", "-C", "/repo", "status", "--porcelain"], capture_output=True, text=True).stdout.strip()
    if st:
        print("refusing: /repo is not clean:\n" + st)
        return 2
    for sid in ids:
        d = os.path.join(VERIF, "seeded", sid)
        meta = json.load(open(os.path.join(d, "meta.json")))
        pids = [meta["property"]] + [p for p in also if p != meta["property"]]
        r = subprocess.run(["git", "-C", "/repo", "apply", os.path.join(d, "patch.diff")], capture_output=True, text=True)
        if r.returncode != 0:
            print(sid, "patch does not apply:", r.stderr.strip())
            results[sid] = {"error": "patch does not apply"}
            continue
        entry = results.get(sid, {})
        try:
            for pid in pids:
                for seed in seeds:
                    p = subprocess.run([os.path.join(VERIF, "check"), pid, "--tier", tier], capture_output=True, text=True,
                                       env=dict(ENV, VERIF_SEED=seed))
                    viol = [l for l in p.stdout.splitlines() if l.startswith("VIOLATION")]
                    last = p.stdout.strip().splitlines()[-1] if p.stdout.strip() else ""
                    why = ""
                    if viol:
                        path = viol[0].split("replay=")[1].split()[0]
                        try:
                            rp = json.load(open(path))
                            why = str(rp.get("why") or rp.get("broken_obligations"))[:300]
                        except Exception:
                            pass
                    key = "%s/%s/seed%s" % (pid, tier, seed)
                    entry[key] = {"caught": bool(viol), "nfi": bool(viol) and "no-failing-input-found" in viol[0], "why": why, "last": last[:200]}
                    print("%s %s: %s %s" % (sid, key, "CAUGHT" if viol else "missed", why[:140]), flush=True)
        finally:
            subprocess.run(["git", "-C", "/repo", "checkout", "--", "."])
            subprocess.run(["git", "-C", "/repo", "clean", "-fdq"])
        results[sid] = entry
        json.dump(results, open(respath, "w"), indent=1, sort_keys=True)
    return 0


sys.exit(main())
