#!/usr/bin/env python3
"""tools/par_seeded.py [--workers N] [--seed S] [--tier quick] [--out FILE] <seeded-id-or-glob> ...

Evaluates kept seeded changes (/verif/seeded/<id>/patch.diff) IN PARALLEL without touching /repo: every worker gets a scratch copy of
/verif (with its Lean build directory) and a scratch git worktree of /repo under /tmp, the harness module of the copy is pointed at
that worktree, and the copy's ./check runs with VERIF_REPO set. Writes one JSON object per change to --out (default
/verif/seeded/RESULTS.json, merged by id) and removes every scratch directory at the end.

The registered checks (MANIFEST.json) never set VERIF_REPO: they always run in /verif against /repo."""
import fnmatch
import json
import os
import queue
import shutil
import subprocess
import sys
import threading
import time

VERIF = os.path.dirname(os.path.dirname(os.path.abspath(__file__)))
ENV = dict(os.environ, GOFLAGS="-mod=mod", GOPROXY="off", GOSUMDB="off", GOTOOLCHAIN="local")


def sh(cmd, **kw):
    return subprocess.run(cmd, capture_output=True, text=True, **kw)


def main():
    args = sys.argv[1:]
    workers, seed, tier, out = 6, "0", "quick", os.path.join(VERIF, "seeded", "RESULTS.json")
    for flag in ("--workers", "--seed", "--tier", "--out"):
        if flag in args:
            i = args.index(flag)
            v = args[i + 1]
            del args[i:i + 2]
            if flag == "--workers":
                workers = int(v)
            elif flag == "--seed":
                seed = v
            elif flag == "--tier":
                tier = v
            else:
                out = v
    all_ids = sorted(d for d in os.listdir(os.path.join(VERIF, "seeded")) if os.path.exists(os.path.join(VERIF, "seeded", d, "patch.diff")))
    ids = [d for d in all_ids if not args or any(fnmatch.fnmatch(d, a) for a in args)]
    ids = [d for d in ids if not json.load(open(os.path.join(VERIF, "seeded", d, "meta.json"))).get("obsolete")]
    q = queue.Queue()
    for d in ids:
        q.put(d)
    results, lock = {}, threading.Lock()
    base = "/tmp/psw-%d" % os.getpid()
    os.makedirs(base)

    def worker(k):
        wv, wr = os.path.join(base, "v%d" % k), os.path.join(base, "r%d" % k)
        sh(["rsync", "-a", "--exclude", ".git", "--exclude", "replays", "--exclude", "evidence", "--exclude", "seeded", VERIF + "/", wv + "/"])
        os.makedirs(os.path.join(wv, "evidence"), exist_ok=True)
        sh(["git", "-C", "/repo", "worktree", "add", "--detach", wr, "HEAD"])
        gm = os.path.join(wv, "harness", "go.mod")
        txt = open(gm).read().replace("=> /repo", "=> " + wr)
        open(gm, "w").write(txt)
        env = dict(ENV, VERIF_REPO=wr, VERIF_SEED=seed, VERIF_NOSHRINK="1")
        try:
            while True:
                try:
                    d = q.get_nowait()
                except queue.Empty:
                    return
                meta = json.load(open(os.path.join(VERIF, "seeded", d, "meta.json")))
                pid = meta.get("property") or d.split("-")[0]
                t0 = time.time()
                r = sh(["git", "-C", wr, "apply", os.path.join(VERIF, "seeded", d, "patch.diff")])
                res = {"id": d, "property": pid, "seed": int(seed), "tier": tier}
                if r.returncode != 0:
                    res["status"] = "patch-does-not-apply"
                else:
                    p = sh([os.path.join(wv, "check"), pid, "--tier", tier], env=env)
                    viol = [l for l in p.stdout.splitlines() if l.startswith("VIOLATION")]
                    res["status"] = "caught" if viol else "missed"
                    res["violation_line"] = viol[0] if viol else ""
                    res["last_line"] = (p.stdout.strip().splitlines() or [""])[-1]
                    if os.environ.get("PAR_DEBUG"):
                        print(p.stdout[-3000:], p.stderr[-2000:])
                    if viol:
                        rp = viol[0].split("replay=")[1].split()[0]
                        try:
                            rj = json.load(open(rp))
                            res["why"] = str(rj.get("why") or rj.get("broken_obligations"))[:400]
                        except Exception:
                            pass
                        res["no_failing_input"] = "no-failing-input-found" in viol[0]
                sh(["git", "-C", wr, "checkout", "--", "."])
                sh(["git", "-C", wr, "clean", "-fdq"])
                res["wall_s"] = round(time.time() - t0, 1)
                with lock:
                    results[d] = res
                    print("%-12s %-8s %s" % (d, res["status"], res.get("last_line", "")[:150]), flush=True)
        finally:
            sh(["git", "-C", "/repo", "worktree", "remove", "--force", wr])
            shutil.rmtree(wv, ignore_errors=True)

    ts = [threading.Thread(target=worker, args=(k,)) for k in range(min(workers, max(1, len(ids))))]
    for t in ts:
        t.start()
    for t in ts:
        t.join()
    shutil.rmtree(base, ignore_errors=True)
    sh(["git", "-C", "/repo", "worktree", "prune"])
    old = {}
    if os.path.exists(out):
        try:
            old = json.load(open(out))
        except Exception:
            old = {}
    for d, r in results.items():
        key = "%s/%s/seed%s" % (r["property"], tier, seed)
        old.setdefault(d, {})[key] = {"caught": r["status"] == "caught", "last": r.get("last_line", ""), "nfi": r.get("no_failing_input", False),
                                      "why": r.get("why", r["status"])}
    json.dump(old, open(out, "w"), indent=1, sort_keys=True)
    missed = sorted(d for d, r in results.items() if r["status"] != "caught")
    print("%d evaluated, %d caught, missed: %s" % (len(results), len(results) - len(missed), missed))


main()
