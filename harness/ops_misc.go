package main

import (
	"sort"
	"bytes"
	"encoding/json"
	"errors"
	"fmt"
	"net/url"
	"reflect"
	"strings"
	"sync"

	"github.com/google/jsonschema-go/jsonschema"
)

// cachingLoader returns the SAME *Schema for a URI every time (as an application-level cache would),
// so that a write into a loaded document is observable.
func cachingLoader(docs map[string][]byte, cache map[string]*jsonschema.Schema, log *[]string) jsonschema.Loader {
	return func(uri *url.URL) (*jsonschema.Schema, error) {
		key := uri.String()
		*log = append(*log, key)
		if s, ok := cache[key]; ok {
			return s, nil
		}
		txt, ok := docs[key]
		if !ok {
			return nil, errors.New("no such document")
		}
		s := new(jsonschema.Schema)
		if err := json.Unmarshal(txt, s); err != nil {
			return nil, err
		}
		cache[key] = s
		return s, nil
	}
}

func docTexts(a *validateArgs) (map[string][]byte, error) {
	docs := map[string][]byte{}
	for _, d := range a.Docs {
		var uri string
		if err := json.Unmarshal(d[0], &uri); err != nil {
			return nil, err
		}
		var probe map[string]json.RawMessage
		if json.Unmarshal(d[1], &probe) == nil {
			if _, ok := probe["fail"]; ok && len(probe) == 1 {
				continue
			}
			if _, ok := probe["nil"]; ok && len(probe) == 1 {
				continue
			}
		}
		txt, err := untag(d[1])
		if err != nil {
			return nil, err
		}
		docs[uri] = txt
	}
	return docs, nil
}

func init() {
	// purity {schema, docs, base, insts}: Resolve / Validate / Marshal repeated; inputs compared with untouched twins (C14)
	register("purity", func(args json.RawMessage) (any, error) {
		var a validateArgs
		if err := json.Unmarshal(args, &a); err != nil {
			return nil, err
		}
		txt, err := untag(a.Schema)
		if err != nil {
			return nil, err
		}
		root, twin := new(jsonschema.Schema), new(jsonschema.Schema)
		if err := json.Unmarshal(txt, root); err != nil {
			return map[string]any{"outcome": "unmarshal-error"}, nil
		}
		json.Unmarshal(txt, twin)
		docs, err := docTexts(&a)
		if err != nil {
			return nil, err
		}
		cache := map[string]*jsonschema.Schema{}
		var log []string
		opts := &jsonschema.ResolveOptions{BaseURI: a.Base}
		if len(a.Docs) > 0 {
			opts.Loader = cachingLoader(docs, cache, &log)
		}
		res := map[string]any{}
		var firstVerdicts []string
		var firstBytes []byte
		same, resolvedOnce := true, false
		var insts, twins []any
		for _, it := range a.Insts {
			t, err := untag(it)
			if err != nil {
				return nil, err
			}
			var v, w any
			json.Unmarshal(t, &v)
			json.Unmarshal(t, &w)
			insts, twins = append(insts, v), append(twins, w)
		}
		var keep *jsonschema.Resolved
		for round := 0; round < 3; round++ {
			rs, err := root.Resolve(opts)
			if err != nil {
				if round == 0 {
					res["outcome"] = "resolve-error"
				} else if resolvedOnce {
					same = false
				}
				continue
			}
			if round > 0 && !resolvedOnce {
				same = false
			}
			resolvedOnce = true
			if keep == nil {
				keep = rs
			}
			var vs []string
			for _, v := range insts {
				vs = append(vs, safeValidate(rs, v))
			}
			// the first Resolved is reused in every round as well
			for _, v := range insts {
				vs = append(vs, safeValidate(keep, v))
			}
			b, merr := json.Marshal(root)
			if merr != nil {
				b = []byte("marshal-error")
			}
			if round == 0 {
				firstVerdicts, firstBytes = vs, b
			} else if !reflect.DeepEqual(vs, firstVerdicts) || !bytes.Equal(b, firstBytes) {
				same = false
			}
		}
		if resolvedOnce {
			res["outcome"] = "resolved"
			res["verdicts"] = firstVerdicts[:len(insts)]
		}
		res["repeatable"] = same
		res["schema_untouched"] = reflect.DeepEqual(root, twin)
		res["instances_untouched"] = reflect.DeepEqual(insts, twins)
		// loaded documents: compare with fresh decodings
		loadedOK := true
		for uri, s := range cache {
			f := new(jsonschema.Schema)
			json.Unmarshal(docs[uri], f)
			if !reflect.DeepEqual(s, f) {
				loadedOK = false
			}
		}
		res["loaded_untouched"] = loadedOK
		if firstBytes != nil {
			res["text"] = string(firstBytes)
		}
		return res, nil
	})

	// unmarshal-bytes {text}: arbitrary bytes into a Schema (C10)
	register("unmarshal-bytes", func(args json.RawMessage) (any, error) {
		var a struct{ Text string }
		if err := json.Unmarshal(args, &a); err != nil {
			return nil, err
		}
		s := new(jsonschema.Schema)
		if err := json.Unmarshal([]byte(a.Text), s); err != nil {
			return map[string]any{"outcome": "error"}, nil
		}
		// whatever was accepted must also survive Resolve / Validate / Marshal without panicking
		out := map[string]any{"outcome": "ok"}
		if rs, err := s.Resolve(nil); err == nil {
			out["resolve"] = "ok"
			var vs []string
			for _, v := range []any{nil, 1.0, "s", []any{1.0, "a"}, map[string]any{"a": 1.0}} {
				vs = append(vs, safeValidate(rs, v))
				w := v
				if applyOnce(rs, &w) == "panic" {
					vs = append(vs, "apply-panic")
				}
			}
			out["verdicts"] = vs
		} else {
			out["resolve"] = "error"
		}
		if _, err := json.Marshal(s); err != nil {
			out["marshal"] = "error"
		}
		return out, nil
	})

	// resolve-desc {desc, loaderMode}: Resolve on an arbitrary Schema graph (shared / cyclic pointers, nil children …) (C10)
	register("resolve-desc", func(args json.RawMessage) (any, error) {
		var a struct {
			Desc   json.RawMessage   `json:"desc"`
			Loader string            `json:"loader"`
			Base   string            `json:"base"`
			GInsts []json.RawMessage `json:"ginsts"`
			// AliasInst (optional; default: every instance is built from its descriptor alone): the []any found at IPath inside
			// instance Inst is not an independent slice but a RE-SLICE [:N] of the very []any found at SPath inside the value
			// the schema lists — Enum[Index] of node Node, or its Const (Field) — as in `vals := []any{…}; s.Enum = []any{vals};
			// rs.Validate(vals[:2])`. Paths step through []any (index) and map[string]any (key). For N beyond the listed
			// slice's length the listed slice gets spare capacity holding the instance's further elements. The instance
			// descriptor still says what the instance holds (checked), for the model and the oracle.
			AliasInst []struct {
				Inst  int    `json:"inst"`
				IPath []any  `json:"ipath"`
				Node  int    `json:"node"`
				Field string `json:"field"`
				Index int    `json:"index"`
				SPath []any  `json:"spath"`
				N     int    `json:"n"`
			} `json:"aliasInst"`
		}
		if err := json.Unmarshal(args, &a); err != nil {
			return nil, err
		}
		s, nodes, err := buildSchemas(a.Desc)
		if err != nil {
			return nil, err
		}
		var ginsts []any // built up front only when instances alias the schema; otherwise after Resolve, as before
		if len(a.AliasInst) > 0 {
			ginsts = make([]any, len(a.GInsts))
			for i, g := range a.GInsts {
				if ginsts[i], err = buildAny(g); err != nil {
					return nil, err
				}
			}
		}
		for _, al := range a.AliasInst {
			if al.Inst < 0 || al.Inst >= len(ginsts) || al.Node < 0 || al.Node >= len(nodes) {
				return nil, fmt.Errorf("aliasInst: bad index")
			}
			nd := nodes[al.Node]
			var sroot *any
			switch al.Field {
			case "Const":
				sroot = nd.Const
			case "Enum":
				if al.Index >= 0 && al.Index < len(nd.Enum) {
					sroot = &nd.Enum[al.Index]
				}
			}
			if sroot == nil {
				return nil, fmt.Errorf("aliasInst: no such listed value")
			}
			sslot, err := slotAt(sroot, al.SPath)
			if err != nil {
				return nil, err
			}
			islot, err := slotAt(&ginsts[al.Inst], al.IPath)
			if err != nil {
				return nil, err
			}
			listed, ok1 := sslot.get().([]any)
			want, ok2 := islot.get().([]any)
			if !ok1 || !ok2 || listed == nil || al.N != len(want) {
				return nil, fmt.Errorf("aliasInst: both ends must be []any and n the instance's length")
			}
			if al.N > len(listed) {
				big := make([]any, al.N)
				copy(big, listed)
				copy(big[len(listed):], want[len(listed):])
				listed = big[:len(listed)]
				sslot.set(listed)
			}
			alias := listed[:al.N]
			if !reflect.DeepEqual(alias, want) {
				return nil, fmt.Errorf("aliasInst: the re-slice does not hold what the instance descriptor says")
			}
			islot.set(alias)
		}
		opts := &jsonschema.ResolveOptions{BaseURI: a.Base, ValidateDefaults: a.Loader == "validate-defaults"}
		calls := 0
		switch a.Loader {
		case "error":
			opts.Loader = func(*url.URL) (*jsonschema.Schema, error) { calls++; return nil, errors.New("nope") }
		case "nil":
			opts.Loader = func(*url.URL) (*jsonschema.Schema, error) { calls++; return nil, nil }
		case "self":
			// a self-referential universe: every URI yields the root object itself
			opts.Loader = func(*url.URL) (*jsonschema.Schema, error) { calls++; return s, nil }
		case "wrong":
			opts.Loader = func(*url.URL) (*jsonschema.Schema, error) {
				calls++
				if calls > 50 {
					return nil, errors.New("too many")
				}
				return &jsonschema.Schema{Ref: fmt.Sprintf("http://x.test/other%d.json#/nowhere", calls)}, nil
			}
		case "node":
			opts.Loader = func(*url.URL) (*jsonschema.Schema, error) {
				calls++
				if len(nodes) > 1 {
					return nodes[len(nodes)-1], nil
				}
				return nil, errors.New("none")
			}
		}
		out := map[string]any{}
		var rs *jsonschema.Resolved
		if s == nil {
			// a nil root: the method call itself must not panic either
			func() {
				defer func() {
					if r := recover(); r != nil {
						out["outcome"] = "panic"
					}
				}()
				_, err := s.Resolve(opts)
				if err != nil {
					out["outcome"] = "resolve-error"
				} else {
					out["outcome"] = "resolved"
				}
			}()
			return out, nil
		}
		rs, err = s.Resolve(opts)
		if err != nil {
			out["outcome"] = "resolve-error"
			return out, nil
		}
		out["outcome"] = "resolved"
		var vs []string
		for i, g := range a.GInsts {
			var v any
			if ginsts != nil {
				v = ginsts[i]
			} else if v, err = buildAny(g); err != nil {
				return nil, err
			}
			vs = append(vs, safeValidate(rs, v))
			w := v
			if applyOnce(rs, &w) == "panic" {
				vs = append(vs, "apply-panic")
			}
		}
		out["verdicts"] = vs
		return out, nil
	})

	// concurrent {schema, docs, insts, validateDefaults, burst, freshRounds, applyFirst}: k goroutines x m rounds over one Resolved / one Schema tree (C13)
	// Optional arg infer {type, opts, warm} (as for the op `infer`): the goroutines additionally call ForType on `type` and on every
	// `warm` type with ONE *ForOptions value shared by all of them (one TypeSchemas map whose entry schemas were decoded from JSON);
	// every result must marshal like the result of the same call made alone with an options object of its own, and the shared
	// TypeSchemas must be unchanged afterwards. Absent (the default): only For[T](nil) as before.
	register("concurrent", func(args json.RawMessage) (any, error) {
		var a validateArgs
		if err := json.Unmarshal(args, &a); err != nil {
			return nil, err
		}
		var inf struct {
			Infer *inferArgs `json:"infer"`
			// Burst (default 0 = off): before the ordinary rounds every goroutine makes that many back-to-back passes of Validate
			// over all the instances on the shared Resolved (each verdict compared with the sequential one), all goroutines
			// released together: the first calls on a fresh Resolved then overlap for longer than one pass does.
			Burst int `json:"burst"`
			// FreshRounds (default 0 = off): before the ordinary phase, that many times: a FRESH Resolved is made from the shared
			// root with the operation's options (validateDefaults …) and k goroutines, released together, at once make
			// 3 passes of Validate over all the instances on it, each verdict compared with the sequential one —
			// the first concurrent calls on a Resolved that Resolve has just returned, many times per operation.
			FreshRounds int `json:"freshRounds"`
			// ApplyFirst (default empty = off: Validate only, as before): in every fresh round each goroutine BEGINS with
			// ApplyDefaults on a copy of its own of insts[i] for every index i listed here, in this order (each result compared
			// with the sequential ApplyDefaults result on that instance), and only then makes its Validate passes: the first
			// calls ever made on the fresh Resolved are then concurrent ApplyDefaults calls on distinct instances. In the
			// ordinary phase the goroutines that begin with ApplyDefaults also take these instances first.
			ApplyFirst []int `json:"applyFirst"`
		}
		if err := json.Unmarshal(args, &inf); err != nil {
			return nil, err
		}
		var inferTypes []reflect.Type
		var inferSeq [][]byte
		var sharedOpts, twinOpts *jsonschema.ForOptions
		if ia := inf.Infer; ia != nil {
			for _, raw := range append([]json.RawMessage{ia.Type}, ia.Warm...) {
				t, err := buildType(raw)
				if err != nil {
					return nil, err
				}
				own, err := ia.forOptions()
				if err != nil {
					return nil, err
				}
				var b []byte
				func() {
					defer func() {
						if r := recover(); r != nil {
							b = []byte(fmt.Sprintf("panic: %v", r))
						}
					}()
					if f, err := jsonschema.ForType(t, own); err != nil {
						b = []byte("error")
					} else {
						b, _ = json.Marshal(f)
					}
				}()
				inferTypes, inferSeq = append(inferTypes, t), append(inferSeq, b)
			}
			sharedOpts, _ = ia.forOptions()
			twinOpts, _ = ia.forOptions()
		}
		u, uerr, herr := buildUniverse(&a)
		if herr != nil {
			return nil, herr
		}
		if uerr != nil {
			return map[string]any{"outcome": "unmarshal-error"}, nil
		}
		// the sequential reference is computed on a Resolved of its own, so that the shared one below is used for the very first
		// time by the goroutines themselves (anything built lazily on first use is then built under contention)
		uSeq, _, herr2 := buildUniverse(&a)
		if herr2 != nil {
			return nil, herr2
		}
		rsSeq, err := uSeq.root.Resolve(uSeq.opts)
		if err != nil {
			return map[string]any{"outcome": "resolve-error"}, nil
		}
		// an incomplete PropertyOrder with spare capacity (what append-built orders look like): Marshal and CloneSchemas of the
		// shared tree read it concurrently and must not write behind its length
		for _, r := range []*jsonschema.Schema{u.root, uSeq.root} {
			if len(r.Properties) >= 2 {
				names := make([]string, 0, len(r.Properties))
				for k := range r.Properties {
					names = append(names, k)
				}
				sort.Strings(names)
				r.PropertyOrder = append(make([]string, 0, 8), names[len(names)-1])
			}
		}
		var insts []any
		var texts [][]byte
		for _, it := range a.Insts {
			t, err := untag(it)
			if err != nil {
				return nil, err
			}
			var v any
			json.Unmarshal(t, &v)
			insts, texts = append(insts, v), append(texts, t)
		}
		// sequential reference
		seq := make([]string, len(insts))
		for i, v := range insts {
			seq[i] = safeValidate(rsSeq, v)
		}
		seqMarshal, _ := json.Marshal(uSeq.root)
		seqDefaults := make([]string, len(insts))
		for i := range insts {
			var v any
			json.Unmarshal(texts[i], &v)
			applyOnce(rsSeq, &v)
			b, _ := json.Marshal(v)
			seqDefaults[i] = string(b)
		}
		type T struct {
			A int               `json:"a"`
			B []string          `json:"b,omitempty"`
			C map[string]*Inner `json:"c"`
		}
		seqFor, _ := jsonschema.For[T](nil)
		seqForB, _ := json.Marshal(seqFor)
		// the shared Resolved is made last (with the options of the operation: validateDefaults makes Resolve itself run the
		// evaluator over every default), so that the goroutines start on it right after Resolve returns
		rs, err := u.root.Resolve(u.opts)
		if err != nil {
			return map[string]any{"outcome": "resolve-error"}, nil
		}
		const k, m = 8, 6
		var wg sync.WaitGroup
		var mu sync.Mutex
		mismatches := 0
		note := func() { mu.Lock(); mismatches++; mu.Unlock() }
		for fr := 0; fr < inf.FreshRounds; fr++ {
			frs, err := u.root.Resolve(u.opts)
			if err != nil {
				note()
				break
			}
			const passes = 3
			var fwg sync.WaitGroup
			fstart := make(chan struct{})
			for g := 0; g < k; g++ {
				fwg.Add(1)
				go func() {
					defer fwg.Done()
					defer func() {
						if r := recover(); r != nil {
							note()
						}
					}()
					<-fstart
					for _, i := range inf.ApplyFirst {
						if i < 0 || i >= len(insts) {
							continue
						}
						var v any
						json.Unmarshal(texts[i], &v)
						applyOnce(frs, &v)
						if b, _ := json.Marshal(v); string(b) != seqDefaults[i] {
							note()
						}
					}
					for b := 0; b < passes; b++ {
						for i, v := range insts {
							if safeValidate(frs, v) != seq[i] {
								note()
							}
						}
					}
				}()
			}
			close(fstart)
			fwg.Wait()
		}
		start := make(chan struct{})
		for g := 0; g < k; g++ {
			wg.Add(1)
			go func(g int) {
				defer wg.Done()
				defer func() {
					if r := recover(); r != nil {
						note()
					}
				}()
				<-start
				for b := 0; b < inf.Burst; b++ {
					for i, v := range insts {
						if safeValidate(rs, v) != seq[i] {
							note()
						}
					}
				}
				for round := 0; round < m; round++ {
					if g%2 == 1 && round == 0 {
						// half of the goroutines begin with ApplyDefaults, the others with Validate
						for _, i := range inf.ApplyFirst {
							if i < 0 || i >= len(insts) {
								continue
							}
							var v any
							json.Unmarshal(texts[i], &v)
							applyOnce(rs, &v)
							if b, _ := json.Marshal(v); string(b) != seqDefaults[i] {
								note()
							}
						}
						for i := range insts {
							var v any
							json.Unmarshal(texts[i], &v)
							applyOnce(rs, &v)
							b, _ := json.Marshal(v)
							if string(b) != seqDefaults[i] {
								note()
							}
						}
					}
					for i, v := range insts {
						if safeValidate(rs, v) != seq[i] {
							note()
						}
					}
					// ApplyDefaults on distinct instances
					for i := range insts {
						var v any
						json.Unmarshal(texts[i], &v)
						applyOnce(rs, &v)
						b, _ := json.Marshal(v)
						if string(b) != seqDefaults[i] {
							note()
						}
					}
					if b, _ := json.Marshal(u.root); !bytes.Equal(b, seqMarshal) {
						note()
					}
					c := u.root.CloneSchemas()
					if b, _ := json.Marshal(c); !bytes.Equal(b, seqMarshal) {
						note()
					}
					if _, err := u.root.Resolve(u.opts); err != nil {
						note()
					}
					f, _ := jsonschema.For[T](nil)
					if b, _ := json.Marshal(f); !bytes.Equal(b, seqForB) {
						note()
					}
					for j := range inferTypes {
						i := (j + g) % len(inferTypes) // the goroutines begin with different types
						var b []byte
						if f, err := jsonschema.ForType(inferTypes[i], sharedOpts); err != nil {
							b = []byte("error")
						} else {
							b, _ = json.Marshal(f)
						}
						if !bytes.Equal(b, inferSeq[i]) {
							note()
						}
					}
					// struct instances exercise the struct-property cache; Equal / hashing the jsonNames cache
					jsonschema.Equal(map[string]any{"a": 1}, map[string]any{"a": 1.0})
				}
			}(g)
		}
		close(start)
		wg.Wait()
		if sharedOpts != nil && !reflect.DeepEqual(sharedOpts.TypeSchemas, twinOpts.TypeSchemas) {
			note() // the TypeSchemas all the calls shared was written to
		}
		// different Schema values that carry unknown keywords next to ordinary ones, marshaled at the same time: whatever Marshal
		// recycles between calls (buffers, sets) is then handed from one schema's call to another's
		variants := make([]*jsonschema.Schema, 4)
		wantV := make([][]byte, len(variants))
		for i := range variants {
			v := uSeq.root.CloneSchemas()
			fill := strings.Repeat(string(rune('a'+i)), 2048*(i+1))
			decorate := func(x *jsonschema.Schema, tag string) {
				if x == nil {
					return
				}
				ex := map[string]any{}
				for k, val := range x.Extra {
					ex[k] = val
				}
				ex["x-origin"] = fmt.Sprintf("%s-%d", tag, i)
				ex["x-fill"] = fill
				x.Extra = ex
				if x.Title == "" {
					x.Title = "t" + fill[:16]
				}
			}
			decorate(v, "root")
			for name, c := range v.Properties {
				decorate(c, "p:"+name)
			}
			for _, c := range v.AllOf {
				decorate(c, "allOf")
			}
			variants[i] = v
			wantV[i], _ = json.Marshal(v)
		}
		var wg2 sync.WaitGroup
		start2 := make(chan struct{})
		for g := 0; g < 24; g++ {
			wg2.Add(1)
			go func(g int) {
				defer wg2.Done()
				defer func() {
					if r := recover(); r != nil {
						note()
					}
				}()
				<-start2
				for n := 0; n < 12; n++ {
					i := (g + n) % len(variants)
					b, err := json.Marshal(variants[i])
					if err != nil || !bytes.Equal(b, wantV[i]) {
						note()
					}
				}
			}(g)
		}
		close(start2)
		wg2.Wait()
		return map[string]any{"outcome": "resolved", "mismatches": mismatches, "calls": k*m*(2*len(insts)+4) + 24*12}, nil
	})

	// cold {text, insts}: meant to be the FIRST operation of a fresh process: k goroutines, released together, each make the
	// process's first calls into the package (Unmarshal, Marshal, Resolve, Validate on a map and on a struct, For, Equal), so that
	// every process-wide cache is filled under contention; all goroutines must obtain the same results.
	register("cold", func(args json.RawMessage) (any, error) {
		var a struct {
			Text  string   `json:"text"`
			Insts []string `json:"insts"`
		}
		if err := json.Unmarshal(args, &a); err != nil {
			return nil, err
		}
		type S struct {
			A string `json:"a"`
			D []int  `json:"d,omitempty"`
		}
		const k = 8
		outs := make([]string, k)
		var wg sync.WaitGroup
		start := make(chan struct{})
		for g := 0; g < k; g++ {
			wg.Add(1)
			go func(g int) {
				defer wg.Done()
				defer func() {
					if r := recover(); r != nil {
						outs[g] = fmt.Sprintf("panic: %v", r)
					}
				}()
				<-start
				var sb bytes.Buffer
				s := new(jsonschema.Schema)
				if err := json.Unmarshal([]byte(a.Text), s); err != nil {
					sb.WriteString("unmarshal-error;")
					outs[g] = sb.String()
					return
				}
				b, _ := json.Marshal(s)
				sb.Write(b)
				rs, err := s.Resolve(nil)
				if err != nil {
					sb.WriteString(";resolve-error")
					outs[g] = sb.String()
					return
				}
				for _, it := range a.Insts {
					var v any
					json.Unmarshal([]byte(it), &v)
					sb.WriteString(";" + safeValidate(rs, v))
					w := v
					applyOnce(rs, &w)
					wb, _ := json.Marshal(w)
					sb.Write(wb)
				}
				sb.WriteString(";" + safeValidate(rs, S{A: "x1", D: []int{1, 2}}))
				sb.WriteString(";" + safeValidate(rs, &S{A: "zz"}))
				f, _ := jsonschema.For[S](nil)
				fb, _ := json.Marshal(f)
				sb.Write(fb)
				sb.WriteString(fmt.Sprint(jsonschema.Equal(map[string]any{"a": 1}, map[string]any{"a": 1.0})))
				outs[g] = sb.String()
			}(g)
		}
		close(start)
		wg.Wait()
		diff := 0
		for g := 1; g < k; g++ {
			if outs[g] != outs[0] {
				diff++
			}
		}
		return map[string]any{"outcome": "ok", "mismatches": diff, "first": outs[0]}, nil
	})
}

// anySlot is a settable place holding an `any`: a variable, an element of a []any or an entry of a map[string]any.
type anySlot struct {
	get func() any
	set func(any)
}

// slotAt walks from *root through []any (int steps) and map[string]any (string steps).
func slotAt(root *any, path []any) (anySlot, error) {
	cur := anySlot{get: func() any { return *root }, set: func(v any) { *root = v }}
	for _, step := range path {
		switch c := cur.get().(type) {
		case []any:
			f, ok := step.(float64)
			i := int(f)
			if !ok || i < 0 || i >= len(c) {
				return cur, fmt.Errorf("path: bad index %v", step)
			}
			cur = anySlot{get: func() any { return c[i] }, set: func(v any) { c[i] = v }}
		case map[string]any:
			k, ok := step.(string)
			if _, has := c[k]; !ok || !has {
				return cur, fmt.Errorf("path: bad key %v", step)
			}
			cur = anySlot{get: func() any { return c[k] }, set: func(v any) { c[k] = v }}
		default:
			return cur, fmt.Errorf("path: step %v into a %T", step, c)
		}
	}
	return cur, nil
}
