package main

import (
	"encoding/json"
	"fmt"
	"reflect"

	"github.com/google/jsonschema-go/jsonschema"
)

func init() {
	// defaults {schema, docs, insts}: ApplyDefaults once and twice on each instance (decoded into any),
	// Validate before/after, and Resolve with ValidateDefaults.
	// Optional "ginsts": further instances given as Go value descriptors (goval.go) — TYPED containers such as
	// map[string]map[string]any, map[string][]int, map[string]*map[string]any, or a map[string]any holding pointers. Each is
	// stored in a variable of its own type T and ApplyDefaults gets the *T; reported under "typed": outcome and JSON text after
	// one and two applications, and whether two containers of the result (maps, non-empty slices, pointers) are one and the same
	// object although the descriptor builds every container separately. Without "ginsts" nothing changes.
	register("defaults", func(args json.RawMessage) (any, error) {
		var a validateArgs
		if err := json.Unmarshal(args, &a); err != nil {
			return nil, err
		}
		res := map[string]any{}
		// ValidateDefaults
		{
			av := a
			av.ValidateDefaults = true
			u, uerr, herr := buildUniverse(&av)
			if herr != nil {
				return nil, herr
			}
			if uerr != nil {
				return map[string]any{"outcome": "unmarshal-error"}, nil
			}
			if _, err := u.root.Resolve(u.opts); err != nil {
				res["validateDefaults"] = "error"
			} else {
				res["validateDefaults"] = "ok"
			}
		}
		u, _, herr := buildUniverse(&a)
		if herr != nil {
			return nil, herr
		}
		rs, err := u.root.Resolve(u.opts)
		if err != nil {
			res["outcome"] = "resolve-error"
			return res, nil
		}
		res["outcome"] = "resolved"
		var once, twice []any
		var before, after []string
		for _, it := range a.Insts {
			txt, err := untag(it)
			if err != nil {
				return nil, err
			}
			var v any
			if err := json.Unmarshal(txt, &v); err != nil {
				return nil, fmt.Errorf("instance: %v", err)
			}
			before = append(before, safeValidate(rs, v))
			r1 := applyOnce(rs, &v)
			b1, _ := json.Marshal(v)
			after = append(after, safeValidate(rs, v))
			r2 := applyOnce(rs, &v)
			b2, _ := json.Marshal(v)
			once = append(once, map[string]any{"r": r1, "text": string(b1)})
			twice = append(twice, map[string]any{"r": r2, "text": string(b2)})
		}
		// history on one Resolved: the caller edits, in place, every container of a result it received; later ApplyDefaults calls
		// (same and other instances) must still insert the declared defaults, i.e. give the texts of the first pass
		aliasFree := true
		aliasDetail := ""
		for sweep := 0; sweep < 2; sweep++ {
			for i, it := range a.Insts {
				txt, _ := untag(it)
				var v any
				if err := json.Unmarshal(txt, &v); err != nil {
					continue
				}
				r := applyOnce(rs, &v)
				b, _ := json.Marshal(v)
				want := once[i].(map[string]any)
				if aliasFree && (r != want["r"] || string(b) != want["text"]) {
					aliasFree = false
					aliasDetail = fmt.Sprintf("instance %d: first call %s, after other results were edited in place %s", i, want["text"], string(b))
				}
				scribble(v)
			}
		}
		if a.GInsts != nil {
			typed := []any{}
			for _, g := range a.GInsts {
				v, err := build(g)
				if err != nil {
					return nil, err
				}
				var p reflect.Value
				if v.IsValid() {
					p = reflect.New(v.Type())
					p.Elem().Set(v)
				} else {
					p = reflect.ValueOf(new(any))
				}
				r1 := applyOnceP(rs, p.Interface())
				b1, e1 := json.Marshal(p.Elem().Interface())
				shared := sharedContainer(p.Elem())
				r2 := applyOnceP(rs, p.Interface())
				b2, e2 := json.Marshal(p.Elem().Interface())
				if e1 != nil || e2 != nil {
					return nil, fmt.Errorf("typed instance does not marshal: %v %v", e1, e2)
				}
				typed = append(typed, map[string]any{"r": r1, "text": string(b1), "r2": r2, "text2": string(b2), "shared": shared})
			}
			res["typed"] = typed
		}
		if len(a.History) > 0 {
			// several instances of different Go types through ONE fresh Resolved, in the given order (validateArgs.History)
			fresh := func() (*jsonschema.Resolved, error) {
				uu, _, herr := buildUniverse(&a)
				if herr != nil {
					return nil, herr
				}
				return uu.root.Resolve(uu.opts)
			}
			mk := func(i int) (reflect.Value, error) {
				if i < len(a.Insts) {
					txt, err := untag(a.Insts[i])
					if err != nil {
						return reflect.Value{}, err
					}
					p := new(any)
					return reflect.ValueOf(p), json.Unmarshal(txt, p)
				}
				v, err := build(a.GInsts[i-len(a.Insts)])
				if err != nil {
					return reflect.Value{}, err
				}
				if !v.IsValid() {
					return reflect.ValueOf(new(any)), nil
				}
				p := reflect.New(v.Type())
				p.Elem().Set(v)
				return p, nil
			}
			one, err := fresh()
			if err != nil {
				return nil, fmt.Errorf("history: %v", err)
			}
			historyFree, historyDetail := true, ""
			for step, i := range a.History {
				if i < 0 || i >= len(a.Insts)+len(a.GInsts) {
					return nil, fmt.Errorf("history: index %d out of range", i)
				}
				p, err := mk(i)
				if err != nil {
					return nil, err
				}
				q, _ := mk(i)
				own, err := fresh()
				if err != nil {
					return nil, fmt.Errorf("history: %v", err)
				}
				r := applyOnceP(one, p.Interface())
				rr := applyOnceP(own, q.Interface())
				if !historyFree {
					continue
				}
				if r != rr {
					historyFree, historyDetail = false, fmt.Sprintf("step %d (instance %d): %s, on a Resolved of its own %s", step, i, r, rr)
				} else if r == "ok" {
					if !reflect.DeepEqual(p.Elem().Interface(), q.Elem().Interface()) {
						historyFree, historyDetail = false, fmt.Sprintf("step %d (instance %d): %#v, on a Resolved of its own %#v", step, i, p.Elem().Interface(), q.Elem().Interface())
					} else if v1, v2 := safeValidate(one, p.Elem().Interface()), safeValidate(own, q.Elem().Interface()); v1 != v2 {
						historyFree, historyDetail = false, fmt.Sprintf("step %d (instance %d): completed instance %s, on a Resolved of its own %s", step, i, v1, v2)
					}
				}
			}
			res["history_free"] = historyFree
			res["history_detail"] = historyDetail
		}
		res["alias_free"] = aliasFree
		res["alias_detail"] = aliasDetail
		res["once"] = once
		res["twice"] = twice
		res["before"] = before
		res["after"] = after
		return res, nil
	})
}

// scribble edits every map and slice reachable from v in place.
func scribble(v any) {
	switch c := v.(type) {
	case map[string]any:
		for _, x := range c {
			scribble(x)
		}
		c["#scribble"] = true
	case []any:
		for _, x := range c {
			scribble(x)
		}
		if len(c) > 0 {
			c[0] = "#scribble"
		}
	}
}

// sharedContainer reports (as a description, "" if none) a map, non-empty slice or pointer that is reachable twice from v.
func sharedContainer(v reflect.Value) string {
	type key struct {
		k reflect.Kind
		p uintptr
	}
	seen := map[key]bool{}
	found := ""
	var walk func(v reflect.Value)
	note := func(v reflect.Value) bool {
		k := key{v.Kind(), v.Pointer()}
		if seen[k] {
			if found == "" {
				found = fmt.Sprintf("one %s is reachable twice", v.Type())
			}
			return false
		}
		seen[k] = true
		return true
	}
	walk = func(v reflect.Value) {
		switch v.Kind() {
		case reflect.Interface:
			if !v.IsNil() {
				walk(v.Elem())
			}
		case reflect.Pointer:
			if !v.IsNil() && note(v) {
				walk(v.Elem())
			}
		case reflect.Map:
			if !v.IsNil() && note(v) {
				it := v.MapRange()
				for it.Next() {
					walk(it.Value())
				}
			}
		case reflect.Slice:
			if v.Cap() > 0 && v.Type().Elem().Size() > 0 && !note(v) {
				return
			}
			for i := 0; i < v.Len(); i++ {
				walk(v.Index(i))
			}
		case reflect.Array:
			for i := 0; i < v.Len(); i++ {
				walk(v.Index(i))
			}
		}
	}
	walk(v)
	return found
}

func applyOnceP(rs interface{ ApplyDefaults(any) error }, p any) (out string) {
	defer func() {
		if r := recover(); r != nil {
			out = "panic"
		}
	}()
	if err := rs.ApplyDefaults(p); err != nil {
		return "error"
	}
	return "ok"
}

func applyOnce(rs interface{ ApplyDefaults(any) error }, vp *any) (out string) {
	defer func() {
		if r := recover(); r != nil {
			out = "panic"
		}
	}()
	if err := rs.ApplyDefaults(vp); err != nil {
		return "error"
	}
	return "ok"
}
