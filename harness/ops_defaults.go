package main

import (
	"encoding/json"
	"fmt"
)

func init() {
	// defaults {schema, docs, insts}: ApplyDefaults once and twice on each instance (decoded into any),
	// Validate before/after, and Resolve with ValidateDefaults.
	register("defaults", func(args json.RawMessage) (any, error) {
		var a validateArgs
		if err := json.Unmarshal(args, &a); err != nil {
			return nil, err
		}
		res := map[string]any{}
		// ValidateDefaults
		{
			av := a
			av.ValidateDefaults = true
			u, uerr, herr := buildUniverse(&av)
			if herr != nil {
				return nil, herr
			}
			if uerr != nil {
				return map[string]any{"outcome": "unmarshal-error"}, nil
			}
			if _, err := u.root.Resolve(u.opts); err != nil {
				res["validateDefaults"] = "error"
			} else {
				res["validateDefaults"] = "ok"
			}
		}
		u, _, herr := buildUniverse(&a)
		if herr != nil {
			return nil, herr
		}
		rs, err := u.root.Resolve(u.opts)
		if err != nil {
			res["outcome"] = "resolve-error"
			return res, nil
		}
		res["outcome"] = "resolved"
		var once, twice []any
		var before, after []string
		for _, it := range a.Insts {
			txt, err := untag(it)
			if err != nil {
				return nil, err
			}
			var v any
			if err := json.Unmarshal(txt, &v); err != nil {
				return nil, fmt.Errorf("instance: %v", err)
			}
			before = append(before, safeValidate(rs, v))
			r1 := applyOnce(rs, &v)
			b1, _ := json.Marshal(v)
			after = append(after, safeValidate(rs, v))
			r2 := applyOnce(rs, &v)
			b2, _ := json.Marshal(v)
			once = append(once, map[string]any{"r": r1, "text": string(b1)})
			twice = append(twice, map[string]any{"r": r2, "text": string(b2)})
		}
		// history on one Resolved: the caller edits, in place, every container of a result it received; later ApplyDefaults calls
		// (same and other instances) must still insert the declared defaults, i.e. give the texts of the first pass
		aliasFree := true
		aliasDetail := ""
		for sweep := 0; sweep < 2; sweep++ {
			for i, it := range a.Insts {
				txt, _ := untag(it)
				var v any
				if err := json.Unmarshal(txt, &v); err != nil {
					continue
				}
				r := applyOnce(rs, &v)
				b, _ := json.Marshal(v)
				want := once[i].(map[string]any)
				if aliasFree && (r != want["r"] || string(b) != want["text"]) {
					aliasFree = false
					aliasDetail = fmt.Sprintf("instance %d: first call %s, after other results were edited in place %s", i, want["text"], string(b))
				}
				scribble(v)
			}
		}
		res["alias_free"] = aliasFree
		res["alias_detail"] = aliasDetail
		res["once"] = once
		res["twice"] = twice
		res["before"] = before
		res["after"] = after
		return res, nil
	})
}

// scribble edits every map and slice reachable from v in place.
func scribble(v any) {
	switch c := v.(type) {
	case map[string]any:
		for _, x := range c {
			scribble(x)
		}
		c["#scribble"] = true
	case []any:
		for _, x := range c {
			scribble(x)
		}
		if len(c) > 0 {
			c[0] = "#scribble"
		}
	}
}

func applyOnce(rs interface{ ApplyDefaults(any) error }, vp *any) (out string) {
	defer func() {
		if r := recover(); r != nil {
			out = "panic"
		}
	}()
	if err := rs.ApplyDefaults(vp); err != nil {
		return "error"
	}
	return "ok"
}
