package main

import (
	"bytes"
	"encoding/json"
	"fmt"
	"reflect"

	"github.com/google/jsonschema-go/jsonschema"
)

func verdictsOf(s *jsonschema.Schema, insts []json.RawMessage) (string, []string) {
	rs, err := s.Resolve(nil)
	if err != nil {
		return "resolve-error", nil
	}
	var out []string
	for _, it := range insts {
		txt, err := untag(it)
		if err != nil {
			return "harness-error", nil
		}
		var v any
		if err := json.Unmarshal(txt, &v); err != nil {
			return "harness-error", nil
		}
		out = append(out, safeValidate(rs, v))
	}
	return "resolved", out
}

// roundTrip marshals s (several times), unmarshals the text, marshals again, and compares verdicts.
func roundTrip(s *jsonschema.Schema, insts []json.RawMessage) map[string]any {
	res := map[string]any{}
	b1, err := json.Marshal(s)
	if err != nil {
		res["outcome"] = "marshal-error"
		res["detail"] = err.Error()
		return res
	}
	res["outcome"] = "ok"
	res["text"] = string(b1)
	stable := true
	for i := 0; i < 4; i++ {
		b, err := json.Marshal(s)
		if err != nil || !bytes.Equal(b, b1) {
			stable = false
		}
	}
	res["stable"] = stable
	s2 := new(jsonschema.Schema)
	if err := json.Unmarshal(b1, s2); err != nil {
		res["rt"] = "unmarshal-error"
		res["rt_detail"] = err.Error()
		return res
	}
	b2, err := json.Marshal(s2)
	if err != nil {
		res["rt"] = "marshal-error"
		return res
	}
	res["rt"] = "ok"
	res["rt_text"] = string(b2)
	res["rt_equal"] = bytes.Equal(b1, b2)
	if insts != nil {
		o1, v1 := verdictsOf(s, insts)
		o2, v2 := verdictsOf(s2, insts)
		res["verdicts"] = []any{o1, v1}
		res["rt_verdicts"] = []any{o2, v2}
	}
	return res
}

// escapeStrings rewrites JSON text so that every ASCII letter or digit inside a string literal becomes \u00XX.
func escapeStrings(txt []byte) []byte {
	var out bytes.Buffer
	in := false
	for i := 0; i < len(txt); i++ {
		c := txt[i]
		switch {
		case !in:
			if c == '"' {
				in = true
			}
			out.WriteByte(c)
		case c == '\\':
			out.WriteByte(c)
			if i+1 < len(txt) {
				i++
				out.WriteByte(txt[i])
				if txt[i] == 'u' && i+4 < len(txt) {
					out.Write(txt[i+1 : i+5])
					i += 4
				}
			}
		case c == '"':
			in = false
			out.WriteByte(c)
		case (c >= 'a' && c <= 'z') || (c >= 'A' && c <= 'Z') || (c >= '0' && c <= '9'):
			fmt.Fprintf(&out, "\\u%04x", c)
		default:
			out.WriteByte(c)
		}
	}
	return out.Bytes()
}

func init() {
	register("fields", func(args json.RawMessage) (any, error) {
		return map[string]any{"outcome": "ok", "fields": fieldTable()}, nil
	})
	// marshal {desc, insts}: a Schema value built by reflection
	register("marshal", func(args json.RawMessage) (any, error) {
		var a struct {
			Desc  json.RawMessage   `json:"desc"`
			Insts []json.RawMessage `json:"insts"`
			// history: Schema values marshaled (successfully or not) before the one under test
			Pre []json.RawMessage `json:"pre"`
		}
		if err := json.Unmarshal(args, &a); err != nil {
			return nil, err
		}
		for _, pd := range a.Pre {
			ps, _, err := buildSchemas(pd)
			if err != nil {
				return nil, err
			}
			func() {
				defer func() { recover() }()
				for i := 0; i < 3; i++ {
					json.Marshal(ps)
				}
			}()
		}
		s, _, err := buildSchemas(a.Desc)
		if err != nil {
			return nil, err
		}
		if s == nil {
			return nil, fmt.Errorf("nil root")
		}
		twin, _, _ := buildSchemas(a.Desc)
		res := roundTrip(s, a.Insts)
		// Marshal (and the Resolve / Validate calls of the round trip) must leave the Schema value as it was (C14)
		res["untouched"] = reflect.DeepEqual(s, twin)
		return res, nil
	})
	// roundtrip-doc {doc, insts}: a schema document
	register("roundtrip-doc", func(args json.RawMessage) (any, error) {
		var a struct {
			Doc   json.RawMessage   `json:"doc"`
			Insts []json.RawMessage `json:"insts"`
		}
		if err := json.Unmarshal(args, &a); err != nil {
			return nil, err
		}
		txt, err := untag(a.Doc)
		if err != nil {
			return nil, err
		}
		s := new(jsonschema.Schema)
		if err := json.Unmarshal(txt, s); err != nil {
			return map[string]any{"outcome": "unmarshal-error", "detail": err.Error()}, nil
		}
		res := roundTrip(s, a.Insts)
		// the same document with every letter and digit inside its strings written as a \uXXXX escape is the same JSON value:
		// Unmarshal must read the same schema from it
		esc := escapeStrings(txt)
		s2 := new(jsonschema.Schema)
		if err := json.Unmarshal(esc, s2); err != nil {
			res["escape_equal"] = false
			res["escape_detail"] = "escaped spelling refused: " + err.Error()
		} else {
			b1, e1 := json.Marshal(s)
			b2, e2 := json.Marshal(s2)
			// compared as JSON values (Default is a RawMessage and keeps the spelling it was given)
			var v1, v2 any
			d1 := json.NewDecoder(bytes.NewReader(b1))
			d1.UseNumber()
			d2 := json.NewDecoder(bytes.NewReader(b2))
			d2.UseNumber()
			res["escape_equal"] = (e1 != nil && e2 != nil) || (e1 == nil && e2 == nil && d1.Decode(&v1) == nil && d2.Decode(&v2) == nil && reflect.DeepEqual(v1, v2))
			if res["escape_equal"] == false {
				res["escape_detail"] = string(b2)
			}
		}
		return res, nil
	})
	// clone {desc}: CloneSchemas and its observable guarantees
	//
	// Optional "tail": k > 0 — for trees nested deeper than encoding/json goes. Marshal of a Schema costs time quadratic in the nesting
	// depth (every level re-validates what its children wrote) and is refused beyond 10 000 levels of JSON nesting, so for such a tree
	// the whole-tree Marshal observations say nothing. With "tail" they are replaced by the same observations on the SUBTREES rooted at
	// the Schema objects of the k deepest levels (original and clone are walked in parallel, field by field): reply "shape" (the clone
	// has a Schema object exactly where the original has one), "tail_equal" (each such subtree of the clone marshals to the bytes of
	// its counterpart), "tail_frame" (after assigning to fields of every Schema object of the clone, each such subtree of the
	// original still marshals as before), "depth", "tail_n"; "marshal" is then "skipped". Pointer sets and the Resolve of a parent holding
	// both are observed as always. Absent or 0 (the default): nothing changes.
	//
	// clone-go: the same operation under a second name that the Lean driver does not know (it answers "unknown op"), for trees outside
	// what the driver's model of Marshal covers (no nesting limit there); judged by the direct oracle of the statement alone.
	cloneOp := func(args json.RawMessage) (any, error) {
		var a struct {
			Desc json.RawMessage `json:"desc"`
			Tail int             `json:"tail"`
		}
		if err := json.Unmarshal(args, &a); err != nil {
			return nil, err
		}
		s, _, err := buildSchemas(a.Desc)
		if err != nil {
			return nil, err
		}
		if a.Tail > 0 {
			return cloneDeep(s, a.Tail)
		}
		c := s.CloneSchemas()
		res := map[string]any{"outcome": "ok"}
		b1, err1 := json.Marshal(s)
		b2, err2 := json.Marshal(c)
		if err1 != nil || err2 != nil {
			res["marshal"] = "error"
			res["same_error"] = (err1 != nil) == (err2 != nil)
		} else {
			res["marshal"] = "ok"
			res["text"] = string(b1)
			res["clone_text"] = string(b2)
		}
		ps, pc := map[*jsonschema.Schema]bool{}, map[*jsonschema.Schema]bool{}
		schemaPointers(s, ps)
		schemaPointers(c, pc)
		shared := 0
		for p := range pc {
			if ps[p] {
				shared++
			}
		}
		res["shared"] = shared
		res["count"] = []int{len(ps), len(pc)}
		// both under one parent must still resolve iff the original alone resolves
		_, e0 := (&jsonschema.Schema{AllOf: []*jsonschema.Schema{s}}).Resolve(nil)
		_, e1 := (&jsonschema.Schema{AllOf: []*jsonschema.Schema{s, c}}).Resolve(nil)
		res["alone_resolves"] = e0 == nil
		res["both_resolve"] = e1 == nil
		// frame, in place: both trees grow their schema-valued slices (an append within spare capacity) and the clone inserts into its
		// schema-valued maps; the original must then marshal as it does after its own appends alone
		if err1 == nil {
			twin, _, _ := buildSchemas(a.Desc)
			pt := map[*jsonschema.Schema]bool{}
			schemaPointers(twin, pt)
			growSlices := func(ps map[*jsonschema.Schema]bool, title string) {
				for p := range ps {
					v := reflect.ValueOf(p).Elem()
					for i := 0; i < v.NumField(); i++ {
						f := v.Field(i)
						if f.Type() == reflect.TypeFor[[]*jsonschema.Schema]() && f.Cap() > f.Len() {
							f.Set(reflect.Append(f, reflect.ValueOf(&jsonschema.Schema{Title: title})))
						}
					}
				}
			}
			growSlices(pt, "orig")
			growSlices(ps, "orig")
			want, errw := json.Marshal(twin)
			growSlices(pc, "clone")
			for p := range pc {
				v := reflect.ValueOf(p).Elem()
				for i := 0; i < v.NumField(); i++ {
					f := v.Field(i)
					if f.Type() == reflect.TypeFor[map[string]*jsonschema.Schema]() && !f.IsNil() {
						f.SetMapIndex(reflect.ValueOf("#mut"), reflect.ValueOf(&jsonschema.Schema{Title: "clone"}))
					}
				}
			}
			got, errg := json.Marshal(s)
			res["frame_inplace"] = (errw != nil && errg != nil) || (errw == nil && errg == nil && bytes.Equal(want, got))
		}
		// frame: mutate every Schema object of the clone; the original must marshal as before
		if err1 == nil {
			s, _, _ = buildSchemas(a.Desc)
			c = s.CloneSchemas()
			pc = map[*jsonschema.Schema]bool{}
			schemaPointers(c, pc)
			for p := range pc {
				p.Title = p.Title + "#mut"
				p.Required = append([]string{"mut"}, p.Required...)
				p.Properties = map[string]*jsonschema.Schema{"mut": {}}
				p.AllOf = nil
				p.Not = &jsonschema.Schema{}
			}
			b3, err3 := json.Marshal(s)
			res["frame"] = err3 == nil && bytes.Equal(b1, b3)
		}
		return res, nil
	}
	register("clone", cloneOp)
	register("clone-go", cloneOp)
}

// schemaPair is a Schema object of the original, the object the clone holds at the same place, and its depth below the root.
type schemaPair struct {
	s, c  *jsonschema.Schema
	depth int
}

// pairSchemas walks s and c in parallel through their schema-holding fields. ok is false if the two trees differ in shape (a nil
// against a non-nil pointer, slices of different lengths, maps with different key sets).
func pairSchemas(s, c *jsonschema.Schema) (pairs []schemaPair, ok bool) {
	ok = true
	var walk func(s, c *jsonschema.Schema, d int)
	walk = func(s, c *jsonschema.Schema, d int) {
		if s == nil || c == nil {
			if s != c {
				ok = false
			}
			return
		}
		pairs = append(pairs, schemaPair{s, c, d})
		vs, vc := reflect.ValueOf(s).Elem(), reflect.ValueOf(c).Elem()
		for i := 0; i < vs.NumField(); i++ {
			fs, fc := vs.Field(i), vc.Field(i)
			switch fs.Type() {
			case schemaPtrT:
				walk(fs.Interface().(*jsonschema.Schema), fc.Interface().(*jsonschema.Schema), d+1)
			case schemaSliceT:
				ls, lc := fs.Interface().([]*jsonschema.Schema), fc.Interface().([]*jsonschema.Schema)
				if len(ls) != len(lc) || (ls == nil) != (lc == nil) {
					ok = false
					continue
				}
				for k := range ls {
					walk(ls[k], lc[k], d+1)
				}
			case schemaMapT:
				ms, mc := fs.Interface().(map[string]*jsonschema.Schema), fc.Interface().(map[string]*jsonschema.Schema)
				if len(ms) != len(mc) || (ms == nil) != (mc == nil) {
					ok = false
					continue
				}
				for _, k := range sortedKeys(ms) {
					cc, present := mc[k]
					if !present {
						ok = false
						continue
					}
					walk(ms[k], cc, d+1)
				}
			}
		}
	}
	walk(s, c, 0)
	return pairs, ok
}

// cloneDeep is the clone operation with "tail" (see there). s must be a tree.
func cloneDeep(s *jsonschema.Schema, tail int) (any, error) {
	c := s.CloneSchemas()
	res := map[string]any{"outcome": "ok", "marshal": "skipped"}
	ps, pc := map[*jsonschema.Schema]bool{}, map[*jsonschema.Schema]bool{}
	schemaPointers(s, ps)
	schemaPointers(c, pc)
	shared := 0
	for p := range pc {
		if ps[p] {
			shared++
		}
	}
	res["shared"] = shared
	res["count"] = []int{len(ps), len(pc)}
	pairs, ok := pairSchemas(s, c)
	res["shape"] = ok
	depth := 0
	for _, p := range pairs {
		if p.depth > depth {
			depth = p.depth
		}
	}
	res["depth"] = depth
	var deep []schemaPair
	for _, p := range pairs {
		if p.depth > depth-tail {
			deep = append(deep, p)
		}
	}
	res["tail_n"] = len(deep)
	before := make([][]byte, len(deep))
	equal := true
	for i, p := range deep {
		b1, e1 := json.Marshal(p.s)
		b2, e2 := json.Marshal(p.c)
		if e1 != nil || e2 != nil {
			return nil, fmt.Errorf("a subtree of the last %d levels does not marshal: %v %v", tail, e1, e2)
		}
		before[i] = b1
		if !bytes.Equal(b1, b2) {
			equal = false
		}
	}
	res["tail_equal"] = equal
	_, e0 := (&jsonschema.Schema{AllOf: []*jsonschema.Schema{s}}).Resolve(nil)
	_, e1 := (&jsonschema.Schema{AllOf: []*jsonschema.Schema{s, c}}).Resolve(nil)
	res["alone_resolves"] = e0 == nil
	res["both_resolve"] = e1 == nil
	// frame: assign to fields of every Schema object of the clone; the deep subtrees of the original must marshal as before
	for p := range pc {
		p.Title = p.Title + "#mut"
		p.Required = append([]string{"mut"}, p.Required...)
		p.Description = "mut"
	}
	frame := true
	for i, p := range deep {
		b, err := json.Marshal(p.s)
		if err != nil || !bytes.Equal(b, before[i]) {
			frame = false
		}
	}
	res["tail_frame"] = frame
	return res, nil
}
