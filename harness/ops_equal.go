package main

import (
	"encoding/json"
	"fmt"
	"hash/maphash"
	"reflect"

	"github.com/google/jsonschema-go/jsonschema"
)

func init() {
	// equal {x, y}: jsonschema.Equal on two realised Go values.
	register("equal", func(args json.RawMessage) (any, error) {
		var a struct {
			X, Y json.RawMessage
			// YPrefixOfX: y is not built from its descriptor but as x[:n] — the same backing array as x (aliased slices of
			// different length are distinct JSON values); the descriptor of y still says what y holds, for the model
			YPrefixOfX *int `json:"yPrefixOfX"`
		}
		if err := json.Unmarshal(args, &a); err != nil {
			return nil, err
		}
		x, err := buildAny(a.X)
		if err != nil {
			return nil, err
		}
		y, err := buildAny(a.Y)
		if err != nil {
			return nil, err
		}
		if a.YPrefixOfX != nil {
			xv := reflect.ValueOf(x)
			if xv.Kind() != reflect.Slice || *a.YPrefixOfX > xv.Len() {
				return nil, fmt.Errorf("yPrefixOfX: x is not a slice of that length")
			}
			y = xv.Slice(0, *a.YPrefixOfX).Interface()
		}
		return map[string]any{"outcome": "ok", "equal": jsonschema.Equal(x, y), "equal_rev": jsonschema.Equal(y, x)}, nil
	})
}

func init() {
	// hash {x, y}: the internal value hash under one fresh seed (hook), and Equal
	register("hash", func(args json.RawMessage) (any, error) {
		var a struct{ X, Y json.RawMessage }
		if err := json.Unmarshal(args, &a); err != nil {
			return nil, err
		}
		x, err := buildAny(a.X)
		if err != nil {
			return nil, err
		}
		y, err := buildAny(a.Y)
		if err != nil {
			return nil, err
		}
		seed := maphash.MakeSeed()
		hx, hy := jsonschema.VerifHash(seed, x), jsonschema.VerifHash(seed, y)
		seed2 := maphash.MakeSeed()
		hx2, hy2 := jsonschema.VerifHash(seed2, x), jsonschema.VerifHash(seed2, y)
		return map[string]any{"outcome": "ok", "equal": jsonschema.Equal(x, y), "hash_equal": hx == hy && hx2 == hy2}, nil
	})
}
