package main

import (
	"encoding/json"
	"fmt"
	"hash/maphash"
	"reflect"

	"github.com/google/jsonschema-go/jsonschema"
)

func init() {
	// equal {x, y}: jsonschema.Equal on two realised Go values.
	register("equal", func(args json.RawMessage) (any, error) {
		var a struct {
			X, Y json.RawMessage
			// YPrefixOfX: y is not built from its descriptor but as x[:n] — the same backing array as x (aliased slices of
			// different length are distinct JSON values); the descriptor of y still says what y holds, for the model
			YPrefixOfX *int `json:"yPrefixOfX"`
			// YFirstOfX (default 0 = off): x must be a non-nil pointer to a Go array (*[N]T, N >= 1); y is not built from its
			// descriptor but as the pointer to the FIRST ELEMENT of the array x points to, taken k times (k = 1: &(*x)[0], a *T;
			// k = 2: &(*x)[0][0] for *[N][M]T, …) — the same address as x under another pointer type, a container and its first
			// member being different JSON values. The descriptor of y still says what y holds (checked with DeepEqual on the
			// pointees), for the model.
			YFirstOfX int `json:"yFirstOfX"`
			// WrapBoth (default 0): after any aliasing, x and y are each boxed in that many levels of []any{·} (the same position
			// inside two containers).
			WrapBoth int `json:"wrapBoth"`
		}
		if err := json.Unmarshal(args, &a); err != nil {
			return nil, err
		}
		x, err := buildAny(a.X)
		if err != nil {
			return nil, err
		}
		y, err := buildAny(a.Y)
		if err != nil {
			return nil, err
		}
		if a.YPrefixOfX != nil {
			xv := reflect.ValueOf(x)
			if xv.Kind() != reflect.Slice || *a.YPrefixOfX > xv.Len() {
				return nil, fmt.Errorf("yPrefixOfX: x is not a slice of that length")
			}
			y = xv.Slice(0, *a.YPrefixOfX).Interface()
		}
		if a.YFirstOfX > 0 {
			cur := reflect.ValueOf(x)
			if cur.Kind() != reflect.Pointer || cur.IsNil() {
				return nil, fmt.Errorf("yFirstOfX: x is not a non-nil pointer")
			}
			cur = cur.Elem()
			for i := 0; i < a.YFirstOfX; i++ {
				if cur.Kind() != reflect.Array || cur.Len() == 0 {
					return nil, fmt.Errorf("yFirstOfX: not a non-empty Go array at level %d", i)
				}
				cur = cur.Index(0)
			}
			alias := cur.Addr()
			yv := reflect.ValueOf(y)
			if !yv.IsValid() || yv.Type() != alias.Type() || yv.IsNil() || !reflect.DeepEqual(yv.Elem().Interface(), alias.Elem().Interface()) {
				return nil, fmt.Errorf("yFirstOfX: the first member is not what the descriptor of y says")
			}
			y = alias.Interface()
		}
		for i := 0; i < a.WrapBoth; i++ {
			x, y = []any{x}, []any{y}
		}
		return map[string]any{"outcome": "ok", "equal": jsonschema.Equal(x, y), "equal_rev": jsonschema.Equal(y, x)}, nil
	})
}

func init() {
	// hash {x, y}: the internal value hash under one fresh seed (hook), and Equal
	register("hash", func(args json.RawMessage) (any, error) {
		var a struct{ X, Y json.RawMessage }
		if err := json.Unmarshal(args, &a); err != nil {
			return nil, err
		}
		x, err := buildAny(a.X)
		if err != nil {
			return nil, err
		}
		y, err := buildAny(a.Y)
		if err != nil {
			return nil, err
		}
		seed := maphash.MakeSeed()
		hx, hy := jsonschema.VerifHash(seed, x), jsonschema.VerifHash(seed, y)
		seed2 := maphash.MakeSeed()
		hx2, hy2 := jsonschema.VerifHash(seed2, x), jsonschema.VerifHash(seed2, y)
		return map[string]any{"outcome": "ok", "equal": jsonschema.Equal(x, y), "hash_equal": hx == hy && hx2 == hy2}, nil
	})
}
