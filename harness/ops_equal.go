package main

import (
	"encoding/json"

	"github.com/google/jsonschema-go/jsonschema"
)

func init() {
	// equal {x, y}: jsonschema.Equal on two realised Go values.
	register("equal", func(args json.RawMessage) (any, error) {
		var a struct{ X, Y json.RawMessage }
		if err := json.Unmarshal(args, &a); err != nil {
			return nil, err
		}
		x, err := buildAny(a.X)
		if err != nil {
			return nil, err
		}
		y, err := buildAny(a.Y)
		if err != nil {
			return nil, err
		}
		return map[string]any{"outcome": "ok", "equal": jsonschema.Equal(x, y)}, nil
	})
}
