package main

import (
	"encoding/json"
	"fmt"
	"log/slog"
	"math"
	"math/big"
	"math/rand"
	"reflect"
	"strings"
	"time"
	"unicode"
	"unsafe"
)

// A bank of declared types: named types, embedding, recursion, marshalers — things reflect.StructOf cannot make.
type Inner struct {
	X int    `json:"x"`
	Y string `json:"y,omitempty"`
}
type Inner2 struct {
	X string `json:"x"`
	Z bool
}
type Deep struct {
	Inner
	W float64 `json:"w"`
}
type EmbedVal struct {
	Inner
	A int `json:"a"`
}
type EmbedPtr struct {
	*Inner
	B string
}
type Shadow struct {
	X string `json:"x"` // shadows Inner.X (shallower)
	Inner
}
type ShadowByTag struct {
	Y string `json:"x"` // JSON name x at depth 0, different Go name than Inner.X
	Inner
}
type Ambiguous struct {
	Inner
	Inner2 // X at equal depth in both: encoding/json drops x
}
type EmbedTagged struct {
	Inner `json:"inner"` // a tagged embedded struct is an ordinary field for encoding/json
	C     int
}
type MyInts []int
type EmbedNonStruct struct {
	MyInts // embedded non-struct type: a field named MyInts for encoding/json
	D      int
}
type unexportedInner struct {
	U int `json:"u"`
}
type EmbedUnexported struct {
	unexportedInner // embedded unexported struct: its exported fields are promoted
	E               int
}
// an embedded struct tagged json:"-": encoding/json ignores the field and everything it promotes. NOT part of the plain bank
// (without a TypeSchemas override For flattens it: the class of known finding D16, H_D16 "embedded fields are untagged");
// C16 uses it with an override for Inner only.
type EmbedDash struct {
	Inner `json:"-"`
	F     int `json:"f"`
}

// two DIFFERENT declared struct types with the same name and the same package path: function-local declarations
func localItemA() reflect.Type {
	type Item struct {
		N int8 `json:"n"`
	}
	return reflect.TypeFor[Item]()
}
func localItemB() reflect.Type {
	type Item struct {
		N string `json:"n"`
		M []int  `json:"m,omitempty"`
	}
	return reflect.TypeFor[Item]()
}

type Rec struct {
	Next *Rec `json:"next"`
	V    int
}
type RecA struct{ B *RecB }
type RecB struct{ A []RecA }
type BadTag struct {
	A int `json:"it's"`
	B int `json:"ok_name"`
	C int `json:"-"`
	D int `json:"-,"`
	E int `json:",omitempty"`
	F int `json:"f,omitzero"`
	G int `json:"g,string"`
	h int
}
type WithMarshalers struct {
	T time.Time  `json:"t"`
	L slog.Level `json:"l"`
	I big.Int    `json:"i"`
	P *big.Int   `json:"p"`
	R *big.Rat   `json:"r"`
	F *big.Float `json:"f"`
}
type Named struct {
	S MyString         `json:"s"`
	I MyInt            `json:"i"`
	M map[MyString]int `json:"m"`
	A [2]MyFloat       `json:"a"`
}
type Twice struct {
	A Inner  `json:"a"`
	B Inner  `json:"b"`
	C *Inner `json:"c,omitempty"`
	D []Inner
}
// named types of unsupported kinds (dropped under IgnoreInvalidTypes), occurring more than once
type Handler func()
type IntKeyed map[int]string
type MyChan chan int
type TwoHandlers struct {
	H1 Handler  `json:"h1"`
	N  int      `json:"n"`
	H2 Handler  `json:"h2"`
	K1 IntKeyed `json:"k1"`
	K2 *IntKeyed
	C  []MyChan
	C2 map[string]MyChan
}
// defined (named) types over sized and unsigned integer kinds, and field-less structs
type MyInt8 int8
type MyUint16 uint16
type MyUint uint
type MyInt64 int64
type MyBool bool
type Empty struct{}
type Levels struct {
	L  MyInt8            `json:"l"`
	P  MyUint16          `json:"p,omitempty"`
	C  *MyUint           `json:"c"`
	S  []MyInt8          `json:"s"`
	M  map[string]MyUint `json:"m"`
	B  MyBool            `json:"b"`
	I6 MyInt64           `json:"i6"`
}
type Markers struct {
	Set   map[string]struct{} `json:"set"`
	Mark  struct{}            `json:"mark"`
	E     Empty               `json:"e"`
	PE    *Empty              `json:"pe"`
	Elems []Empty             `json:"elems"`
}
// two levels of embedding, the middle struct having fields of its own before and after the embedded one
type IDt struct {
	ID string `json:"id"`
}
type BaseT struct {
	Pre string `json:"pre"`
	IDt
	Name string `json:"name"`
	Age  int    `json:"age,omitempty"`
}
type DocT struct {
	BaseT
	Title string `json:"title"`
}
type TwoEmb struct {
	IDt
	Inner
	Title string `json:"title"`
}
type TwoEmbDeep struct {
	Lead bool `json:"lead"`
	TwoEmb
	*Inner2
}
type DocP struct {
	Head int `json:"head"`
	*BaseT
	Tail []string `json:"tail"`
}
// recursive and plain DEFINED POINTER types (reflect kind Pointer with a name)
type PtrSelf *PtrSelf
type PtrA *PtrB
type PtrB *PtrA
// chains that ENTER a pointer cycle from outside it (rho shapes), and a cycle of three
type PtrIntoSelf *PtrSelf
type PtrTail1 *PtrTail2
type PtrTail2 *PtrA
type PtrC1 *PtrC2
type PtrC2 *PtrC3
type PtrC3 *PtrC1
type HoldsRho struct {
	A int         `json:"a"`
	R PtrIntoSelf `json:"r"`
}
// recursive DEFINED ARRAY types (reflect kind Array with a name): every named type on the cycle is an array type; the cycle is
// closed through a pointer, slice or map element (a Go array type cannot contain itself by value). HoldsQuad and QuadList merely
// contain one (they are not on the cycle themselves). Vec3 and Grid are plain (non-recursive) defined array types.
type Quad [4]*Quad
type Trie [2][]Trie
type ArrMap [1]map[string]ArrMap
type ArrA [2]*ArrB
type ArrB [3]*ArrA
type HoldsQuad struct {
	N int  `json:"n"`
	Q Quad `json:"q"`
}
type QuadList []Quad
type Vec3 [3]float64
type Grid [2][2]MyInt
type PtrInt *int
type PtrInner *Inner
type HoldsPtrs struct {
	I PtrInt   `json:"i"`
	N PtrInner `json:"n,omitempty"`
}
type DescTag struct {
	A int `json:"a" jsonschema:"the a"`
}

var bank = map[string]reflect.Type{
	"Inner": reflect.TypeFor[Inner](), "Inner2": reflect.TypeFor[Inner2](), "Deep": reflect.TypeFor[Deep](),
	"EmbedVal": reflect.TypeFor[EmbedVal](), "EmbedPtr": reflect.TypeFor[EmbedPtr](), "Shadow": reflect.TypeFor[Shadow](),
	"ShadowByTag": reflect.TypeFor[ShadowByTag](), "Ambiguous": reflect.TypeFor[Ambiguous](),
	"EmbedTagged": reflect.TypeFor[EmbedTagged](), "EmbedNonStruct": reflect.TypeFor[EmbedNonStruct](),
	"EmbedUnexported": reflect.TypeFor[EmbedUnexported](), "Rec": reflect.TypeFor[Rec](), "RecA": reflect.TypeFor[RecA](),
	"BadTag": reflect.TypeFor[BadTag](), "WithMarshalers": reflect.TypeFor[WithMarshalers](), "Named": reflect.TypeFor[Named](),
	"Twice": reflect.TypeFor[Twice](), "DescTag": reflect.TypeFor[DescTag](), "MyInts": reflect.TypeFor[MyInts](),
	"time.Time": reflect.TypeFor[time.Time](), "slog.Level": reflect.TypeFor[slog.Level](), "big.Int": reflect.TypeFor[big.Int](),
	"big.Rat": reflect.TypeFor[big.Rat](), "big.Float": reflect.TypeFor[big.Float](),
	"MyString": reflect.TypeFor[MyString](), "MyInt": reflect.TypeFor[MyInt](), "MyFloat": reflect.TypeFor[MyFloat](),
	"MyInt8": reflect.TypeFor[MyInt8](), "MyUint16": reflect.TypeFor[MyUint16](), "MyUint": reflect.TypeFor[MyUint](),
	"MyInt64": reflect.TypeFor[MyInt64](), "MyBool": reflect.TypeFor[MyBool](), "Empty": reflect.TypeFor[Empty](),
	"Levels": reflect.TypeFor[Levels](), "Markers": reflect.TypeFor[Markers](),
	"IDt": reflect.TypeFor[IDt](), "BaseT": reflect.TypeFor[BaseT](), "DocT": reflect.TypeFor[DocT](), "DocP": reflect.TypeFor[DocP](), "TwoEmb": reflect.TypeFor[TwoEmb](), "TwoEmbDeep": reflect.TypeFor[TwoEmbDeep](),
	"PtrSelf": reflect.TypeFor[PtrSelf](), "PtrA": reflect.TypeFor[PtrA](), "PtrInt": reflect.TypeFor[PtrInt](),
	"PtrIntoSelf": reflect.TypeFor[PtrIntoSelf](), "PtrTail1": reflect.TypeFor[PtrTail1](), "PtrC1": reflect.TypeFor[PtrC1](),
	"HoldsRho": reflect.TypeFor[HoldsRho](),
	"Quad": reflect.TypeFor[Quad](), "Trie": reflect.TypeFor[Trie](), "ArrMap": reflect.TypeFor[ArrMap](), "ArrA": reflect.TypeFor[ArrA](),
	"HoldsQuad": reflect.TypeFor[HoldsQuad](), "QuadList": reflect.TypeFor[QuadList](),
	"Vec3": reflect.TypeFor[Vec3](), "Grid": reflect.TypeFor[Grid](),
	"PtrInner": reflect.TypeFor[PtrInner](), "HoldsPtrs": reflect.TypeFor[HoldsPtrs](),
	"Handler": reflect.TypeFor[Handler](), "IntKeyed": reflect.TypeFor[IntKeyed](), "MyChan": reflect.TypeFor[MyChan](),
	"TwoHandlers": reflect.TypeFor[TwoHandlers](),
	"unexportedInner": reflect.TypeFor[unexportedInner](), "EmbedDash": reflect.TypeFor[EmbedDash](),
	"LocalItemA": localItemA(), "LocalItemB": localItemB(),
}

// settable: v itself, or — for an unexported EMBEDDED struct field of an addressable struct, which reflect refuses to set although
// encoding/json emits the exported fields it promotes — the same memory as a settable Value.
func settable(v reflect.Value, f reflect.StructField) reflect.Value {
	if !v.CanSet() && f.Anonymous && !f.IsExported() && f.Type.Kind() == reflect.Struct && v.CanAddr() {
		return reflect.NewAt(f.Type, unsafe.Pointer(v.UnsafeAddr())).Elem()
	}
	return v
}

type tdesc struct {
	K      string          `json:"k"`
	E      json.RawMessage `json:"e"`
	Key    string          `json:"key"`
	N      int             `json:"n"`
	Name   string          `json:"name"`
	Fields []struct {
		Name string          `json:"name"`
		Tag  string          `json:"tag"`
		T    json.RawMessage `json:"t"`
	} `json:"fields"`
}

func buildType(raw json.RawMessage) (reflect.Type, error) {
	var d tdesc
	if err := json.Unmarshal(raw, &d); err != nil {
		return nil, err
	}
	switch d.K {
	case "named":
		t, ok := bank[d.Name]
		if !ok {
			return nil, fmt.Errorf("no bank type %q", d.Name)
		}
		return t, nil
	case "ptr", "slice", "array", "map":
		e, err := buildType(d.E)
		if err != nil {
			return nil, err
		}
		switch d.K {
		case "ptr":
			return reflect.PointerTo(e), nil
		case "slice":
			return reflect.SliceOf(e), nil
		case "array":
			return reflect.ArrayOf(d.N, e), nil
		default:
			k, ok := basicTypes[d.Key]
			if !ok {
				return nil, fmt.Errorf("bad key type %q", d.Key)
			}
			return reflect.MapOf(k, e), nil
		}
	case "struct":
		var fs []reflect.StructField
		for _, f := range d.Fields {
			ft, err := buildType(f.T)
			if err != nil {
				return nil, err
			}
			fs = append(fs, reflect.StructField{Name: f.Name, Type: ft, Tag: reflect.StructTag(f.Tag)})
		}
		return reflect.StructOf(fs), nil
	default:
		t, ok := basicTypes[d.K]
		if !ok {
			return nil, fmt.Errorf("unknown kind %q", d.K)
		}
		return t, nil
	}
}

// genValue fills v (addressable) with a value chosen by mode: 0 zero, 1 extremes-low, 2 extremes-high, 3+ random.
func genValue(v reflect.Value, rng *rand.Rand, mode int, depth int) {
	t := v.Type()
	switch t {
	case reflect.TypeFor[time.Time]():
		if mode != 0 {
			v.Set(reflect.ValueOf(time.Unix(int64(rng.Intn(1e9)), 0).UTC()))
		}
		return
	case reflect.TypeFor[big.Int]():
		if mode != 0 {
			v.Set(reflect.ValueOf(*big.NewInt(int64(rng.Intn(1000) - 500))))
		}
		return
	case reflect.TypeFor[big.Rat](), reflect.TypeFor[big.Float]():
		return
	case reflect.TypeFor[slog.Level]():
		v.SetInt(int64(rng.Intn(9) - 4))
		return
	}
	switch t.Kind() {
	case reflect.Bool:
		v.SetBool(mode == 2 || (mode >= 3 && rng.Intn(2) == 0))
	case reflect.Int, reflect.Int8, reflect.Int16, reflect.Int32, reflect.Int64:
		bits := t.Bits()
		lo, hi := int64(-1)<<(bits-1), int64(1)<<(bits-1)-1
		switch mode {
		case 0:
		case 1:
			v.SetInt(lo)
		case 2:
			v.SetInt(hi)
		default:
			v.SetInt(int64(rng.Intn(201) - 100))
		}
	case reflect.Uint, reflect.Uint8, reflect.Uint16, reflect.Uint32, reflect.Uint64, reflect.Uintptr:
		bits := t.Bits()
		hi := uint64(math.MaxUint64)
		if bits < 64 {
			hi = uint64(1)<<bits - 1
		}
		switch mode {
		case 0, 1:
		case 2:
			v.SetUint(hi)
		default:
			v.SetUint(uint64(rng.Intn(200)))
		}
	case reflect.Float32, reflect.Float64:
		switch mode {
		case 0:
		case 1:
			v.SetFloat(-1.5e10)
		case 2:
			v.SetFloat(1e20)
		default:
			v.SetFloat(float64(rng.Intn(2000)-1000) / 8)
		}
	case reflect.String:
		if mode != 0 {
			v.SetString([]string{"", "a", "é", "x y", "long string value"}[rng.Intn(5)])
		}
	case reflect.Interface:
		if mode >= 2 {
			choices := []any{nil, 1.5, "s", true, []any{1.0}, map[string]any{"k": nil}}
			c := choices[rng.Intn(len(choices))]
			if c != nil {
				v.Set(reflect.ValueOf(c))
			}
		}
	case reflect.Pointer:
		if mode == 0 || depth > 6 || (mode >= 3 && rng.Intn(3) == 0) {
			return // nil
		}
		p := reflect.New(t.Elem())
		genValue(p.Elem(), rng, mode, depth+1)
		v.Set(p)
	case reflect.Slice:
		if mode == 0 || depth > 12 {
			return // nil slice (depth: recursive declared types such as `type Trie [2][]Trie` have values of any size)
		}
		n := 0
		if mode >= 2 {
			n = rng.Intn(4)
		}
		s := reflect.MakeSlice(t, n, n)
		for i := 0; i < n; i++ {
			genValue(s.Index(i), rng, mode, depth+1)
		}
		v.Set(s)
	case reflect.Array:
		for i := 0; i < t.Len(); i++ {
			genValue(v.Index(i), rng, mode, depth+1)
		}
	case reflect.Map:
		// nil maps are outside the domain: always make one
		m := reflect.MakeMap(t)
		n := 0
		if mode >= 2 && depth <= 12 {
			n = rng.Intn(3)
		}
		for i := 0; i < n; i++ {
			k := reflect.New(t.Key()).Elem()
			if k.Kind() == reflect.String {
				k.SetString([]string{"a", "b", "k é"}[rng.Intn(3)])
			}
			e := reflect.New(t.Elem()).Elem()
			genValue(e, rng, mode, depth+1)
			m.SetMapIndex(k, e)
		}
		v.Set(m)
	case reflect.Struct:
		for i := 0; i < t.NumField(); i++ {
			f := t.Field(i)
			if !f.IsExported() && !f.Anonymous {
				continue
			}
			fv := settable(v.Field(i), f)
			if !fv.CanSet() {
				continue
			}
			if f.Anonymous && f.Type.Kind() == reflect.Pointer {
				// embedded pointers must be non-nil (domain of C04)
				p := reflect.New(f.Type.Elem())
				genValue(p.Elem(), rng, mode, depth+1)
				fv.Set(p)
				continue
			}
			genValue(fv, rng, mode, depth+1)
		}
	}
}

// inDomain reports whether the type lies in the plain-data domain of C04 (no []byte, no ",string", no nil-map positions
// are generated; pointer-receiver marshalers by value are excluded).
func typeFeatures(t reflect.Type, seen map[reflect.Type]bool, out map[string]bool) {
	if seen[t] {
		out["recursive"] = true
		return
	}
	if t.Name() != "" {
		seen[t] = true
		defer delete(seen, t)
	}
	switch t {
	case reflect.TypeFor[big.Int]():
		out["bigint"] = true
		return
	case reflect.TypeFor[big.Rat](), reflect.TypeFor[big.Float]():
		out["ptr-marshaler-by-value"] = true
		return
	case reflect.TypeFor[time.Time](), reflect.TypeFor[slog.Level]():
		out["marshaler"] = true
		return
	}
	switch t.Kind() {
	case reflect.Pointer:
		if e := t.Elem(); e == reflect.TypeFor[big.Rat]() || e == reflect.TypeFor[big.Float]() || e == reflect.TypeFor[big.Int]() {
			if e == reflect.TypeFor[big.Int]() {
				out["bigint"] = true
			}
			out["marshaler"] = true
			return
		}
		typeFeatures(t.Elem(), seen, out)
	case reflect.Slice, reflect.Array:
		if t.Elem().Kind() == reflect.Uint8 && t.Kind() == reflect.Slice {
			out["bytes"] = true
		}
		typeFeatures(t.Elem(), seen, out)
	case reflect.Map:
		if t.Key().Kind() != reflect.String {
			out["badkey"] = true
		}
		typeFeatures(t.Elem(), seen, out)
	case reflect.Func, reflect.Chan, reflect.Complex64, reflect.Complex128, reflect.UnsafePointer:
		out["unsupported"] = true
	case reflect.Struct:
		names := map[string]int{}
		for i := 0; i < t.NumField(); i++ {
			f := t.Field(i)
			tag, has := f.Tag.Lookup("json")
			name, opts, _ := strings.Cut(tag, ",")
			if strings.Contains(","+opts+",", ",string,") {
				out["string-option"] = true
			}
			if f.Anonymous {
				ft := f.Type
				if ft.Kind() == reflect.Pointer {
					ft = ft.Elem()
				}
				if has && name != "" && name != "-" {
					out["embedded-tagged"] = true
				}
				if ft.Kind() != reflect.Struct {
					out["embedded-nonstruct"] = true
				}
				if !f.IsExported() {
					out["embedded-unexported"] = true
				}
				out["embedded"] = true
			}
			if has && name != "" && name != "-" && !validJSONName(name) {
				out["bad-tag-name"] = true
			}
			if f.IsExported() {
				n := f.Name
				if name != "" {
					n = name
				}
				names[n]++
			}
			typeFeatures(f.Type, seen, out)
		}
	}
}

func validJSONName(name string) bool {
	if name == "" {
		return false
	}
	for _, c := range name {
		switch {
		case strings.ContainsRune("!#$%&()*+-./:;<=>?@[]^_{|}~ ", c):
		case unicode.IsLetter(c), unicode.IsDigit(c): // encoding/json's isValidTag
		default:
			return false
		}
	}
	return true
}

// describeType renders a reflect.Type as a structural descriptor for the model:
// named types carry their name and underlying structure; recursive occurrences become {"k":"ref"}.
func describeType(t reflect.Type, open map[reflect.Type]bool) map[string]any {
	special := map[reflect.Type]string{reflect.TypeFor[time.Time](): "time.Time", reflect.TypeFor[slog.Level](): "slog.Level",
		reflect.TypeFor[big.Int](): "big.Int", reflect.TypeFor[big.Rat](): "big.Rat", reflect.TypeFor[big.Float](): "big.Float"}
	if n, ok := special[t]; ok {
		return map[string]any{"k": "named", "name": n, "u": map[string]any{"k": "opaque"}}
	}
	isBuiltin := t.PkgPath() == "" && t.Name() != ""
	if t.Name() != "" && !isBuiltin {
		if open[t] {
			return map[string]any{"k": "ref", "name": t.String()}
		}
		open[t] = true
		defer delete(open, t)
		return map[string]any{"k": "named", "name": t.String(), "u": describeUnderlying(t, open)}
	}
	return describeUnderlying(t, open)
}

func describeUnderlying(t reflect.Type, open map[reflect.Type]bool) map[string]any {
	switch t.Kind() {
	case reflect.Pointer:
		return map[string]any{"k": "ptr", "e": describeType(t.Elem(), open)}
	case reflect.Slice:
		return map[string]any{"k": "slice", "e": describeType(t.Elem(), open)}
	case reflect.Array:
		return map[string]any{"k": "array", "n": t.Len(), "e": describeType(t.Elem(), open)}
	case reflect.Map:
		return map[string]any{"k": "map", "key": t.Key().Kind().String(), "e": describeType(t.Elem(), open)}
	case reflect.Struct:
		fs := []any{}
		for i := 0; i < t.NumField(); i++ {
			f := t.Field(i)
			fs = append(fs, map[string]any{"name": f.Name, "tag": string(f.Tag), "embedded": f.Anonymous, "exported": f.IsExported(),
				"t": describeType(f.Type, open)})
		}
		return map[string]any{"k": "struct", "fields": fs}
	default:
		k := t.Kind().String()
		return map[string]any{"k": "basic", "kind": strings.ToUpper(k[:1]) + k[1:]}
	}
}
