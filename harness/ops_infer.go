package main

import (
	"strings"
	"bytes"
	"encoding/json"
	"fmt"
	"math/rand"
	"reflect"
	"sort"

	"github.com/google/jsonschema-go/jsonschema"
)

type inferOpts struct {
	Ignore      bool `json:"ignore"`
	TypeSchemas []struct {
		Name   string          `json:"name"`
		Schema json.RawMessage `json:"schema"`
		// Share: pairs of JSON Pointers [a, b] into the entry (keyword names as in JSON: /properties/Lo, /anyOf/0/prefixItems/1,
		// /items, /additionalProperties ...). After decoding, the position b is made to hold the SAME *Schema object as the
		// position a: an entry assembled in Go code that uses one subschema value at several places (a DAG; JSON text can only
		// describe trees). Applied in order. Default (absent): the entry is the tree its JSON text describes.
		Share [][2]string `json:"share"`
	} `json:"typeSchemas"`
}

// schemaChild finds, for one keyword of s, the addressable reflect.Value of the Schema field that holds its subschemas.
func schemaChild(s *jsonschema.Schema, keyword string) (reflect.Value, bool) {
	v := reflect.ValueOf(s).Elem()
	t := v.Type()
	for i := 0; i < t.NumField(); i++ {
		f := t.Field(i)
		name, _, _ := strings.Cut(f.Tag.Get("json"), ",")
		if name == keyword || (keyword == "items" && f.Name == "Items") {
			switch f.Type {
			case schemaPtrT, schemaSliceT, schemaMapT:
				return v.Field(i), true
			}
		}
	}
	return reflect.Value{}, false
}

// schemaSlot resolves a JSON Pointer below root to (get, set) for the *Schema stored at that position.
func schemaSlot(root *jsonschema.Schema, ptr string) (get func() *jsonschema.Schema, set func(*jsonschema.Schema), err error) {
	segs := strings.Split(strings.TrimPrefix(ptr, "/"), "/")
	cur := root
	for i := 0; i < len(segs); {
		if cur == nil {
			return nil, nil, fmt.Errorf("share: nothing at %q", ptr)
		}
		fv, ok := schemaChild(cur, segs[i])
		if !ok {
			return nil, nil, fmt.Errorf("share: no subschema keyword %q in %q", segs[i], ptr)
		}
		last := false
		switch fv.Type() {
		case schemaPtrT:
			last = i+1 == len(segs)
			get = func() *jsonschema.Schema { return fv.Interface().(*jsonschema.Schema) }
			set = func(n *jsonschema.Schema) { fv.Set(reflect.ValueOf(n)) }
			i++
		case schemaSliceT:
			sl := fv.Interface().([]*jsonschema.Schema)
			var k int
			if i+1 >= len(segs) {
				return nil, nil, fmt.Errorf("share: %q stops at a list", ptr)
			}
			if _, e := fmt.Sscanf(segs[i+1], "%d", &k); e != nil || k < 0 || k >= len(sl) {
				return nil, nil, fmt.Errorf("share: bad index in %q", ptr)
			}
			last = i+2 == len(segs)
			get = func() *jsonschema.Schema { return sl[k] }
			set = func(n *jsonschema.Schema) { sl[k] = n }
			i += 2
		case schemaMapT:
			m := fv.Interface().(map[string]*jsonschema.Schema)
			if i+1 >= len(segs) {
				return nil, nil, fmt.Errorf("share: %q stops at a map", ptr)
			}
			key := strings.ReplaceAll(strings.ReplaceAll(segs[i+1], "~1", "/"), "~0", "~")
			if _, ok := m[key]; !ok {
				return nil, nil, fmt.Errorf("share: no key %q in %q", key, ptr)
			}
			last = i+2 == len(segs)
			get = func() *jsonschema.Schema { return m[key] }
			set = func(n *jsonschema.Schema) { m[key] = n }
			i += 2
		}
		if last {
			return get, set, nil
		}
		cur = get()
	}
	return nil, nil, fmt.Errorf("share: empty pointer")
}

// repeatedSchemas counts the *Schema objects that are reached more than once below s (0 for a tree).
func repeatedSchemas(s *jsonschema.Schema) int {
	count := map[*jsonschema.Schema]int{}
	var walk func(s *jsonschema.Schema)
	walk = func(s *jsonschema.Schema) {
		if s == nil {
			return
		}
		count[s]++
		if count[s] > 1 {
			return
		}
		v := reflect.ValueOf(s).Elem()
		for i := 0; i < v.NumField(); i++ {
			f := v.Field(i)
			switch f.Type() {
			case schemaPtrT:
				walk(f.Interface().(*jsonschema.Schema))
			case schemaSliceT:
				for _, c := range f.Interface().([]*jsonschema.Schema) {
					walk(c)
				}
			case schemaMapT:
				for _, c := range f.Interface().(map[string]*jsonschema.Schema) {
					walk(c)
				}
			}
		}
	}
	walk(s)
	n := 0
	for _, c := range count {
		if c > 1 {
			n++
		}
	}
	return n
}

type inferArgs struct {
	Type json.RawMessage `json:"type"`
	Opts inferOpts       `json:"opts"`
	Seed int64           `json:"seed"`
	N    int             `json:"n"`
	// Pre: calls of ForType made earlier in the same process (history): For must be a function of its own arguments only.
	Pre []struct {
		Type json.RawMessage `json:"type"`
		Opts inferOpts       `json:"opts"`
	} `json:"pre"`
	// Warm: types on which ForType is called BEFORE the call under test with the SAME *ForOptions value (one TypeSchemas map, one
	// set of entry schemas shared by all the calls), results discarded: what a program that keeps its options in a variable does.
	// Empty (the default): the call under test is the first use of its options object.
	Warm []json.RawMessage `json:"warm"`
}

// runWarm performs the earlier calls that share the options object of the call under test.
func (a *inferArgs) runWarm(opts *jsonschema.ForOptions) {
	for _, w := range a.Warm {
		t, err := buildType(w)
		if err != nil {
			continue
		}
		func() {
			defer func() { recover() }()
			jsonschema.ForType(t, opts)
		}()
	}
}

// runPre performs the earlier calls of the history and discards their results.
func (a *inferArgs) runPre() {
	for _, p := range a.Pre {
		t, err := buildType(p.Type)
		if err != nil {
			continue
		}
		pa := inferArgs{Opts: p.Opts}
		o, err := pa.forOptions()
		if err != nil {
			continue
		}
		func() {
			defer func() { recover() }()
			if r, err := jsonschema.ForType(t, o); err == nil && r != nil {
				scribbleSchema(r, a.scribbleDir())
			}
		}()
	}
	// the call under test itself, made once before with the same arguments; the caller then edits that result in place
	if t, err := buildType(a.Type); err == nil {
		if o, err := a.forOptions(); err == nil {
			func() {
				defer func() { recover() }()
				if r, err := jsonschema.ForType(t, o); err == nil && r != nil {
					scribbleSchema(r, a.scribbleDir())
				}
				if r, err := jsonschema.ForType(t, nil); err == nil && r != nil {
					scribbleSchema(r, a.scribbleDir())
				}
			}()
		}
	}
}

// scribbleDir: histories alternate between tightening and widening edits (derived from the operation, so that it replays)
func (a *inferArgs) scribbleDir() float64 {
	if (len(a.Type)+len(a.Pre))%2 == 0 {
		return 1
	}
	return -1
}

// restKeys: of the keys encoding/json emits for a fully populated struct value, those that are NOT promoted through an embedded
// field whose type has a TypeSchemas override (For replaces exactly those by the override's properties; every other field must stay).
func restKeys(t reflect.Type, over map[reflect.Type]*jsonschema.Schema, full []string) []string {
	keep := map[string]bool{}
	for _, f := range reflect.VisibleFields(t) {
		if f.Anonymous || !f.IsExported() {
			continue
		}
		under := false
		for n := 1; n < len(f.Index); n++ {
			af := t.FieldByIndex(f.Index[:n])
			if af.Anonymous && over[af.Type] != nil {
				under = true
			}
		}
		if under {
			continue
		}
		name := f.Name
		if tag, ok := f.Tag.Lookup("json"); ok {
			if tag == "-" {
				continue
			}
			if i := bytes.IndexByte([]byte(tag), ','); i >= 0 {
				tag = tag[:i]
			}
			if tag != "" {
				name = tag
			}
		}
		keep[name] = true
	}
	out := []string{}
	for _, k := range full {
		if keep[k] {
			out = append(out, k)
		}
	}
	return out
}

// overrideKeys: the other half of "every TypeSchemas entry is substituted wherever its type occurs", for entries of EMBEDDED field
// types (exact type of an anonymous field reflect.VisibleFields lists). missing: property names of such an entry that the result
// does not list; leaked: JSON names of fields promoted through an overridden embedded field that the result lists although neither
// the entry nor a field outside the overridden type declares them.
func overrideKeys(t reflect.Type, over map[reflect.Type]*jsonschema.Schema, s *jsonschema.Schema) (missing, leaked []string) {
	missing, leaked = []string{}, []string{}
	keep, under, ov := map[string]bool{}, map[string]bool{}, map[string]bool{}
	for _, f := range reflect.VisibleFields(t) {
		if f.Anonymous {
			if o := over[f.Type]; o != nil {
				for k := range o.Properties {
					ov[k] = true
				}
			}
			continue
		}
		if !f.IsExported() {
			continue
		}
		name := f.Name
		if tag, ok := f.Tag.Lookup("json"); ok {
			if tag == "-" {
				continue
			}
			tn, _, _ := strings.Cut(tag, ",")
			if tn != "" {
				name = tn
			}
		}
		isUnder := false
		for n := 1; n < len(f.Index); n++ {
			if af := t.FieldByIndex(f.Index[:n]); af.Anonymous && over[af.Type] != nil {
				isUnder = true
			}
		}
		if isUnder {
			under[name] = true
		} else {
			keep[name] = true
		}
	}
	for k := range ov {
		if s.Properties[k] == nil {
			missing = append(missing, k)
		}
	}
	for k := range under {
		if !keep[k] && !ov[k] && s.Properties[k] != nil {
			leaked = append(leaked, k)
		}
	}
	sort.Strings(missing)
	sort.Strings(leaked)
	return missing, leaked
}

func (a *inferArgs) forOptions() (*jsonschema.ForOptions, error) {
	o := &jsonschema.ForOptions{IgnoreInvalidTypes: a.Opts.Ignore}
	for _, ts := range a.Opts.TypeSchemas {
		t, ok := bank[ts.Name]
		if !ok {
			return nil, fmt.Errorf("no bank type %q", ts.Name)
		}
		txt, err := untag(ts.Schema)
		if err != nil {
			return nil, err
		}
		s := new(jsonschema.Schema)
		if err := json.Unmarshal(txt, s); err != nil {
			return nil, err
		}
		for _, pair := range ts.Share {
			get, _, err := schemaSlot(s, pair[0])
			if err != nil {
				return nil, err
			}
			_, set, err := schemaSlot(s, pair[1])
			if err != nil {
				return nil, err
			}
			set(get())
		}
		if o.TypeSchemas == nil {
			o.TypeSchemas = map[reflect.Type]*jsonschema.Schema{}
		}
		o.TypeSchemas[t] = s
	}
	return o, nil
}

func objectKeys(b []byte) []string {
	dec := json.NewDecoder(bytes.NewReader(b))
	tok, err := dec.Token()
	if err != nil || tok != json.Delim('{') {
		return nil
	}
	var keys []string
	for dec.More() {
		k, err := dec.Token()
		if err != nil {
			return keys
		}
		keys = append(keys, k.(string))
		var skip json.RawMessage
		if err := dec.Decode(&skip); err != nil {
			return keys
		}
	}
	return keys
}

func features(t reflect.Type) []string {
	out := map[string]bool{}
	typeFeatures(t, map[reflect.Type]bool{}, out)
	var fs []string
	for k := range out {
		fs = append(fs, k)
	}
	sort.Strings(fs)
	return fs
}

// sample values of t: zero, extremes, random
func sampleValues(t reflect.Type, seed int64, n int) []reflect.Value {
	rng := rand.New(rand.NewSource(seed))
	var vs []reflect.Value
	for mode := 0; mode < 3+n; mode++ {
		v := reflect.New(t).Elem()
		genValue(v, rng, mode, 0)
		vs = append(vs, v)
	}
	return vs
}

func init() {
	// typeinfo {type}: the structure of a type as reflect shows it (input of the model)
	register("typeinfo", func(args json.RawMessage) (any, error) {
		var a inferArgs
		if err := json.Unmarshal(args, &a); err != nil {
			return nil, err
		}
		t, err := buildType(a.Type)
		if err != nil {
			return nil, err
		}
		return map[string]any{"outcome": "ok", "structure": describeType(t, map[reflect.Type]bool{})}, nil
	})
	register("infer", func(args json.RawMessage) (any, error) {
		var a inferArgs
		if err := json.Unmarshal(args, &a); err != nil {
			return nil, err
		}
		t, err := buildType(a.Type)
		if err != nil {
			return nil, err
		}
		opts, err := a.forOptions()
		if err != nil {
			return nil, err
		}
		res := map[string]any{"features": features(t), "gotype": t.String()}
		optsTwin, _ := a.forOptions() // an untouched copy of the options: For must not write into the TypeSchemas it is given
		defer func() {
			if optsTwin != nil && len(opts.TypeSchemas) > 0 {
				res["ts_untouched"] = reflect.DeepEqual(opts.TypeSchemas, optsTwin.TypeSchemas)
			}
		}()
		// history: the same call with plain options before and after the call under test (and after any Pre calls)
		plain := &jsonschema.ForOptions{IgnoreInvalidTypes: a.Opts.Ignore}
		var pb0 []byte
		if sp0, err := jsonschema.ForType(t, plain); err == nil && sp0 != nil {
			pb0, _ = json.Marshal(sp0)
			scribbleSchema(sp0, 1)
		}
		a.runPre()
		s1, err := jsonschema.ForType(t, opts)
		if sp1, err1 := jsonschema.ForType(t, plain); err1 == nil && sp1 != nil && pb0 != nil {
			pb1, _ := json.Marshal(sp1)
			res["history_free"] = bytes.Equal(pb0, pb1)
		}
		if err != nil {
			res["outcome"] = "error"
			res["detail"] = err.Error()
			return res, nil
		}
		if s1 == nil {
			res["outcome"] = "nil"
			return res, nil
		}
		res["outcome"] = "ok"
		s2, err2 := jsonschema.ForType(t, opts)
		b1, e1 := json.Marshal(s1)
		b2, e2 := json.Marshal(s2)
		res["schema"] = string(b1)
		res["determ"] = err2 == nil && e1 == nil && e2 == nil && bytes.Equal(b1, b2)
		// isolation: no *Schema shared between the two results, nor with the TypeSchemas supplied
		p1, p2, pt := map[*jsonschema.Schema]bool{}, map[*jsonschema.Schema]bool{}, map[*jsonschema.Schema]bool{}
		schemaPointers(s1, p1)
		schemaPointers(s2, p2)
		for _, ts := range opts.TypeSchemas {
			schemaPointers(ts, pt)
		}
		shared := 0
		for p := range p1 {
			if p2[p] || pt[p] {
				shared++
			}
		}
		res["shared"] = shared
		// tree-ness: no *Schema object twice inside ONE result (whatever the shape of the TypeSchemas entries)
		res["dag"] = repeatedSchemas(s1)
		_, rerr := s1.Resolve(nil)
		res["resolves"] = rerr == nil
		if rerr != nil {
			res["resolve_detail"] = rerr.Error()
		}
		// the fields encoding/json emits
		if tt := t; tt.Kind() == reflect.Struct {
			rng := rand.New(rand.NewSource(1))
			full := reflect.New(tt).Elem()
			genValue(full, rng, 2, 0)
			// make every field non-zero where possible so that omitempty fields show up
			fillNonZero(full)
			fb, ferr := json.Marshal(full.Interface())
			// the zero value, except that embedded pointers are non-nil (the property's domain)
			zero := reflect.New(tt).Elem()
			genValue(zero, rng, 0, 0)
			zb, zerr := json.Marshal(zero.Interface())
			if ferr == nil && zerr == nil {
				if len(opts.TypeSchemas) == 0 {
					res["full_keys"] = objectKeys(fb)
				} else if opts.TypeSchemas[tt] == nil {
					res["rest_keys"] = restKeys(tt, opts.TypeSchemas, objectKeys(fb))
					res["override_missing"], res["override_leaked"] = overrideKeys(tt, opts.TypeSchemas, s1)
				}
				res["zero_keys"] = objectKeys(zb)
				// fields that encoding/json can never emit: omitempty on a zero-length array type (always "empty")
				never := []string{}
				for _, f := range reflect.VisibleFields(tt) {
					if f.Anonymous || !f.IsExported() {
						continue
					}
					tag := f.Tag.Get("json")
					name, optsS, _ := strings.Cut(tag, ",")
					if name == "" {
						name = f.Name
					}
					if strings.Contains(","+optsS+",", ",omitempty,") && f.Type.Kind() == reflect.Array && f.Type.Len() == 0 {
						never = append(never, name)
					}
				}
				res["never_emitted"] = never
				props := []string{}
				for k := range s1.Properties {
					props = append(props, k)
				}
				sort.Strings(props)
				res["properties"] = props
				res["order"] = s1.PropertyOrder
				res["required"] = s1.Required
			}
		}
		return res, nil
	})

	// infer-accepts: the JSON of sampled values validates against the inferred schema (C04, observed directly)
	register("infer-accepts", func(args json.RawMessage) (any, error) {
		var a inferArgs
		if err := json.Unmarshal(args, &a); err != nil {
			return nil, err
		}
		t, err := buildType(a.Type)
		if err != nil {
			return nil, err
		}
		opts, err := a.forOptions()
		if err != nil {
			return nil, err
		}
		res := map[string]any{"features": features(t), "gotype": t.String()}
		a.runPre()
		a.runWarm(opts)
		s, err := jsonschema.ForType(t, opts)
		if err != nil || s == nil {
			res["outcome"] = "error"
			if err != nil {
				res["detail"] = err.Error()
			}
			return res, nil
		}
		rs, err := s.Resolve(nil)
		if err != nil {
			res["outcome"] = "resolve-error"
			res["detail"] = err.Error()
			return res, nil
		}
		res["outcome"] = "ok"
		tested, rejected := 0, []string{}
		for _, v := range sampleValues(t, a.Seed, a.N) {
			b, err := json.Marshal(v.Interface())
			if err != nil {
				continue
			}
			var inst any
			if err := json.Unmarshal(b, &inst); err != nil {
				continue
			}
			tested++
			if safeValidate(rs, inst) != "valid" {
				if len(rejected) < 3 {
					rejected = append(rejected, string(b))
				}
			}
		}
		res["tested"] = tested
		res["rejected"] = rejected
		sb, _ := json.Marshal(s)
		res["schema"] = string(sb)
		return res, nil
	})

	// infer-decodes: every single-point mutation of a valid encoding that the schema accepts must decode (C09)
	register("infer-decodes", func(args json.RawMessage) (any, error) {
		var a inferArgs
		if err := json.Unmarshal(args, &a); err != nil {
			return nil, err
		}
		t, err := buildType(a.Type)
		if err != nil {
			return nil, err
		}
		res := map[string]any{"features": features(t), "gotype": t.String()}
		a.runPre()
		s, err := jsonschema.ForType(t, nil)
		if err != nil || s == nil {
			res["outcome"] = "error"
			return res, nil
		}
		rs, err := s.Resolve(nil)
		if err != nil {
			res["outcome"] = "resolve-error"
			return res, nil
		}
		res["outcome"] = "ok"
		tested, accepted, nullTested := 0, 0, 0
		bad, nullOK := []string{}, []string{}
		typeNames := append(goFieldNames(t, map[reflect.Type]bool{}), jsonTagNames(t, map[reflect.Type]bool{})...)
		for _, v := range sampleValues(t, a.Seed, a.N) {
			b, err := json.Marshal(v.Interface())
			if err != nil {
				continue
			}
			// keep number literals exact through the mutation pipeline
			var inst any
			d0 := json.NewDecoder(bytes.NewReader(b))
			d0.UseNumber()
			if err := d0.Decode(&inst); err != nil {
				continue
			}
			docs := [][]byte{b}
			for _, m := range mutations(inst) {
				mb, err := json.Marshal(m)
				if err == nil {
					docs = append(docs, mb)
				}
			}
			// a rename moves a value under a field of another kind: keep only documents whose integers lie within int64, the range
			// every 64-bit kind accepts on its own side (the property speaks of integers "within the range of the 64-bit types";
			// an int64 field has no bound in the schema, so a uint64 maximum moved under it is outside that proviso)
			if !hasIntOutsideInt64(inst) {
				for _, m := range renames(inst, goFieldNames(t, map[reflect.Type]bool{})) {
					mb, err := json.Marshal(m)
					if err == nil {
						docs = append(docs, mb)
					}
				}
			}
			// add a key: every name the type itself knows (Go field names and json tag names anywhere in it, embedded ones included),
			// at every object of the document, with a value of each scalar JSON type
			for _, m := range addKeys(inst, typeNames) {
				mb, err := json.Marshal(m)
				if err == nil {
					docs = append(docs, mb)
				}
			}
			// null in a non-nullable position (second form of the statement: such a document is REJECTED; encoding/json itself
			// silently skips a null, so "accepted => decodes" cannot see it): positions whose Go type is a struct, an array or a
			// boolean / number / string kind and is not reached through a pointer
			for _, m := range nullAtValuePositions(t, inst) {
				mb, err := json.Marshal(m)
				if err != nil {
					continue
				}
				var di any
				dd := json.NewDecoder(bytes.NewReader(mb))
				dd.UseNumber()
				if dd.Decode(&di) != nil {
					continue
				}
				nullTested++
				if safeValidate(rs, di) == "valid" && len(nullOK) < 3 {
					nullOK = append(nullOK, string(mb))
				}
			}
			for _, doc := range docs {
				var di any
				dd := json.NewDecoder(bytes.NewReader(doc))
				dd.UseNumber()
				if dd.Decode(&di) != nil {
					continue
				}
				tested++
				if safeValidate(rs, di) != "valid" {
					continue
				}
				accepted++
				dec := json.NewDecoder(bytes.NewReader(doc))
				dec.DisallowUnknownFields()
				if err := dec.Decode(reflect.New(t).Interface()); err != nil {
					if len(bad) < 3 {
						bad = append(bad, string(doc)+" :: "+err.Error())
					}
				}
			}
		}
		res["tested"] = tested
		res["accepted"] = accepted
		res["undecodable"] = bad
		res["null_tested"] = nullTested
		res["null_accepted"] = nullOK
		sb, _ := json.Marshal(s)
		res["schema"] = string(sb)
		return res, nil
	})
}

var fillDepth int

func fillNonZero(v reflect.Value) {
	// recursive declared types (reachable below a json:"-" field although ForType succeeds) must not recurse for ever
	fillDepth++
	defer func() { fillDepth-- }()
	if fillDepth > 24 {
		return
	}
	switch v.Kind() {
	case reflect.Struct:
		for i := 0; i < v.NumField(); i++ {
			if fv := settable(v.Field(i), v.Type().Field(i)); fv.CanSet() {
				fillNonZero(fv)
			}
		}
	case reflect.Bool:
		v.SetBool(true)
	case reflect.Int, reflect.Int8, reflect.Int16, reflect.Int32, reflect.Int64:
		if v.Int() == 0 {
			v.SetInt(1)
		}
	case reflect.Uint, reflect.Uint8, reflect.Uint16, reflect.Uint32, reflect.Uint64, reflect.Uintptr:
		if v.Uint() == 0 {
			v.SetUint(1)
		}
	case reflect.Float32, reflect.Float64:
		if v.Float() == 0 {
			v.SetFloat(1.5)
		}
	case reflect.String:
		if v.String() == "" {
			v.SetString("s")
		}
	case reflect.Slice:
		if v.Len() == 0 {
			s := reflect.MakeSlice(v.Type(), 1, 1)
			fillNonZero(s.Index(0))
			v.Set(s)
		}
	case reflect.Map:
		if v.Len() == 0 && v.Type().Key().Kind() == reflect.String {
			m := reflect.MakeMap(v.Type())
			k := reflect.New(v.Type().Key()).Elem()
			k.SetString("k")
			e := reflect.New(v.Type().Elem()).Elem()
			fillNonZero(e)
			m.SetMapIndex(k, e)
			v.Set(m)
		}
	case reflect.Pointer:
		if v.IsNil() {
			p := reflect.New(v.Type().Elem())
			fillNonZero(p.Elem())
			v.Set(p)
		} else {
			fillNonZero(v.Elem()) // e.g. the fields promoted through an embedded pointer
		}
	case reflect.Interface:
		if v.IsNil() && v.NumMethod() == 0 {
			v.Set(reflect.ValueOf("x"))
		}
	}
}

// mutations enumerates the single-point mutations of a decoded JSON value.
func mutations(v any) []any {
	var out []any
	var walk func(cur any, rebuild func(any) any)
	intVals := []float64{-1, 127, 128, -128, -129, 255, 256, 32767, 32768, -32769, 65535, 65536, 2147483647, 2147483648, -2147483649,
		4294967295, 4294967296, 1.5}
	walk = func(cur any, rebuild func(any) any) {
		// replace by values of other JSON types
		for _, r := range []any{nil, "s", 1.0, true, []any{}, map[string]any{}} {
			if reflect.TypeOf(r) != reflect.TypeOf(cur) || r == nil && cur != nil {
				out = append(out, rebuild(r))
			}
		}
		switch c := cur.(type) {
		case float64, json.Number:
			for _, x := range intVals {
				out = append(out, rebuild(x))
			}
			for _, x := range []string{"128", "-129", "256", "-1", "65536", "32768", "4294967296", "2147483648", "-2147483649"} {
				out = append(out, rebuild(json.Number(x))) // bound pushes as json.Number too (the exact-number path of the validator)
			}
			for _, x := range []string{"9223372036854775807", "-9223372036854775808"} { // inside int64: the range every 64-bit kind shares on its own side
				out = append(out, rebuild(json.Number(x)))
			}
			// numbers that are not integers although a float64 (or a lossy conversion) would round them to one
			base := "7"
			if jn, ok := c.(json.Number); ok {
				if _, err := jn.Int64(); err == nil {
					base = jn.String()
				}
			}
			for _, x := range []string{base + ".00000000000000000001", base + ".5", "255.00000000000000001", "2147483647.00000001",
				"0.000000000000000000000000000001", "1e-400", "-0.00000000000000000001", "127.0000000000000000000000000000001"} {
				out = append(out, rebuild(json.Number(x)))
			}
		case []any:
			out = append(out, rebuild(append(append([]any{}, c...), nil)))
			if len(c) > 0 {
				out = append(out, rebuild(append([]any{}, c[:len(c)-1]...)))
				out = append(out, rebuild(append(append([]any{}, c...), c[0])))
			}
			for i := range c {
				i := i
				walk(c[i], func(n any) any {
					cp := append([]any{}, c...)
					cp[i] = n
					return rebuild(cp)
				})
			}
		case map[string]any:
			for k := range c {
				k := k
				cp := map[string]any{}
				for kk, vv := range c {
					if kk != k {
						cp[kk] = vv
					}
				}
				out = append(out, rebuild(cp))
				walk(c[k], func(n any) any {
					cp := map[string]any{}
					for kk, vv := range c {
						cp[kk] = vv
					}
					cp[k] = n
					return rebuild(cp)
				})
			}
			cp := map[string]any{"zzz": 1.0}
			for kk, vv := range c {
				cp[kk] = vv
			}
			out = append(out, rebuild(cp))
		}
	}
	walk(v, func(n any) any { return n })
	if len(out) > 400 {
		out = out[:400]
	}
	return out
}

// goFieldNames collects the Go names of the struct fields that occur anywhere in t.
func goFieldNames(t reflect.Type, seen map[reflect.Type]bool) []string {
	if seen[t] {
		return nil
	}
	seen[t] = true
	var out []string
	switch t.Kind() {
	case reflect.Pointer, reflect.Slice, reflect.Array, reflect.Map:
		out = append(out, goFieldNames(t.Elem(), seen)...)
	case reflect.Struct:
		for i := 0; i < t.NumField(); i++ {
			f := t.Field(i)
			out = append(out, f.Name)
			out = append(out, goFieldNames(f.Type, seen)...)
		}
	}
	return out
}

// jsonTagNames collects the names given by json tags of the struct fields that occur anywhere in t.
func jsonTagNames(t reflect.Type, seen map[reflect.Type]bool) []string {
	if seen[t] {
		return nil
	}
	seen[t] = true
	var out []string
	switch t.Kind() {
	case reflect.Pointer, reflect.Slice, reflect.Array, reflect.Map:
		out = append(out, jsonTagNames(t.Elem(), seen)...)
	case reflect.Struct:
		for i := 0; i < t.NumField(); i++ {
			f := t.Field(i)
			if name, _, _ := strings.Cut(f.Tag.Get("json"), ","); name != "" && name != "-" {
				out = append(out, name)
			}
			out = append(out, jsonTagNames(f.Type, seen)...)
		}
	}
	return out
}

// addKeys: every object of the document extended, one key at a time, by a name of `names` it does not have, with a string, a
// number, a boolean and null as value (at most 96 documents: the values rotate over the names pass by pass, so that a prefix
// still holds every name at every object).
func addKeys(v any, names []string) []any {
	var out []any
	uniq, done := []string{}, map[string]bool{}
	for _, n := range names {
		if !done[n] {
			done[n] = true
			uniq = append(uniq, n)
		}
	}
	vals := []any{"s", 1.0, true, nil}
	pass := 0
	var walk func(cur any, rebuild func(any) any)
	walk = func(cur any, rebuild func(any) any) {
		switch c := cur.(type) {
		case []any:
			for i := range c {
				i := i
				walk(c[i], func(n any) any {
					cp := append([]any{}, c...)
					cp[i] = n
					return rebuild(cp)
				})
			}
		case map[string]any:
			for j, name := range uniq {
				if _, has := c[name]; has {
					continue
				}
				cp := map[string]any{name: vals[(j+pass)%len(vals)]}
				for kk, vv := range c {
					cp[kk] = vv
				}
				out = append(out, rebuild(cp))
			}
			for k := range c {
				k := k
				walk(c[k], func(n any) any {
					cp := map[string]any{}
					for kk, vv := range c {
						cp[kk] = vv
					}
					cp[k] = n
					return rebuild(cp)
				})
			}
		}
	}
	for pass = 0; pass < len(vals) && len(out) < 96; pass++ {
		walk(v, func(n any) any { return n })
	}
	if len(out) > 96 {
		out = out[:96]
	}
	return out
}

var (
	jsonMarshalerT = reflect.TypeFor[json.Marshaler]()
	textMarshalerT = reflect.TypeFor[interface{ MarshalText() ([]byte, error) }]()
)

// nullAtValuePositions: the documents obtained from the valid encoding v of a value of type t by writing null at ONE position
// whose Go type cannot hold a null: a struct, an array, or a boolean / integer / float / string kind that is not behind a pointer
// (encoding/json never writes null there). Pointer, slice, map and interface positions are nullable or outside the domain (nil maps)
// and are only descended into; types with marshaling methods are opaque. A JSON key is followed into the struct field only when
// exactly one visible field carries that JSON name.
func nullAtValuePositions(t reflect.Type, v any) []any {
	var out []any
	var walk func(t reflect.Type, cur any, rebuild func(any) any)
	walk = func(t reflect.Type, cur any, rebuild func(any) any) {
		nullable := false
		for t.Kind() == reflect.Pointer {
			nullable = true
			t = t.Elem()
		}
		if t.Implements(jsonMarshalerT) || reflect.PointerTo(t).Implements(jsonMarshalerT) || t.Implements(textMarshalerT) ||
			reflect.PointerTo(t).Implements(textMarshalerT) || cur == nil {
			return
		}
		switch t.Kind() {
		case reflect.Bool, reflect.Int, reflect.Int8, reflect.Int16, reflect.Int32, reflect.Int64, reflect.Uint, reflect.Uint8, reflect.Uint16,
			reflect.Uint32, reflect.Uint64, reflect.Uintptr, reflect.Float32, reflect.Float64, reflect.String:
			if !nullable {
				out = append(out, rebuild(nil))
			}
		case reflect.Slice, reflect.Array:
			if t.Kind() == reflect.Array && !nullable {
				out = append(out, rebuild(nil))
			}
			c, ok := cur.([]any)
			if !ok {
				return
			}
			for i := range c {
				i := i
				walk(t.Elem(), c[i], func(n any) any {
					cp := append([]any{}, c...)
					cp[i] = n
					return rebuild(cp)
				})
			}
		case reflect.Map:
			c, ok := cur.(map[string]any)
			if !ok {
				return
			}
			for k := range c {
				k := k
				walk(t.Elem(), c[k], func(n any) any {
					cp := map[string]any{}
					for kk, vv := range c {
						cp[kk] = vv
					}
					cp[k] = n
					return rebuild(cp)
				})
			}
		case reflect.Struct:
			if !nullable {
				out = append(out, rebuild(nil))
			}
			c, ok := cur.(map[string]any)
			if !ok {
				return
			}
			byName := map[string][]reflect.StructField{}
			for _, f := range reflect.VisibleFields(t) {
				if f.Anonymous || !f.IsExported() {
					continue
				}
				name, _, _ := strings.Cut(f.Tag.Get("json"), ",")
				if f.Tag.Get("json") == "-" {
					continue
				}
				if name == "" {
					name = f.Name
				}
				byName[name] = append(byName[name], f)
			}
			for k := range c {
				k := k
				if len(byName[k]) != 1 {
					continue
				}
				walk(byName[k][0].Type, c[k], func(n any) any {
					cp := map[string]any{}
					for kk, vv := range c {
						cp[kk] = vv
					}
					cp[k] = n
					return rebuild(cp)
				})
			}
		}
	}
	walk(t, v, func(n any) any { return n })
	if len(out) > 200 {
		out = out[:200]
	}
	return out
}

// renames: every object key replaced, one at a time, by another spelling a careless mapping between Go names and JSON names could
// confuse it with: the Go field names of the type, the key with blanks removed / replaced, other letter case.
func renames(v any, names []string) []any {
	var out []any
	var walk func(cur any, rebuild func(any) any)
	walk = func(cur any, rebuild func(any) any) {
		switch c := cur.(type) {
		case []any:
			for i := range c {
				i := i
				walk(c[i], func(n any) any {
					cp := append([]any{}, c...)
					cp[i] = n
					return rebuild(cp)
				})
			}
		case map[string]any:
			for k := range c {
				k := k
				alts := append([]string{strings.ReplaceAll(k, " ", ""), strings.ReplaceAll(k, " ", "_"), strings.ToUpper(k), strings.Title(k),
					strings.ReplaceAll(strings.Title(k), " ", ""), strings.TrimSpace(k), k + " "}, names...)
				done := map[string]bool{k: true}
				for _, alt := range alts {
					if done[alt] {
						continue
					}
					done[alt] = true
					if _, clash := c[alt]; clash {
						continue
					}
					cp := map[string]any{}
					for kk, vv := range c {
						if kk != k {
							cp[kk] = vv
						}
					}
					cp[alt] = c[k]
					out = append(out, rebuild(cp))
				}
				walk(c[k], func(n any) any {
					cp := map[string]any{}
					for kk, vv := range c {
						cp[kk] = vv
					}
					cp[k] = n
					return rebuild(cp)
				})
			}
		}
	}
	walk(v, func(n any) any { return n })
	if len(out) > 300 {
		out = out[:300]
	}
	return out
}

// hasIntOutsideInt64 reports whether the decoded document holds an integer-valued number outside [-2^63, 2^63-1].
func hasIntOutsideInt64(v any) bool {
	switch c := v.(type) {
	case json.Number:
		if _, err := c.Int64(); err != nil {
			if f, ferr := c.Float64(); ferr == nil && (f >= 9.2e18 || f <= -9.2e18) {
				return true
			}
		}
	case float64:
		return c >= 9.2e18 || c <= -9.2e18
	case []any:
		for _, x := range c {
			if hasIntOutsideInt64(x) {
				return true
			}
		}
	case map[string]any:
		for _, x := range c {
			if hasIntOutsideInt64(x) {
				return true
			}
		}
	}
	return false
}
