module verifharness

go 1.23.0

require github.com/google/jsonschema-go v0.0.0

require github.com/google/go-cmp v0.7.0 // indirect

replace github.com/google/jsonschema-go => /repo
