// Command verifharness evaluates operations against the real jsonschema package.
//
// It reads one JSON operation per line on stdin ({"id":…,"op":…,"args":{…}}), calls the exported
// API of /repo's working tree in-process (build tag verif enables the hook file) and writes one
// JSON line per operation: {"id":…,"go":…}.  Every call runs under recover and a deadline; a panic
// is reported as the outcome "panic", a deadline as "timeout".
package main

import (
	"bufio"
	"encoding/json"
	"fmt"
	"os"
	"runtime/debug"
	"time"
)

type op struct {
	ID   int             `json:"id"`
	Op   string          `json:"op"`
	Args json.RawMessage `json:"args"`
}

type handler func(args json.RawMessage) (any, error)

var handlers = map[string]handler{}

func register(name string, h handler) { handlers[name] = h }

type outcome struct {
	val any
	err error
	pan string
}

func runOne(h handler, args json.RawMessage, deadline time.Duration) (res any) {
	ch := make(chan outcome, 1)
	go func() {
		defer func() {
			if r := recover(); r != nil {
				ch <- outcome{pan: fmt.Sprint(r) + "\n" + string(debug.Stack())}
			}
		}()
		v, err := h(args)
		ch <- outcome{val: v, err: err}
	}()
	select {
	case o := <-ch:
		if o.pan != "" {
			first := o.pan
			if len(first) > 300 {
				first = first[:300]
			}
			return map[string]any{"outcome": "panic", "detail": first}
		}
		if o.err != nil {
			return map[string]any{"outcome": "harness-error", "detail": o.err.Error()}
		}
		return o.val
	case <-time.After(deadline):
		return map[string]any{"outcome": "timeout"}
	}
}

func main() {
	debug.SetMaxStack(256 << 20)
	deadline := 10 * time.Second
	in := bufio.NewReaderSize(os.Stdin, 1<<20)
	out := bufio.NewWriterSize(os.Stdout, 1<<20)
	defer out.Flush()
	enc := json.NewEncoder(out)
	enc.SetEscapeHTML(false)
	for {
		line, err := in.ReadBytes('\n')
		if len(line) > 1 {
			var o op
			if e := json.Unmarshal(line, &o); e != nil {
				fmt.Fprintf(os.Stderr, "bad op line: %v\n", e)
				os.Exit(2)
			}
			h := handlers[o.Op]
			var res any
			if h == nil {
				res = map[string]any{"outcome": "unknown-op"}
			} else {
				res = runOne(h, o.Args, deadline)
			}
			enc.Encode(map[string]any{"id": o.ID, "go": res})
			out.Flush()
		}
		if err != nil {
			break
		}
	}
}
