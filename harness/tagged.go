package main

import (
	"bytes"
	"encoding/json"
	"fmt"
)

// untag converts the tagged wire form (objects as {"%":[[k,v],…]}) into plain JSON text,
// keeping member order, duplicate keys and the exact number literals.
func untag(raw json.RawMessage) ([]byte, error) {
	var b bytes.Buffer
	if err := untagInto(&b, raw); err != nil {
		return nil, err
	}
	return b.Bytes(), nil
}

func untagInto(b *bytes.Buffer, raw json.RawMessage) error {
	raw = bytes.TrimSpace(raw)
	if len(raw) == 0 {
		return fmt.Errorf("empty value")
	}
	switch raw[0] {
	case '{':
		var o map[string]json.RawMessage
		if err := json.Unmarshal(raw, &o); err != nil {
			return err
		}
		ents, ok := o["%"]
		if !ok || len(o) != 1 {
			return fmt.Errorf("untagged object %s", raw)
		}
		var kvs [][2]json.RawMessage
		if err := json.Unmarshal(ents, &kvs); err != nil {
			return err
		}
		b.WriteByte('{')
		for i, kv := range kvs {
			if i > 0 {
				b.WriteByte(',')
			}
			b.Write(bytes.TrimSpace(kv[0]))
			b.WriteByte(':')
			if err := untagInto(b, kv[1]); err != nil {
				return err
			}
		}
		b.WriteByte('}')
	case '[':
		var xs []json.RawMessage
		if err := json.Unmarshal(raw, &xs); err != nil {
			return err
		}
		b.WriteByte('[')
		for i, x := range xs {
			if i > 0 {
				b.WriteByte(',')
			}
			if err := untagInto(b, x); err != nil {
				return err
			}
		}
		b.WriteByte(']')
	default:
		b.Write(raw)
	}
	return nil
}
