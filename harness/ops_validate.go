package main

import (
	"bytes"
	"encoding/json"
	"errors"
	"fmt"
	"net/url"
	"regexp"
	"strings"

	"github.com/google/jsonschema-go/jsonschema"
)

type validateArgs struct {
	Schema json.RawMessage     `json:"schema"`
	Docs   [][]json.RawMessage `json:"docs"`
	Loader *bool               `json:"loader"`
	Base   string              `json:"base"`
	Insts  []json.RawMessage   `json:"insts"`
	GInsts []json.RawMessage   `json:"ginsts"`
	// ValidateDefaults option
	ValidateDefaults bool `json:"validateDefaults"`
	// UseNumber: instances are decoded with json.Decoder.UseNumber (numbers arrive as json.Number)
	UseNumber bool `json:"usenumber"`
	// Aliases: [[uri, target]...] — a registry Loader: the Loader answers a request for `uri` with the SAME parsed *Schema object
	// it hands out for `target` (parsed once, kept), where target is the URI of an entry of docs, or "#root" for the very object
	// Resolve is being called on. With aliases present every document is parsed at most once per target, so one object can be
	// served under several URLs (a /v1/ and a /latest/ name of one registry entry). Absent (the default): every Loader call
	// unmarshals a fresh object, as before. A target may also name an INTERIOR node: "#root#/<JSON Pointer>" or
	// "<uri of a docs entry>#/<JSON Pointer>" (pointer over subschema keywords, e.g. /$defs/x, /properties/p/items): the Loader
	// then hands out the subschema object at that position of the one object kept for that document — a *Schema the caller of
	// Resolve may already hold as a plain subschema. Targets without "#/" behave as before.
	Aliases [][2]string `json:"aliases"`
	// MaxLoads > 0: a Loader that gives up — it answers the first MaxLoads requests and fails every later one, and the reply carries
	// "overrun": true. For universes whose resolution must ask for each document at most once: a load/resolve recursion that would
	// never end with a Loader that keeps answering (a stack overflow that kills the process) then shows as an overrun instead.
	// 0 (the default): the Loader always answers, as before.
	MaxLoads int `json:"maxLoads"`
	// RawDefaults: [{"path": ["p","q"], "text": "\n  {\"a\": 1}"}, …] — a Schema BUILT IN GO can hold, in its Default field (a
	// json.RawMessage, kept verbatim), any spelling of a JSON value: text that begins on its own line, is indented, has blanks
	// after ':' and ','. Unmarshal of a document never yields those (the decoder hands a RawMessage the value without the
	// surrounding whitespace, and this harness sends documents compacted). After the root document is unmarshaled, the Default of
	// the subschema reached from the root through `properties` p, then q, … (empty path: the root) is replaced by the bytes of
	// "text" as they are. The text must be the default the document declares there, up to insignificant whitespace (checked with
	// json.Compact) — so the document still says what the schema means, and the model and the judge read the document. Absent
	// (the default): nothing changes.
	RawDefaults []rawDefault `json:"rawDefaults"`
	// History (op defaults): [i0, i1, …] — indices into insts ++ ginsts (i < len(insts): the instance decoded into any, otherwise
	// the typed instance ginsts[i-len(insts)]). ONE further, fresh Resolved gets ApplyDefaults for fresh copies of these instances
	// in this order (instances of different Go types through one Resolved, e.g. a map[string]float32 first and a map[string]any
	// after it); every step is compared with what a Resolved of its own (fresh Resolve, this instance only) gives for the same
	// instance: same outcome, reflect.DeepEqual Go values (type-exact: float32(0.1) in a map[string]any is not float64 0.1), same
	// Validate verdict of the completed instance. Reported as "history_free" / "history_detail". Absent (the default): not run.
	History []int `json:"history"`
}

type rawDefault struct {
	Path []string `json:"path"`
	Text string   `json:"text"`
}

// applyRawDefaults respells the defaults named by rds (see validateArgs.RawDefaults).
func applyRawDefaults(root *jsonschema.Schema, rds []rawDefault) error {
	for _, rd := range rds {
		s := root
		for _, name := range rd.Path {
			if s == nil || s.Properties[name] == nil {
				return fmt.Errorf("rawDefaults: no property %q on the path %q", name, rd.Path)
			}
			s = s.Properties[name]
		}
		var want, got bytes.Buffer
		if s.Default == nil || json.Compact(&want, s.Default) != nil || json.Compact(&got, []byte(rd.Text)) != nil ||
			!bytes.Equal(want.Bytes(), got.Bytes()) {
			return fmt.Errorf("rawDefaults: %q is not a spelling of the declared default %s", rd.Text, s.Default)
		}
		s.Default = json.RawMessage(rd.Text)
	}
	return nil
}

type universe struct {
	root   *jsonschema.Schema
	opts   *jsonschema.ResolveOptions
	log    []string
	loaded []*jsonschema.Schema
	// overrun: the Loader was asked more often than maxLoads allows
	overrun bool
}

// buildUniverse unmarshals the root and prepares a Loader over the documents.
func buildUniverse(a *validateArgs) (*universe, error, error) {
	txt, err := untag(a.Schema)
	if err != nil {
		return nil, nil, err
	}
	u := &universe{root: new(jsonschema.Schema)}
	if err := json.Unmarshal(txt, u.root); err != nil {
		return nil, err, nil
	}
	if err := applyRawDefaults(u.root, a.RawDefaults); err != nil {
		return nil, nil, err
	}
	docs := map[string]json.RawMessage{}
	for _, d := range a.Docs {
		if len(d) != 2 {
			return nil, nil, fmt.Errorf("bad docs entry")
		}
		var uri string
		if err := json.Unmarshal(d[0], &uri); err != nil {
			return nil, nil, err
		}
		docs[uri] = d[1]
	}
	alias := map[string]string{}
	for _, al := range a.Aliases {
		alias[al[0]] = al[1]
	}
	shared := map[string]*jsonschema.Schema{} // target URI -> the one object served for it (only used when aliases are given)
	hasLoader := len(a.Docs) > 0
	if a.Loader != nil {
		hasLoader = *a.Loader
	}
	u.opts = &jsonschema.ResolveOptions{BaseURI: a.Base, ValidateDefaults: a.ValidateDefaults}
	if hasLoader {
		u.opts.Loader = func(uri *url.URL) (*jsonschema.Schema, error) {
			key := uri.String()
			if a.MaxLoads > 0 && len(u.log) >= a.MaxLoads {
				u.overrun = true
				return nil, errors.New("loader gave up: too many requests")
			}
			u.log = append(u.log, key)
			if len(alias) > 0 {
				if t, ok := alias[key]; ok {
					key = t
				}
				if key == "#root" {
					return u.root, nil
				}
				if i := strings.Index(key, "#/"); i >= 0 {
					// an INTERIOR node: the subschema object at that JSON Pointer of the root object / of the one object
					// served for the document (parsed now, and kept, if it was not asked for before)
					var holder *jsonschema.Schema
					if base := key[:i]; base == "#root" {
						holder = u.root
					} else if s, ok := shared[base]; ok {
						holder = s
					} else {
						body, ok := docs[base]
						if !ok {
							return nil, errors.New("no such document")
						}
						txt, err := untag(body)
						if err != nil {
							return nil, err
						}
						holder = new(jsonschema.Schema)
						if err := json.Unmarshal(txt, holder); err != nil {
							return nil, err
						}
						u.loaded = append(u.loaded, holder)
						shared[base] = holder
					}
					get, _, err := schemaSlot(holder, key[i+1:])
					if err != nil {
						return nil, err
					}
					return get(), nil
				}
				if s, ok := shared[key]; ok {
					return s, nil
				}
			}
			body, ok := docs[key]
			if !ok {
				return nil, errors.New("no such document")
			}
			var probe map[string]json.RawMessage
			if json.Unmarshal(body, &probe) == nil {
				if _, ok := probe["fail"]; ok && len(probe) == 1 {
					return nil, errors.New("loader failure")
				}
				if _, ok := probe["nil"]; ok && len(probe) == 1 {
					return nil, nil
				}
			}
			txt, err := untag(body)
			if err != nil {
				return nil, err
			}
			s := new(jsonschema.Schema)
			if err := json.Unmarshal(txt, s); err != nil {
				return nil, err
			}
			u.loaded = append(u.loaded, s)
			if len(alias) > 0 {
				shared[key] = s
			}
			return s, nil
		}
	}
	return u, nil, nil
}

func safeValidate(rs *jsonschema.Resolved, inst any) (verdict string) {
	defer func() {
		if r := recover(); r != nil {
			verdict = "panic"
		}
	}()
	if err := rs.Validate(inst); err != nil {
		return "invalid"
	}
	return "valid"
}

func init() {
	register("validate", func(args json.RawMessage) (any, error) {
		var a validateArgs
		if err := json.Unmarshal(args, &a); err != nil {
			return nil, err
		}
		return doValidate(&a)
	})
	// validate-go: the same operation under a second name that the Lean driver does not know (it answers "unknown op", so the
	// model is never evaluated on it). For universes the model does not cover (a Loader that hands out one *Schema object under
	// several URLs — `aliases` —, URIs with a userinfo part): the plugin judges these by its own oracle of the property statement.
	register("validate-go", func(args json.RawMessage) (any, error) {
		var a validateArgs
		if err := json.Unmarshal(args, &a); err != nil {
			return nil, err
		}
		return doValidate(&a)
	})
	// decorate {schema, schema2, …}: the same instances against a schema and its decorated version
	register("decorate", func(args json.RawMessage) (any, error) {
		var a validateArgs
		if err := json.Unmarshal(args, &a); err != nil {
			return nil, err
		}
		var extra struct {
			Schema2 json.RawMessage `json:"schema2"`
		}
		if err := json.Unmarshal(args, &extra); err != nil {
			return nil, err
		}
		ra, err := doValidate(&a)
		if err != nil {
			return nil, err
		}
		b := a
		b.Schema = extra.Schema2
		rb, err := doValidate(&b)
		if err != nil {
			return nil, err
		}
		return map[string]any{"outcome": "pair", "a": ra, "b": rb}, nil
	})
	registerRest()
}

func doValidate(ap *validateArgs) (any, error) {
	{
		a := *ap
		u, uerr, herr := buildUniverse(&a)
		if herr != nil {
			return nil, herr
		}
		if uerr != nil {
			return map[string]any{"outcome": "unmarshal-error", "detail": uerr.Error()}, nil
		}
		rs, err := u.root.Resolve(u.opts)
		if err != nil {
			res := map[string]any{"outcome": "resolve-error", "detail": err.Error(), "log": u.log}
			if u.overrun {
				res["overrun"] = true
			}
			return res, nil
		}
		var verdicts []string
		if a.GInsts != nil {
			for _, g := range a.GInsts {
				v, err := buildAny(g)
				if err != nil {
					return nil, err
				}
				verdicts = append(verdicts, safeValidate(rs, v))
			}
		} else {
			for _, it := range a.Insts {
				txt, err := untag(it)
				if err != nil {
					return nil, err
				}
				var v any
				if a.UseNumber {
					dec := json.NewDecoder(bytes.NewReader(txt))
					dec.UseNumber()
					if err := dec.Decode(&v); err != nil {
						return nil, fmt.Errorf("instance: %v", err)
					}
				} else if err := json.Unmarshal(txt, &v); err != nil {
					return nil, fmt.Errorf("instance: %v", err)
				}
				verdicts = append(verdicts, safeValidate(rs, v))
			}
		}
		draft := "draft2020"
		if s := u.root.Schema; s == "http://json-schema.org/draft-07/schema#" || s == "https://json-schema.org/draft-07/schema#" {
			draft = "draft7"
		}
		if verdicts == nil {
			verdicts = []string{}
		}
		if u.log == nil {
			u.log = []string{}
		}
		targets := jsonschema.VerifTargets(rs)
		if targets == nil {
			targets = []jsonschema.VerifTarget{}
		}
		res := map[string]any{"outcome": "resolved", "verdicts": verdicts, "log": u.log, "draft": draft,
			"targets": targets}
		if u.overrun {
			res["overrun"] = true
		}
		return res, nil
	}
}

func registerRest() {

	// uri {base, ref}: net/url behaviour the package relies on
	register("uri", func(args json.RawMessage) (any, error) {
		var a struct{ Base, Ref string }
		if err := json.Unmarshal(args, &a); err != nil {
			return nil, err
		}
		b, err := url.Parse(a.Base)
		if err != nil {
			return map[string]any{"outcome": "base-error"}, nil
		}
		r, err := url.Parse(a.Ref)
		if err != nil {
			return map[string]any{"outcome": "ref-error"}, nil
		}
		u := b.ResolveReference(r)
		f := *u
		f.Fragment = ""
		f.RawFragment = ""
		return map[string]any{"outcome": "ok", "resolved": u.String(), "fragment": u.Fragment, "fragless": f.String(), "abs": u.IsAbs()}, nil
	})

	// regex {pattern, subject}: the engine the package uses
	register("regex", func(args json.RawMessage) (any, error) {
		var a struct{ Pattern, Subject string }
		if err := json.Unmarshal(args, &a); err != nil {
			return nil, err
		}
		re, err := regexp.Compile(a.Pattern)
		if err != nil {
			return map[string]any{"outcome": "compile-error"}, nil
		}
		return map[string]any{"outcome": "ok", "match": re.MatchString(a.Subject)}, nil
	})
}
