package main

import (
	"encoding/json"
	"fmt"
	"math/big"
	"reflect"
	"strconv"
	"strings"

	"github.com/google/jsonschema-go/jsonschema"
)

// MyString is a named string type used as map key / string representation.
type MyString string

// MyInt and MyFloat are named numeric types.
type MyInt int
type MyFloat float64

// Declared struct types for values that are NOT what encoding/json decodes into `any` (the Extra map of a Schema built in Go can
// hold them): their JSON names are deliberately not in alphabetical order. vlib/gen_values.py (STRUCTS) mirrors the field lists.
type XGoType struct {
	Package string `json:"package"`
	Name    string `json:"name"`
	Kind    int    `json:"kind"`
}

type XOrder struct {
	Z     int      `json:"z"`
	A     string   `json:"a"`
	M     []string `json:"m"`
	Inner *XGoType `json:"inner"`
}

// A value descriptor: {"t": <type expression>, "v": <payload>} or JSON null (the nil interface).
//
//	basic:      {"t":"int8","v":"-3"}  {"t":"float64","v":"1.5"}  {"t":"bool","v":true}
//	            {"t":"string","v":"x"} {"t":"mystring","v":"x"}   {"t":"jnum","v":"1.00"}
//	slice/array {"t":"[]any","v":[d,…]}  {"t":"[2]int","v":[d,d]}
//	map         {"t":"map[mystring]any","v":[["k",d],…]}
//	pointer     {"t":"*int","v":d}   {"t":"*int","v":null} (nil pointer)
//	interface   elements of containers with element type any are interfaces automatically
//	struct      {"t":"S:gotype","v":[d,d,d]}  a declared struct (XGoType, XOrder) with its fields given in declaration order
//	            ({"t":"struct"} stays the zero value of an anonymous struct)
//	raw JSON    {"t":"rawjson","v":"{\"b\":1,\"a\":2}"}   a json.RawMessage holding that text
//	schema      {"t":"schema","v":"{\"type\":\"string\"}"}  a *jsonschema.Schema unmarshaled from that text
type vdesc struct {
	T string          `json:"t"`
	V json.RawMessage `json:"v"`
}

var basicTypes = map[string]reflect.Type{
	"any":        reflect.TypeFor[any](),
	"bool":       reflect.TypeFor[bool](),
	"string":     reflect.TypeFor[string](),
	"mystring":   reflect.TypeFor[MyString](),
	"jnum":       reflect.TypeFor[json.Number](),
	"int":        reflect.TypeFor[int](),
	"int8":       reflect.TypeFor[int8](),
	"int16":      reflect.TypeFor[int16](),
	"int32":      reflect.TypeFor[int32](),
	"int64":      reflect.TypeFor[int64](),
	"uint":       reflect.TypeFor[uint](),
	"uint8":      reflect.TypeFor[uint8](),
	"uint16":     reflect.TypeFor[uint16](),
	"uint32":     reflect.TypeFor[uint32](),
	"uint64":     reflect.TypeFor[uint64](),
	"uintptr":    reflect.TypeFor[uintptr](),
	"float32":    reflect.TypeFor[float32](),
	"float64":    reflect.TypeFor[float64](),
	"myint":      reflect.TypeFor[MyInt](),
	"myfloat":    reflect.TypeFor[MyFloat](),
	"func":       reflect.TypeFor[func()](),
	"chan":       reflect.TypeFor[chan int](),
	"complex128": reflect.TypeFor[complex128](),
	"struct":     reflect.TypeFor[struct{ A int }](),
	"S:gotype":   reflect.TypeFor[XGoType](),
	"S:order":    reflect.TypeFor[XOrder](),
	"rawjson":    rawMessageT,
	"schema":     reflect.TypeFor[*jsonschema.Schema](),
}

var rawMessageT = reflect.TypeFor[json.RawMessage]()

func parseType(s string) (reflect.Type, error) {
	if t, ok := basicTypes[s]; ok {
		return t, nil
	}
	switch {
	case strings.HasPrefix(s, "[]"):
		e, err := parseType(s[2:])
		if err != nil {
			return nil, err
		}
		return reflect.SliceOf(e), nil
	case strings.HasPrefix(s, "*"):
		e, err := parseType(s[1:])
		if err != nil {
			return nil, err
		}
		return reflect.PointerTo(e), nil
	case strings.HasPrefix(s, "map["):
		i := strings.Index(s, "]")
		if i < 0 {
			return nil, fmt.Errorf("bad type %q", s)
		}
		k, err := parseType(s[4:i])
		if err != nil {
			return nil, err
		}
		e, err := parseType(s[i+1:])
		if err != nil {
			return nil, err
		}
		return reflect.MapOf(k, e), nil
	case strings.HasPrefix(s, "["):
		i := strings.Index(s, "]")
		if i < 0 {
			return nil, fmt.Errorf("bad type %q", s)
		}
		n, err := strconv.Atoi(s[1:i])
		if err != nil {
			return nil, err
		}
		e, err := parseType(s[i+1:])
		if err != nil {
			return nil, err
		}
		return reflect.ArrayOf(n, e), nil
	}
	return nil, fmt.Errorf("unknown type %q", s)
}

// build realises a descriptor as a reflect.Value. A JSON null descriptor is the invalid Value
// (an untyped nil).
func build(raw json.RawMessage) (reflect.Value, error) {
	if len(raw) == 0 || string(raw) == "null" {
		return reflect.Value{}, nil
	}
	var d vdesc
	if err := json.Unmarshal(raw, &d); err != nil {
		return reflect.Value{}, err
	}
	t, err := parseType(d.T)
	if err != nil {
		return reflect.Value{}, err
	}
	v := reflect.New(t).Elem()
	switch d.T {
	case "rawjson", "schema":
		var txt string
		if err := json.Unmarshal(d.V, &txt); err != nil {
			return v, err
		}
		if d.T == "rawjson" {
			return reflect.ValueOf(json.RawMessage(txt)), nil
		}
		s := new(jsonschema.Schema)
		if err := json.Unmarshal([]byte(txt), s); err != nil {
			return v, err
		}
		return reflect.ValueOf(s), nil
	}
	switch t.Kind() {
	case reflect.Bool:
		var b bool
		if err := json.Unmarshal(d.V, &b); err != nil {
			return v, err
		}
		v.SetBool(b)
	case reflect.String:
		var s string
		if err := json.Unmarshal(d.V, &s); err != nil {
			return v, err
		}
		v.SetString(s)
	case reflect.Int, reflect.Int8, reflect.Int16, reflect.Int32, reflect.Int64:
		var s string
		if err := json.Unmarshal(d.V, &s); err != nil {
			return v, err
		}
		n, err := strconv.ParseInt(s, 10, t.Bits())
		if err != nil {
			return v, err
		}
		v.SetInt(n)
	case reflect.Uint, reflect.Uint8, reflect.Uint16, reflect.Uint32, reflect.Uint64, reflect.Uintptr:
		var s string
		if err := json.Unmarshal(d.V, &s); err != nil {
			return v, err
		}
		n, err := strconv.ParseUint(s, 10, t.Bits())
		if err != nil {
			return v, err
		}
		v.SetUint(n)
	case reflect.Float32, reflect.Float64:
		var s string
		if err := json.Unmarshal(d.V, &s); err != nil {
			return v, err
		}
		f, err := strconv.ParseFloat(s, t.Bits())
		if err != nil {
			return v, err
		}
		// The descriptor must be exact: the model computes with the written value.
		want, ok := new(big.Rat).SetString(s)
		if !ok {
			return v, fmt.Errorf("bad float literal %q", s)
		}
		v.SetFloat(f)
		if new(big.Rat).SetFloat64(v.Float()).Cmp(want) != 0 {
			return v, fmt.Errorf("float literal %q is not exactly representable as %s", s, t)
		}
	case reflect.Slice, reflect.Array:
		var items []json.RawMessage
		if err := json.Unmarshal(d.V, &items); err != nil {
			return v, err
		}
		if t.Kind() == reflect.Slice {
			if d.V == nil || string(d.V) == "null" {
				return v, nil // nil slice
			}
			v = reflect.MakeSlice(t, len(items), len(items))
		} else if len(items) != t.Len() {
			return v, fmt.Errorf("array length mismatch")
		}
		for i, it := range items {
			e, err := build(it)
			if err != nil {
				return v, err
			}
			if e.IsValid() {
				if !e.Type().AssignableTo(t.Elem()) {
					return v, fmt.Errorf("element of type %s not assignable to %s", e.Type(), t.Elem())
				}
				v.Index(i).Set(e)
			}
		}
	case reflect.Map:
		if d.V == nil || string(d.V) == "null" {
			return v, nil // nil map
		}
		var items [][2]json.RawMessage
		if err := json.Unmarshal(d.V, &items); err != nil {
			return v, err
		}
		v = reflect.MakeMapWithSize(t, len(items))
		for _, kv := range items {
			var ks string
			if err := json.Unmarshal(kv[0], &ks); err != nil {
				return v, err
			}
			k := reflect.New(t.Key()).Elem()
			if t.Key().Kind() == reflect.String {
				k.SetString(ks)
			} else {
				n, _ := strconv.Atoi(ks)
				k.SetInt(int64(n))
			}
			e, err := build(kv[1])
			if err != nil {
				return v, err
			}
			if !e.IsValid() {
				e = reflect.Zero(t.Elem())
			} else if !e.Type().AssignableTo(t.Elem()) {
				return v, fmt.Errorf("map element of type %s not assignable to %s", e.Type(), t.Elem())
			}
			v.SetMapIndex(k, e)
		}
	case reflect.Pointer:
		if d.V == nil || string(d.V) == "null" {
			return v, nil // nil pointer
		}
		e, err := build(d.V)
		if err != nil {
			return v, err
		}
		p := reflect.New(t.Elem())
		if e.IsValid() {
			if !e.Type().AssignableTo(t.Elem()) {
				return v, fmt.Errorf("pointee of type %s not assignable to %s", e.Type(), t.Elem())
			}
			p.Elem().Set(e)
		}
		v = p
	case reflect.Interface:
		e, err := build(d.V)
		if err != nil {
			return v, err
		}
		if e.IsValid() {
			v.Set(e)
		}
	case reflect.Func:
		v = reflect.ValueOf(func() {})
	case reflect.Chan:
		v = reflect.ValueOf(make(chan int))
	case reflect.Complex128:
		v.SetComplex(complex(1, 2))
	case reflect.Struct:
		// the zero struct, or the fields in declaration order
		if d.V == nil || string(d.V) == "null" {
			return v, nil
		}
		var items []json.RawMessage
		if err := json.Unmarshal(d.V, &items); err != nil {
			return v, err
		}
		if len(items) == 0 {
			return v, nil // an empty field list: the zero struct (what descriptors written before fields were supported mean)
		}
		if len(items) != t.NumField() {
			return v, fmt.Errorf("struct %s has %d fields, descriptor %d", t, t.NumField(), len(items))
		}
		for i, it := range items {
			e, err := build(it)
			if err != nil {
				return v, err
			}
			if e.IsValid() {
				if !e.Type().AssignableTo(t.Field(i).Type) {
					return v, fmt.Errorf("field value of type %s not assignable to %s", e.Type(), t.Field(i).Type)
				}
				v.Field(i).Set(e)
			}
		}
	default:
		return v, fmt.Errorf("unsupported descriptor type %s", t)
	}
	return v, nil
}

// buildAny returns the value as an `any` (nil for the invalid value).
func buildAny(raw json.RawMessage) (any, error) {
	v, err := build(raw)
	if err != nil {
		return nil, err
	}
	if !v.IsValid() {
		return nil, nil
	}
	return v.Interface(), nil
}
