package main

import (
	"encoding/json"
	"fmt"
	"reflect"
	"sort"

	"github.com/google/jsonschema-go/jsonschema"
)

// A schema-value descriptor: {"nodes":[{GoField: value, …}, …], "root": i}.
// Schema-typed fields hold node indices (null = nil pointer); []*Schema: list of index|null or null (nil slice);
// map[string]*Schema: [[key, index|null], …] or null (nil map).  Other fields by Go type:
//   string: "…"   bool: true   *float64 / *int: number | null   []string: [...] | null
//   []any: [tagged…] | null   *any: {"v": tagged} | null   json.RawMessage: raw JSON text | null
//   map[string]bool: [[k, b]…] | null   map[string][]string: [[k, [...]|null]…] | null   map[string]any: [[k, tagged]…] | null
type schemaDesc struct {
	Nodes []map[string]json.RawMessage `json:"nodes"`
	Root  *int                         `json:"root"`
}

var (
	schemaPtrT   = reflect.TypeFor[*jsonschema.Schema]()
	schemaSliceT = reflect.TypeFor[[]*jsonschema.Schema]()
	schemaMapT   = reflect.TypeFor[map[string]*jsonschema.Schema]()
)

func isNull(r json.RawMessage) bool { return len(r) == 0 || string(r) == "null" }

func untagAny(r json.RawMessage) (any, error) {
	txt, err := untag(r)
	if err != nil {
		return nil, err
	}
	var v any
	if err := json.Unmarshal(txt, &v); err != nil {
		return nil, err
	}
	return v, nil
}

// buildSchemas realises the descriptor; shared and cyclic pointers are possible.
func buildSchemas(raw json.RawMessage) (*jsonschema.Schema, []*jsonschema.Schema, error) {
	var d schemaDesc
	if err := json.Unmarshal(raw, &d); err != nil {
		return nil, nil, err
	}
	nodes := make([]*jsonschema.Schema, len(d.Nodes))
	for i := range nodes {
		nodes[i] = new(jsonschema.Schema)
	}
	ptr := func(r json.RawMessage) (*jsonschema.Schema, error) {
		if isNull(r) {
			return nil, nil
		}
		var i int
		if err := json.Unmarshal(r, &i); err != nil {
			return nil, err
		}
		if i < 0 || i >= len(nodes) {
			return nil, nil
		}
		return nodes[i], nil
	}
	for i, nd := range d.Nodes {
		v := reflect.ValueOf(nodes[i]).Elem()
		for name, r := range nd {
			f := v.FieldByName(name)
			if !f.IsValid() {
				return nil, nil, fmt.Errorf("no field %s", name)
			}
			switch f.Type() {
			case schemaPtrT:
				p, err := ptr(r)
				if err != nil {
					return nil, nil, err
				}
				f.Set(reflect.ValueOf(p))
			case schemaSliceT:
				if isNull(r) {
					continue
				}
				var xs []json.RawMessage
				if err := json.Unmarshal(r, &xs); err != nil {
					return nil, nil, err
				}
				sl := make([]*jsonschema.Schema, len(xs), len(xs)+2) // spare capacity: an append does not reallocate
				for k, x := range xs {
					p, err := ptr(x)
					if err != nil {
						return nil, nil, err
					}
					sl[k] = p
				}
				f.Set(reflect.ValueOf(sl))
			case schemaMapT:
				if isNull(r) {
					continue
				}
				var kvs [][2]json.RawMessage
				if err := json.Unmarshal(r, &kvs); err != nil {
					return nil, nil, err
				}
				m := make(map[string]*jsonschema.Schema, len(kvs))
				for _, kv := range kvs {
					var k string
					if err := json.Unmarshal(kv[0], &k); err != nil {
						return nil, nil, err
					}
					p, err := ptr(kv[1])
					if err != nil {
						return nil, nil, err
					}
					m[k] = p
				}
				f.Set(reflect.ValueOf(m))
			default:
				if err := setPlain(f, r); err != nil {
					return nil, nil, fmt.Errorf("field %s: %v", name, err)
				}
			}
		}
	}
	// PropertyOrder slices that are a strict prefix (by value) of another node's PropertyOrder are re-sliced from that one's backing
	// array: two Schema values may legitimately share such an array (order[:1] and order); Marshal must neither write into it nor
	// be confused by it.
	for i := range nodes {
		for j := range nodes {
			pi, pj := nodes[i].PropertyOrder, nodes[j].PropertyOrder
			if i == j || len(pi) == 0 || len(pi) >= len(pj) {
				continue
			}
			same := true
			for k := range pi {
				if pi[k] != pj[k] {
					same = false
				}
			}
			if same {
				nodes[i].PropertyOrder = pj[:len(pi)]
				break
			}
		}
	}
	if d.Root == nil || *d.Root < 0 || *d.Root >= len(nodes) {
		return nil, nodes, nil
	}
	return nodes[*d.Root], nodes, nil
}

func setPlain(f reflect.Value, r json.RawMessage) error {
	if isNull(r) {
		return nil
	}
	switch f.Interface().(type) {
	case string, bool, *float64, *int, []string:
		return json.Unmarshal(r, f.Addr().Interface())
	case json.RawMessage:
		var w struct {
			Raw json.RawMessage `json:"raw"`
		}
		if err := json.Unmarshal(r, &w); err != nil {
			return err
		}
		txt, err := untag(w.Raw)
		if err != nil {
			return err
		}
		f.Set(reflect.ValueOf(json.RawMessage(txt)))
	case []any:
		var xs []json.RawMessage
		if err := json.Unmarshal(r, &xs); err != nil {
			return err
		}
		out := make([]any, len(xs))
		for i, x := range xs {
			v, err := untagAny(x)
			if err != nil {
				return err
			}
			out[i] = v
		}
		f.Set(reflect.ValueOf(out))
	case *any:
		var w struct {
			V json.RawMessage `json:"v"`
		}
		if err := json.Unmarshal(r, &w); err != nil {
			return err
		}
		v, err := untagAny(w.V)
		if err != nil {
			return err
		}
		f.Set(reflect.ValueOf(&v))
	case map[string]bool:
		var kvs [][2]json.RawMessage
		if err := json.Unmarshal(r, &kvs); err != nil {
			return err
		}
		m := map[string]bool{}
		for _, kv := range kvs {
			var k string
			var b bool
			json.Unmarshal(kv[0], &k)
			json.Unmarshal(kv[1], &b)
			m[k] = b
		}
		f.Set(reflect.ValueOf(m))
	case map[string][]string:
		var kvs [][2]json.RawMessage
		if err := json.Unmarshal(r, &kvs); err != nil {
			return err
		}
		m := map[string][]string{}
		for _, kv := range kvs {
			var k string
			var l []string
			json.Unmarshal(kv[0], &k)
			if !isNull(kv[1]) {
				if err := json.Unmarshal(kv[1], &l); err != nil {
					return err
				}
				if l == nil {
					l = []string{}
				}
			}
			m[k] = l
		}
		f.Set(reflect.ValueOf(m))
	case map[string]any:
		var kvs [][2]json.RawMessage
		if err := json.Unmarshal(r, &kvs); err != nil {
			return err
		}
		m := map[string]any{}
		for _, kv := range kvs {
			var k string
			json.Unmarshal(kv[0], &k)
			v, err := untagAny(kv[1])
			if err != nil {
				return err
			}
			m[k] = v
		}
		f.Set(reflect.ValueOf(m))
	default:
		return fmt.Errorf("unsupported field type %s", f.Type())
	}
	return nil
}

// schemaPointers returns the set of *Schema reachable from s (through the exported fields).
func schemaPointers(s *jsonschema.Schema, seen map[*jsonschema.Schema]bool) {
	if s == nil || seen[s] {
		return
	}
	seen[s] = true
	v := reflect.ValueOf(s).Elem()
	for i := 0; i < v.NumField(); i++ {
		f := v.Field(i)
		switch f.Type() {
		case schemaPtrT:
			schemaPointers(f.Interface().(*jsonschema.Schema), seen)
		case schemaSliceT:
			for _, c := range f.Interface().([]*jsonschema.Schema) {
				schemaPointers(c, seen)
			}
		case schemaMapT:
			for _, c := range f.Interface().(map[string]*jsonschema.Schema) {
				schemaPointers(c, seen)
			}
		}
	}
}

func fieldTable() []map[string]string {
	t := reflect.TypeFor[jsonschema.Schema]()
	var out []map[string]string
	for i := 0; i < t.NumField(); i++ {
		f := t.Field(i)
		out = append(out, map[string]string{"name": f.Name, "type": f.Type.String(), "tag": f.Tag.Get("json")})
	}
	return out
}

func sortedKeys[V any](m map[string]V) []string {
	ks := make([]string, 0, len(m))
	for k := range m {
		ks = append(ks, k)
	}
	sort.Strings(ks)
	return ks
}

// scribbleSchema writes THROUGH everything reachable from a result the package handed out earlier — pointed-to numbers, elements of
// string slices, entries of maps, fields of the Schema objects — the way a caller customising "its own" schema does. Nothing a later
// call returns may change because of it. dir > 0 tightens bounds, dir < 0 widens them.
func scribbleSchema(root *jsonschema.Schema, dir float64) {
	seen := map[*jsonschema.Schema]bool{}
	schemaPointers(root, seen)
	for s := range seen {
		for _, p := range []*float64{s.Minimum, s.ExclusiveMinimum} {
			if p != nil {
				*p += dir * 1e6
			}
		}
		for _, p := range []*float64{s.Maximum, s.ExclusiveMaximum} {
			if p != nil {
				*p -= dir * 1e6
			}
		}
		for _, p := range []*int{s.MinItems, s.MinLength, s.MinProperties} {
			if p != nil {
				*p += 7
			}
		}
		for _, p := range []*int{s.MaxItems, s.MaxLength, s.MaxProperties} {
			if p != nil {
				*p += 11
			}
		}
		for i := range s.Types {
			s.Types[i] = "boolean"
		}
		if cap(s.Types) > len(s.Types) {
			_ = append(s.Types, "scribbled") // behind the length, into a shared backing array
		}
		for i := range s.Required {
			s.Required[i] = "scribbled" + s.Required[i]
		}
		for i := range s.PropertyOrder {
			s.PropertyOrder[i] = "scribbled" + s.PropertyOrder[i]
		}
		if s.Properties != nil {
			s.Properties["scribbled"] = &jsonschema.Schema{Type: "null"}
		}
		if s.Type != "" {
			s.Type = "boolean"
		}
		s.Description = "scribbled"
		s.AdditionalProperties = nil
		s.Items = &jsonschema.Schema{Not: &jsonschema.Schema{}}
	}
}
