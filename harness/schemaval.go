package main

import (
	"encoding/json"
	"fmt"
	"reflect"
	"sort"

	"github.com/google/jsonschema-go/jsonschema"
)

// A schema-value descriptor: {"nodes":[{GoField: value, …}, …], "root": i}.
// Schema-typed fields hold node indices (null = nil pointer); []*Schema: list of index|null or null (nil slice);
// map[string]*Schema: [[key, index|null], …] or null (nil map).  Other fields by Go type:
//   string: "…"   bool: true   *float64 / *int: number | null   []string: [...] | null
//   []any: [tagged…] | null   *any: {"v": tagged} | null   json.RawMessage: raw JSON text | null
//   map[string]bool: [[k, b]…] | null   map[string][]string: [[k, [...]|null]…] | null   map[string]any: [[k, tagged]…] | null
//
// Two optional members beside "nodes" and "root" describe what a Schema built IN GO can hold and a decoded one cannot (the node
// table still says what every field CONTAINS; the model reads only the node table):
//
//   "alias": [{"backing": ["n0","n1",…], "slots": [{"node": i, "field": "Required", "off": 0, "len": 3},
//                                                    {"node": j, "field": "DependentRequired", "key": "k", "off": 1, "len": 2}, …]}, …]
//       every slot — a []string field (Required, PropertyOrder, Types) or a value of a map[string][]string field (DependentRequired,
//       DependencyStrings; "key") of any node — is set to the window backing[off : off+len] of ONE array per group, with the capacity
//       a plain re-slice has (up to the end of the array): names[:1] and names[:3] of one `names`. The window must hold exactly
//       what the node table says the field holds (checked). With "alias" present the automatic prefix-sharing of PropertyOrder
//       slices (below) is switched off; without it nothing changes.
//   "goextra": [[node, key, value-descriptor], …]
//       Extra[key] of that node is set to the Go value of the descriptor (goval.go: typed maps and slices, json.Number, pointers,
//       declared structs "S:…", json.RawMessage "rawjson", *Schema "schema") instead of a decoded JSON value; the node table's
//       Extra entry of the same key carries the JSON value that Go value marshals to.
//   "govals": [[node, field, index, value-descriptor], …]
//       a value LISTED by the schema — Enum[index] (field "Enum") or *Const (field "Const"; index ignored) of that node — is set to
//       the Go value of the descriptor (a [4]byte, a []byte, a typed map, a pointer, …: `Const: Ptr(any([2]byte{0xCA, 0xFE}))`)
//       instead of a decoded JSON value; the node table's Enum / Const entry carries the JSON value that Go value denotes (the
//       entry must exist). Absent (the default): every listed value is the decoded JSON value of the node table, as before.
type schemaDesc struct {
	Nodes   []map[string]json.RawMessage `json:"nodes"`
	Root    *int                         `json:"root"`
	Alias   []aliasGroup                 `json:"alias"`
	GoExtra [][3]json.RawMessage         `json:"goextra"`
	GoVals  [][4]json.RawMessage         `json:"govals"`
}

type aliasGroup struct {
	Backing []string    `json:"backing"`
	Slots   []aliasSlot `json:"slots"`
}

type aliasSlot struct {
	Node  int     `json:"node"`
	Field string  `json:"field"`
	Key   *string `json:"key"`
	Off   int     `json:"off"`
	Len   int     `json:"len"`
}

// applyAliases makes the string slices named by the groups windows of one backing array each.
func applyAliases(nodes []*jsonschema.Schema, groups []aliasGroup) error {
	for _, g := range groups {
		backing := append([]string(nil), g.Backing...)
		backing = backing[:len(backing):len(backing)]
		for _, sl := range g.Slots {
			if sl.Node < 0 || sl.Node >= len(nodes) || sl.Off < 0 || sl.Len < 0 || sl.Off+sl.Len > len(backing) {
				return fmt.Errorf("alias: bad slot %+v", sl)
			}
			f := reflect.ValueOf(nodes[sl.Node]).Elem().FieldByName(sl.Field)
			if !f.IsValid() {
				return fmt.Errorf("alias: no field %s", sl.Field)
			}
			win := backing[sl.Off : sl.Off+sl.Len]
			var cur []string
			switch fv := f.Interface().(type) {
			case []string:
				if sl.Key != nil {
					return fmt.Errorf("alias: field %s takes no key", sl.Field)
				}
				cur = fv
				f.Set(reflect.ValueOf(win))
			case map[string][]string:
				if sl.Key == nil || fv == nil {
					return fmt.Errorf("alias: field %s needs a key of a non-nil map", sl.Field)
				}
				var ok bool
				if cur, ok = fv[*sl.Key]; !ok {
					return fmt.Errorf("alias: field %s has no key %q", sl.Field, *sl.Key)
				}
				fv[*sl.Key] = win
			default:
				return fmt.Errorf("alias: field %s is not a string slice", sl.Field)
			}
			if cur == nil || len(cur) != len(win) {
				return fmt.Errorf("alias: the window of %s does not hold what the node table says", sl.Field)
			}
			for k := range cur {
				if cur[k] != win[k] {
					return fmt.Errorf("alias: the window of %s does not hold what the node table says", sl.Field)
				}
			}
		}
	}
	return nil
}

var (
	schemaPtrT   = reflect.TypeFor[*jsonschema.Schema]()
	schemaSliceT = reflect.TypeFor[[]*jsonschema.Schema]()
	schemaMapT   = reflect.TypeFor[map[string]*jsonschema.Schema]()
)

func isNull(r json.RawMessage) bool { return len(r) == 0 || string(r) == "null" }

func untagAny(r json.RawMessage) (any, error) {
	txt, err := untag(r)
	if err != nil {
		return nil, err
	}
	var v any
	if err := json.Unmarshal(txt, &v); err != nil {
		return nil, err
	}
	return v, nil
}

// buildSchemas realises the descriptor; shared and cyclic pointers are possible.
func buildSchemas(raw json.RawMessage) (*jsonschema.Schema, []*jsonschema.Schema, error) {
	var d schemaDesc
	if err := json.Unmarshal(raw, &d); err != nil {
		return nil, nil, err
	}
	nodes := make([]*jsonschema.Schema, len(d.Nodes))
	for i := range nodes {
		nodes[i] = new(jsonschema.Schema)
	}
	ptr := func(r json.RawMessage) (*jsonschema.Schema, error) {
		if isNull(r) {
			return nil, nil
		}
		var i int
		if err := json.Unmarshal(r, &i); err != nil {
			return nil, err
		}
		if i < 0 || i >= len(nodes) {
			return nil, nil
		}
		return nodes[i], nil
	}
	for i, nd := range d.Nodes {
		v := reflect.ValueOf(nodes[i]).Elem()
		for name, r := range nd {
			f := v.FieldByName(name)
			if !f.IsValid() {
				return nil, nil, fmt.Errorf("no field %s", name)
			}
			switch f.Type() {
			case schemaPtrT:
				p, err := ptr(r)
				if err != nil {
					return nil, nil, err
				}
				f.Set(reflect.ValueOf(p))
			case schemaSliceT:
				if isNull(r) {
					continue
				}
				var xs []json.RawMessage
				if err := json.Unmarshal(r, &xs); err != nil {
					return nil, nil, err
				}
				sl := make([]*jsonschema.Schema, len(xs), len(xs)+2) // spare capacity: an append does not reallocate
				for k, x := range xs {
					p, err := ptr(x)
					if err != nil {
						return nil, nil, err
					}
					sl[k] = p
				}
				f.Set(reflect.ValueOf(sl))
			case schemaMapT:
				if isNull(r) {
					continue
				}
				var kvs [][2]json.RawMessage
				if err := json.Unmarshal(r, &kvs); err != nil {
					return nil, nil, err
				}
				m := make(map[string]*jsonschema.Schema, len(kvs))
				for _, kv := range kvs {
					var k string
					if err := json.Unmarshal(kv[0], &k); err != nil {
						return nil, nil, err
					}
					p, err := ptr(kv[1])
					if err != nil {
						return nil, nil, err
					}
					m[k] = p
				}
				f.Set(reflect.ValueOf(m))
			default:
				if err := setPlain(f, r); err != nil {
					return nil, nil, fmt.Errorf("field %s: %v", name, err)
				}
			}
		}
	}
	for _, ge := range d.GoExtra {
		var i int
		var k string
		if err := json.Unmarshal(ge[0], &i); err != nil || i < 0 || i >= len(nodes) {
			return nil, nil, fmt.Errorf("goextra: bad node index")
		}
		if err := json.Unmarshal(ge[1], &k); err != nil {
			return nil, nil, err
		}
		v, err := buildAny(ge[2])
		if err != nil {
			return nil, nil, fmt.Errorf("goextra: %v", err)
		}
		if nodes[i].Extra == nil {
			nodes[i].Extra = map[string]any{}
		}
		nodes[i].Extra[k] = v
	}
	for _, gv := range d.GoVals {
		var i, idx int
		var field string
		if err := json.Unmarshal(gv[0], &i); err != nil || i < 0 || i >= len(nodes) {
			return nil, nil, fmt.Errorf("govals: bad node index")
		}
		if err := json.Unmarshal(gv[1], &field); err != nil {
			return nil, nil, err
		}
		if err := json.Unmarshal(gv[2], &idx); err != nil {
			return nil, nil, err
		}
		v, err := buildAny(gv[3])
		if err != nil {
			return nil, nil, fmt.Errorf("govals: %v", err)
		}
		switch {
		case field == "Const" && nodes[i].Const != nil:
			*nodes[i].Const = v
		case field == "Enum" && idx >= 0 && idx < len(nodes[i].Enum):
			nodes[i].Enum[idx] = v
		default:
			return nil, nil, fmt.Errorf("govals: node %d lists no such value (%s[%d])", i, field, idx)
		}
	}
	if err := applyAliases(nodes, d.Alias); err != nil {
		return nil, nil, err
	}
	// PropertyOrder slices that are a strict prefix (by value) of another node's PropertyOrder are re-sliced from that one's backing
	// array: two Schema values may legitimately share such an array (order[:1] and order); Marshal must neither write into it nor
	// be confused by it. (Not done when the descriptor says itself which slices share an array.)
	for i := range nodes {
		if len(d.Alias) > 0 {
			break
		}
		for j := range nodes {
			pi, pj := nodes[i].PropertyOrder, nodes[j].PropertyOrder
			if i == j || len(pi) == 0 || len(pi) >= len(pj) {
				continue
			}
			same := true
			for k := range pi {
				if pi[k] != pj[k] {
					same = false
				}
			}
			if same {
				nodes[i].PropertyOrder = pj[:len(pi)]
				break
			}
		}
	}
	if d.Root == nil || *d.Root < 0 || *d.Root >= len(nodes) {
		return nil, nodes, nil
	}
	return nodes[*d.Root], nodes, nil
}

func setPlain(f reflect.Value, r json.RawMessage) error {
	if isNull(r) {
		return nil
	}
	switch f.Interface().(type) {
	case string, bool, *float64, *int, []string:
		return json.Unmarshal(r, f.Addr().Interface())
	case json.RawMessage:
		var w struct {
			Raw json.RawMessage `json:"raw"`
		}
		if err := json.Unmarshal(r, &w); err != nil {
			return err
		}
		txt, err := untag(w.Raw)
		if err != nil {
			return err
		}
		f.Set(reflect.ValueOf(json.RawMessage(txt)))
	case []any:
		var xs []json.RawMessage
		if err := json.Unmarshal(r, &xs); err != nil {
			return err
		}
		out := make([]any, len(xs))
		for i, x := range xs {
			v, err := untagAny(x)
			if err != nil {
				return err
			}
			out[i] = v
		}
		f.Set(reflect.ValueOf(out))
	case *any:
		var w struct {
			V json.RawMessage `json:"v"`
		}
		if err := json.Unmarshal(r, &w); err != nil {
			return err
		}
		v, err := untagAny(w.V)
		if err != nil {
			return err
		}
		f.Set(reflect.ValueOf(&v))
	case map[string]bool:
		var kvs [][2]json.RawMessage
		if err := json.Unmarshal(r, &kvs); err != nil {
			return err
		}
		m := map[string]bool{}
		for _, kv := range kvs {
			var k string
			var b bool
			json.Unmarshal(kv[0], &k)
			json.Unmarshal(kv[1], &b)
			m[k] = b
		}
		f.Set(reflect.ValueOf(m))
	case map[string][]string:
		var kvs [][2]json.RawMessage
		if err := json.Unmarshal(r, &kvs); err != nil {
			return err
		}
		m := map[string][]string{}
		for _, kv := range kvs {
			var k string
			var l []string
			json.Unmarshal(kv[0], &k)
			if !isNull(kv[1]) {
				if err := json.Unmarshal(kv[1], &l); err != nil {
					return err
				}
				if l == nil {
					l = []string{}
				}
			}
			m[k] = l
		}
		f.Set(reflect.ValueOf(m))
	case map[string]any:
		var kvs [][2]json.RawMessage
		if err := json.Unmarshal(r, &kvs); err != nil {
			return err
		}
		m := map[string]any{}
		for _, kv := range kvs {
			var k string
			json.Unmarshal(kv[0], &k)
			v, err := untagAny(kv[1])
			if err != nil {
				return err
			}
			m[k] = v
		}
		f.Set(reflect.ValueOf(m))
	default:
		return fmt.Errorf("unsupported field type %s", f.Type())
	}
	return nil
}

// schemaPointers returns the set of *Schema reachable from s (through the exported fields).
func schemaPointers(s *jsonschema.Schema, seen map[*jsonschema.Schema]bool) {
	if s == nil || seen[s] {
		return
	}
	seen[s] = true
	v := reflect.ValueOf(s).Elem()
	for i := 0; i < v.NumField(); i++ {
		f := v.Field(i)
		switch f.Type() {
		case schemaPtrT:
			schemaPointers(f.Interface().(*jsonschema.Schema), seen)
		case schemaSliceT:
			for _, c := range f.Interface().([]*jsonschema.Schema) {
				schemaPointers(c, seen)
			}
		case schemaMapT:
			for _, c := range f.Interface().(map[string]*jsonschema.Schema) {
				schemaPointers(c, seen)
			}
		}
	}
}

func fieldTable() []map[string]string {
	t := reflect.TypeFor[jsonschema.Schema]()
	var out []map[string]string
	for i := 0; i < t.NumField(); i++ {
		f := t.Field(i)
		out = append(out, map[string]string{"name": f.Name, "type": f.Type.String(), "tag": f.Tag.Get("json")})
	}
	return out
}

func sortedKeys[V any](m map[string]V) []string {
	ks := make([]string, 0, len(m))
	for k := range m {
		ks = append(ks, k)
	}
	sort.Strings(ks)
	return ks
}

// scribbleSchema writes THROUGH everything reachable from a result the package handed out earlier — pointed-to numbers, elements of
// string slices, entries of maps, fields of the Schema objects — the way a caller customising "its own" schema does. Nothing a later
// call returns may change because of it. dir > 0 tightens bounds, dir < 0 widens them.
func scribbleSchema(root *jsonschema.Schema, dir float64) {
	seen := map[*jsonschema.Schema]bool{}
	schemaPointers(root, seen)
	for s := range seen {
		for _, p := range []*float64{s.Minimum, s.ExclusiveMinimum} {
			if p != nil {
				*p += dir * 1e6
			}
		}
		for _, p := range []*float64{s.Maximum, s.ExclusiveMaximum} {
			if p != nil {
				*p -= dir * 1e6
			}
		}
		for _, p := range []*int{s.MinItems, s.MinLength, s.MinProperties} {
			if p != nil {
				*p += 7
			}
		}
		for _, p := range []*int{s.MaxItems, s.MaxLength, s.MaxProperties} {
			if p != nil {
				*p += 11
			}
		}
		for i := range s.Types {
			s.Types[i] = "boolean"
		}
		if cap(s.Types) > len(s.Types) {
			_ = append(s.Types, "scribbled") // behind the length, into a shared backing array
		}
		for i := range s.Required {
			s.Required[i] = "scribbled" + s.Required[i]
		}
		for i := range s.PropertyOrder {
			s.PropertyOrder[i] = "scribbled" + s.PropertyOrder[i]
		}
		if s.Properties != nil {
			s.Properties["scribbled"] = &jsonschema.Schema{Type: "null"}
		}
		if s.Type != "" {
			s.Type = "boolean"
		}
		s.Description = "scribbled"
		s.AdditionalProperties = nil
		s.Items = &jsonschema.Schema{Not: &jsonschema.Schema{}}
	}
}
