"""Structured generators of schema documents (both drafts) and instances.

Everything is drawn from small shared pools so that keywords interact: property names a..d,
items from a pool of a dozen values, bounds next to the pool's numbers.
Schema documents are ordered values (wire.Obj / list / Num / str / bool / None).
"""
from fractions import Fraction

from .wire import Num, Obj
from .gen_values import dec

NAMES = ["a", "b", "c", "d"]
PATTERNS = ["^a", "b$", "^[a-c]$", "a|b", ".", "^$", "x", "[0-9]", "^é", "^.{2}$", "a+", "^(ab)*$", "\\d", "^[^a]", "^ab$", "^a$", "^abc$", "ab", "^x$"]
BAD_PATTERNS = ["(", "[a", "*a", "a{2,1}", "\\", "(?<n>a)", "a**"]
STRS = ["", "a", "b", "ab", "abc", "é", "éa", "日本", "x", "1", "a1", "😀", "xabcx", "aab", "xa", "abab"]
NUMS = ["0", "1", "-1", "2", "3", "0.5", "1.5", "2.5", "-0.5", "4", "10", "0.25", "7", "100", "1e2", "2.0", "-3", "-0.0", "0", "0.0"]
# integral values beyond the int64 range that are exact float64s (type "integer" must still hold)
HUGE = ["1e19", "-1e19", "18446744073709551616", "9223372036854775808", "-9223372036854775808", "1e15", "2251799813685248.5"]
MULTS = ["1", "2", "0.5", "0.25", "3", "1.5", "10"]
TYPES = ["null", "boolean", "object", "array", "number", "string", "integer"]
D7_URIS = ["http://json-schema.org/draft-07/schema#", "https://json-schema.org/draft-07/schema#"]
D2020_URI = "https://json-schema.org/draft/2020-12/schema"


class Ctx:
    def __init__(self, rng, draft="2020", depth=3, refs=True, meta=0.05, width=3):
        self.rng = rng
        self.draft = draft
        self.depth = depth
        self.refs = refs
        self.meta = meta
        self.width = width
        self.anchor_n = 0
        self.defs = []          # names of $defs entries available at the root
        self.anchors = []       # anchor names declared somewhere
        self.features = set()


def gen_value(rng, depth=2, huge=False):
    """A JSON value from the shared pools (huge: also integral values beyond int64; never together with multipleOf, whose float
    quotient is only exact below 2^53)."""
    r = rng.random()
    if depth <= 0 or r < 0.55:
        k = rng.random()
        if k < 0.12:
            return None
        if k < 0.24:
            return rng.random() < 0.5
        if k < 0.62:
            return Num(rng.choice(NUMS) if not huge or rng.random() < 0.9 else rng.choice(HUGE))
        return rng.choice(STRS)
    if r < 0.78:
        return [gen_value(rng, depth - 1, huge) for _ in range(rng.randint(0, 4))]
    ks = rng.sample(NAMES, rng.randint(0, 4))
    return Obj([(k, gen_value(rng, depth - 1, huge)) for k in ks])


def gen_instance(rng, depth=3, huge=False):
    r = rng.random()
    if r < 0.35:
        ks = rng.sample(NAMES, rng.randint(0, 4))
        if rng.random() < 0.1:
            ks.append(rng.choice(["e", "ab", "x1", "é"]))
        return Obj([(k, gen_value(rng, depth - 1, huge)) for k in ks])
    if r < 0.6:
        n = rng.randint(0, 5)
        items = [gen_value(rng, depth - 1, huge) for _ in range(n)]
        if n >= 2 and rng.random() < 0.3:
            items[rng.randrange(n)] = items[rng.randrange(n)]
        return items
    return gen_value(rng, depth, huge)


# ---------------------------------------------------------------------------------------------

KW_COMMON = [
    ("type", 10), ("enum", 4), ("const", 4), ("minimum", 3), ("maximum", 3), ("exclusiveMinimum", 2),
    ("exclusiveMaximum", 2), ("multipleOf", 3), ("minLength", 2), ("maxLength", 2), ("pattern", 3),
    ("allOf", 5), ("anyOf", 5), ("oneOf", 4), ("not", 3), ("if", 4),
    ("contains", 3), ("minItems", 2), ("maxItems", 2), ("uniqueItems", 2),
    ("properties", 9), ("patternProperties", 4), ("additionalProperties", 5), ("propertyNames", 2),
    ("minProperties", 2), ("maxProperties", 2), ("required", 4), ("ref", 5), ("meta", 2), ("lengths", 3), ("bounds", 2),
]
KW_2020 = [("prefixItems", 4), ("items", 5), ("minContains", 2), ("maxContains", 2), ("unevaluatedItems", 4),
           ("unevaluatedProperties", 5), ("dependentRequired", 2), ("dependentSchemas", 3), ("anchor", 2)]
KW_D7 = [("items7", 6), ("additionalItems", 4), ("dependencies", 4), ("idanchor", 1)]


def pick_weighted(rng, table):
    tot = sum(w for _, w in table)
    x = rng.random() * tot
    for k, w in table:
        x -= w
        if x < 0:
            return k
    return table[-1][0]


def num(rng):
    return Num(rng.choice(NUMS))


def gen_schema(c, depth=None):
    """One subschema."""
    rng = c.rng
    if depth is None:
        depth = c.depth
    r = rng.random()
    if r < 0.07:
        return True
    if r < 0.12:
        return False
    if r < 0.15:
        return Obj()        # the empty schema object (the same meaning as `true`, another Go value)
    if depth <= 0:
        return leaf_schema(c)
    table = KW_COMMON + (KW_2020 if c.draft == "2020" else KW_D7)
    nkw = rng.choice([1, 1, 2, 2, 3, 4, 5])
    o = Obj()
    for _ in range(nkw):
        add_keyword(c, o, pick_weighted(rng, table), depth)
    return o


def leaf_schema(c):
    rng = c.rng
    o = Obj()
    for _ in range(rng.choice([1, 1, 2])):
        add_keyword(c, o, rng.choice(["type", "const", "enum", "minimum", "maximum", "minLength", "pattern", "multipleOf",
                                      "maxLength", "required", "type", "minItems", "maxProperties", "lengths", "type"]), 0)
    return o


def subs(c, depth, lo=1, hi=3):
    return [gen_schema(c, depth - 1) for _ in range(c.rng.randint(lo, hi))]


def prop_map(c, depth, keys=None):
    rng = c.rng
    ks = keys or rng.sample(NAMES, rng.randint(1, 3))
    return Obj([(k, gen_schema(c, depth - 1)) for k in ks])


def add_keyword(c, o, kw, depth):
    rng = c.rng
    c.features.add(kw)
    if kw == "type":
        if rng.random() < 0.7:
            o.set("type", rng.choice(TYPES))
        else:
            o.set("type", rng.sample(TYPES, rng.randint(1, 3)))
    elif kw == "enum":
        o.set("enum", [gen_value(rng, 1) for _ in range(rng.randint(0 if rng.random() < 0.05 else 1, 4))])
    elif kw == "const":
        o.set("const", gen_value(rng, 2))
    elif kw in ("minimum", "maximum", "exclusiveMinimum", "exclusiveMaximum"):
        o.set(kw, num(rng))
    elif kw == "multipleOf":
        o.set(kw, Num(rng.choice(MULTS)))
    elif kw in ("minLength", "maxLength", "minItems", "maxItems", "minProperties", "maxProperties", "minContains", "maxContains"):
        v = rng.randint(0, 3)
        if getattr(c, "wild_ints", False) and rng.random() < 0.04:
            # outside the int32 window or not integral, in plain / fraction / exponent spelling: Unmarshal refuses these
            # (never an exponent without a decimal point: `3e0` is refused by the package — known finding D23 — and the model's
            # numbers carry no spelling)
            o.set(kw, Num(rng.choice(["4294967296.0", "2147483648.0", "-2147483649.0", "4294967297.0", "2147483648", "1.5",
                                      "2147483647.0", "-1", "2.0e0", "1.0e10"])))
        else:
            o.set(kw, Num(str(v) + (".0" if rng.random() < 0.1 else "")))
        if kw in ("minContains", "maxContains") and o.get("contains") is None and rng.random() < 0.8:
            o.set("contains", gen_schema(c, depth - 1))
    elif kw == "pattern":
        o.set("pattern", rng.choice(PATTERNS))
    elif kw == "lengths":
        # both length bounds in one schema object (code points vs bytes matter for multi-byte strings)
        lo = rng.randint(0, 3)
        o.set("minLength", Num(str(lo)))
        o.set("maxLength", Num(str(rng.randint(lo, lo + 8))))
    elif kw == "bounds":
        lo = rng.choice(NUMS)
        o.set(rng.choice(["minimum", "exclusiveMinimum"]), Num(lo))
        o.set(rng.choice(["maximum", "exclusiveMaximum"]), Num(rng.choice(NUMS + HUGE[:3])))
    elif kw in ("allOf", "anyOf", "oneOf"):
        o.set(kw, subs(c, depth))
    elif kw == "not":
        o.set("not", gen_schema(c, depth - 1))
    elif kw == "if":
        o.set("if", gen_schema(c, depth - 1))
        if rng.random() < 0.8:
            o.set("then", gen_schema(c, depth - 1))
        if rng.random() < 0.6:
            o.set("else", gen_schema(c, depth - 1))
    elif kw == "contains":
        o.set("contains", gen_schema(c, depth - 1))
    elif kw == "uniqueItems":
        o.set("uniqueItems", rng.random() < 0.85)
    elif kw == "prefixItems":
        o.set("prefixItems", subs(c, depth, 1, 3))
    elif kw == "items":
        o.set("items", gen_schema(c, depth - 1))
    elif kw == "items7":
        if rng.random() < 0.5:
            o.set("items", gen_schema(c, depth - 1))
        else:
            o.set("items", subs(c, depth, 0, 3))
    elif kw == "additionalItems":
        o.set("additionalItems", gen_schema(c, depth - 1))
        if o.get("items") is None and rng.random() < 0.7:
            o.set("items", subs(c, depth, 0, 2))
    elif kw in ("unevaluatedItems", "unevaluatedProperties", "additionalProperties", "propertyNames"):
        o.set(kw, gen_schema(c, depth - 1) if rng.random() < 0.6 else (rng.random() < 0.3))
    elif kw == "properties":
        o.set("properties", prop_map(c, depth))
    elif kw == "patternProperties":
        ps = rng.sample(PATTERNS, rng.randint(1, 2))
        o.set("patternProperties", Obj([(p, gen_schema(c, depth - 1)) for p in ps]))
    elif kw == "required":
        o.set("required", rng.sample(NAMES, rng.randint(0, 3)))
    elif kw == "dependentRequired":
        ks = rng.sample(NAMES, rng.randint(1, 2))
        o.set("dependentRequired", Obj([(k, rng.sample(NAMES, rng.randint(0, 2))) for k in ks]))
    elif kw == "dependentSchemas":
        o.set("dependentSchemas", prop_map(c, depth, rng.sample(NAMES, rng.randint(1, 2))))
    elif kw == "dependencies":
        ks = rng.sample(NAMES, rng.randint(1, 3))
        o.set("dependencies", Obj([(k, rng.sample(NAMES, rng.randint(0, 2)) if rng.random() < 0.5 else gen_schema(c, depth - 1))
                                   for k in ks]))
    elif kw == "anchor":
        c.anchor_n += 1
        name = "anc%d" % c.anchor_n
        o.set("$anchor", name)
        c.anchors.append(name)
    elif kw == "idanchor":
        if o.get("$ref") is None:
            c.anchor_n += 1
            name = "anc%d" % c.anchor_n
            o.set("$id", "#" + name)
            c.anchors.append(name)
    elif kw == "ref":
        if not c.refs:
            return
        # a reference to the root, a $defs entry (filled in by gen_document) or an anchor
        r = rng.random()
        if r < 0.15:
            o.set("$ref", "#")
        elif r < 0.3 and c.anchors:
            o.set("$ref", "#" + rng.choice(c.anchors))
        else:
            name = "d%d" % rng.randint(0, 2)
            c.defs.append(name)
            o.set("$ref", ("#/$defs/" if c.draft == "2020" else "#/definitions/") + name)
        if c.draft == "7" and rng.random() < 0.3:
            # draft-07: every keyword beside $ref is ignored — also the ones that would make the object the `false` schema
            # ({"not": {}}) or otherwise unsatisfiable, wherever the object sits (additionalProperties, items, properties …)
            k, v = rng.choice([("not", Obj()), ("not", True), ("type", "null"), ("const", "never"), ("enum", []), ("maxProperties", Num("0")),
                               ("required", ["zz"]), ("minimum", Num("100"))])
            if o.get(k) is None:
                o.set(k, v)
    elif kw == "meta":
        add_meta(c, o)


def add_meta(c, o):
    rng = c.rng
    k = rng.choice(["title", "description", "$comment", "default", "examples", "deprecated", "readOnly", "writeOnly",
                    "format", "contentEncoding", "contentMediaType", "x-unknown"])
    if k in ("title", "description", "$comment", "format", "contentEncoding", "contentMediaType"):
        o.set(k, rng.choice(["t", "email", "base64", "application/json", ""]))
    elif k == "default":
        o.set(k, gen_value(rng, 1))
    elif k == "examples":
        o.set(k, [gen_value(rng, 1) for _ in range(rng.randint(0, 2))])
    elif k == "x-unknown":
        o.set(rng.choice(["x-unknown", "foo", "$foo", "nullable"]), gen_value(rng, 1))
    else:
        o.set(k, rng.random() < 0.5)


def gen_document(c, schema_uri=None):
    """A root document: a subschema plus the $defs it refers to."""
    root = gen_schema(c)
    if not isinstance(root, Obj):
        if c.rng.random() < 0.5 or schema_uri:
            root = Obj([("not", Obj())]) if root is False else Obj()
        else:
            return root
    for _ in range(3):
        names = sorted(set(c.defs))
        key = "$defs" if c.draft == "2020" else "definitions"
        cur = root.get(key) or Obj()
        missing = [n for n in names if n not in cur.keys()]
        if not missing:
            break
        for n in missing:
            cur.kvs.append((n, gen_schema(c, max(0, c.depth - 1))))
        root.set(key, cur)
    if schema_uri is not None:
        root = Obj([("$schema", schema_uri)] + [kv for kv in root.kvs if kv[0] != "$schema"])
    return root


def count_keywords(doc):
    if isinstance(doc, Obj):
        return len(doc.kvs) + sum(count_keywords(v) for _, v in doc.kvs)
    if isinstance(doc, list):
        return sum(count_keywords(x) for x in doc)
    return 0


def has_key(doc, keys):
    if isinstance(doc, Obj):
        return any(k in keys or has_key(v, keys) for k, v in doc.kvs)
    if isinstance(doc, list):
        return any(has_key(x, keys) for x in doc)
    return False
