"""Generators of JSON values and of Go representations (value descriptors) of them."""
from fractions import Fraction

from .wire import Num, Obj

INT_RANGES = {
    "int8": (-2**7, 2**7 - 1), "int16": (-2**15, 2**15 - 1), "int32": (-2**31, 2**31 - 1),
    "int64": (-2**63, 2**63 - 1), "int": (-2**63, 2**63 - 1), "myint": (-2**63, 2**63 - 1),
    "uint8": (0, 2**8 - 1), "uint16": (0, 2**16 - 1), "uint32": (0, 2**32 - 1),
    "uint64": (0, 2**64 - 1), "uint": (0, 2**64 - 1), "uintptr": (0, 2**64 - 1),
}
FLOAT_BITS = {"float64": 53, "float32": 24, "myfloat": 53}
NAMES = ["a", "b", "c", "d"]
STRINGS = ["", "a", "b", "ab", "é", "é", "日本", "x/y", "~", "0", "1", " ", "😀"]
SPECIAL_NUMS = ["0", "1", "-1", "2", "3", "0.5", "-0.5", "1.5", "2.25", "100", "127", "128", "-128", "-129", "255", "256",
                "65535", "65536", "2147483647", "2147483648", "-2147483648", "4294967295", "4294967296",
                "9007199254740992", "9007199254740993", "9223372036854775807", "-9223372036854775808",
                "18446744073709551615", "0.125", "1e2", "1024", "0.0009765625", "9223372036854775808", "18446744073709549568",
                "-9223372036854775808", "1e19", "9223372036854775808", "18446744073709551616", "9223372036854775808", "2147483648",
                "4294967296", "-9223372036854775809", "9223372036854774784", "9223372036854775807",
                # large integers that are exactly float64 (m * 2^k): the float quotient of multipleOf rounds here
                "36028797018963968", "1152921504606846976", "3458764513820540928", "1000000000000000000", "4611686018427387904",
                "-36028797018963968", "72057594037927936"]


def dec(fr):
    """Exact decimal text of a fraction whose denominator is 2^a 5^b."""
    fr = Fraction(fr)
    if fr.denominator == 1:
        return str(fr.numerator)
    d = fr.denominator
    k = 0
    while d % 10 == 0:
        d //= 10
        k += 1
    p2 = p5 = 0
    while d % 2 == 0:
        d //= 2
        p2 += 1
    while d % 5 == 0:
        d //= 5
        p5 += 1
    assert d == 1, fr
    k += max(p2, p5)
    n = fr.numerator * 10**k // fr.denominator
    s = str(abs(n)).rjust(k + 1, "0")
    return ("-" if n < 0 else "") + s[:-k] + "." + s[-k:]


def is_dyadic_bits(fr, bits):
    fr = Fraction(fr)
    d = fr.denominator
    if d & (d - 1):
        return False
    n = abs(fr.numerator)
    while n and n % 2 == 0:
        n //= 2
    if n.bit_length() > bits:
        return False
    # exponent range (keep far inside the normal range)
    return fr == 0 or (Fraction(1, 2**60) <= abs(fr) <= 2**100)


def gen_num(rng):
    r = rng.random()
    if r < 0.45:
        return Num(rng.choice(SPECIAL_NUMS))
    if r < 0.7:
        return Num(str(rng.randint(-5, 5)))
    if r < 0.9:
        return Num(dec(Fraction(rng.randint(-2**10, 2**10), 2 ** rng.randint(0, 6))))
    return Num(str(rng.choice([1, -1]) * rng.randint(2**52, 2**64 - 1)))


def gen_json(rng, depth=3, width=3):
    r = rng.random()
    if depth <= 0 or r < 0.45:
        k = rng.random()
        if k < 0.1:
            return None
        if k < 0.2:
            return rng.random() < 0.5
        if k < 0.65:
            return gen_num(rng)
        return rng.choice(STRINGS)
    if r < 0.72:
        return [gen_json(rng, depth - 1, width) for _ in range(rng.randint(0, width))]
    keys = rng.sample(NAMES + ["é", "é", ""], rng.randint(0, width))
    return Obj([(k, gen_json(rng, depth - 1, width)) for k in keys])


def mutate_leaf(rng, j):
    """A value that differs from j in exactly one place (or in shape at one node)."""
    if isinstance(j, list) and j and rng.random() < 0.8:
        i = rng.randrange(len(j))
        return j[:i] + [mutate_leaf(rng, j[i])] + j[i + 1:]
    if isinstance(j, Obj) and j.kvs and rng.random() < 0.8:
        i = rng.randrange(len(j.kvs))
        k, v = j.kvs[i]
        if rng.random() < 0.2:
            nk = rng.choice([x for x in NAMES + ["é", "é"] if x not in j.keys()] or ["zz"])
            return Obj(j.kvs[:i] + [(nk, v)] + j.kvs[i + 1:])
        return Obj(j.kvs[:i] + [(k, mutate_leaf(rng, v))] + j.kvs[i + 1:])
    if isinstance(j, Num):
        f = j.frac()
        c = rng.random()
        if f.denominator == 1 and abs(f) >= 128 and c < 0.3:
            # the numbers machine arithmetic confuses with f: f wrapped into a k-bit signed / unsigned word, the saturated
            # conversion, the negation
            k = rng.choice([8, 16, 32, 64, 64, 64])
            n = f.numerator
            cands = [((n + 2**(k - 1)) % 2**k) - 2**(k - 1), n % 2**k, max(-2**(k - 1), min(2**(k - 1) - 1, n)), -n,
                     max(0, min(2**k - 1, n))]
            cands = [x for x in cands if x != n]
            if cands:
                return Num(str(rng.choice(cands)))
        if c < 0.4:
            return Num(dec(f + 1))
        if c < 0.7 and f.denominator == 1 and abs(f) >= 2**53:
            return Num(dec(f + rng.choice([1, -1])))
        if c < 0.8:
            return dec(f)  # the same digits as a string
        return Num(dec(f + Fraction(1, 2**rng.randint(1, 20))))
    if isinstance(j, str):
        return rng.choice([s for s in STRINGS if s != j])
    if j is None:
        return rng.choice([False, Num("0"), "", [], Obj()])
    if isinstance(j, bool):
        return rng.choice([not j, Num("1" if j else "0"), None])
    if isinstance(j, list):
        return j + [None]
    if isinstance(j, Obj):
        return Obj(j.kvs + [("zz", None)])
    return None


# ---------------------------------------------------------------------------------------------
# representations


def jnum_texts(fr):
    t = dec(fr)
    out = [t]
    if "." not in t:
        out += [t + ".0", t + ".00", t + "e0", t + "E+0"]
        if t.endswith("0") and t not in ("0", "-0"):
            out.append(t[:-1] + "e1")
        if t not in ("0", "-0"):      # "00e-1" is not a JSON number literal (json.Marshal refuses such a json.Number)
            out.append(t + "0e-1")
    else:
        out += [t + "0", t + "e0"]
    return out


def represent_as(rng, j, T):
    """Descriptor of type exactly T carrying j, or None if impossible."""
    if T == "any":
        return represent(rng, j)
    if T in INT_RANGES:
        if isinstance(j, Num):
            f = j.frac()
            lo, hi = INT_RANGES[T]
            if f.denominator == 1 and lo <= f.numerator <= hi:
                return {"t": T, "v": str(f.numerator)}
        return None
    if T in FLOAT_BITS:
        if isinstance(j, Num) and is_dyadic_bits(j.frac(), FLOAT_BITS[T]):
            if j.frac() == 0 and rng.random() < 0.4:
                return {"t": T, "v": "-0"}      # IEEE negative zero: the JSON value 0 (strconv.ParseFloat("-0") is -0.0)
            return {"t": T, "v": dec(j.frac())}
        return None
    if T == "jnum":
        if isinstance(j, Num):
            return {"t": "jnum", "v": rng.choice(jnum_texts(j.frac()))}
        return None
    if T in ("string", "mystring"):
        if isinstance(j, str):
            return {"t": T, "v": j}
        return None
    if T == "bool":
        if isinstance(j, bool):
            return {"t": "bool", "v": j}
        return None
    if T.startswith("*"):
        if j is None:
            return {"t": T, "v": None}
        inner = represent_as(rng, j, T[1:])
        if inner is None and T[1:] != "any":
            return None
        return {"t": T, "v": inner}
    if T.startswith("[]"):
        if isinstance(j, list):
            items = [represent_as(rng, x, T[2:]) for x in j]
            if T[2:] != "any" and any(i is None for i in items):
                return None
            return {"t": T, "v": items}
        return None
    if T.startswith("map["):
        if isinstance(j, Obj):
            close = T.index("]")
            et = T[close + 1:]
            items = []
            for k, v in j.kvs:
                d = represent_as(rng, v, et)
                if d is None and et != "any":
                    return None
                items.append([k, d])
            return {"t": T, "v": items}
        return None
    if T.startswith("["):
        close = T.index("]")
        n = int(T[1:close])
        if isinstance(j, list) and len(j) == n:
            et = T[close + 1:]
            items = [represent_as(rng, x, et) for x in j]
            if et != "any" and any(i is None for i in items):
                return None
            return {"t": T, "v": items}
        return None
    return None


ELEM_TYPES = ["any", "any", "int", "float64", "int8", "uint16", "uint8", "uint8", "[]uint8", "int64", "uint64", "float32", "jnum", "string",
              "mystring", "bool", "[]any", "[]int", "map[string]any", "*int", "*any", "*string", "myint", "*float64",
              "map[string]int", "[]float64"]


def represent(rng, j, wrap=True):
    """A randomly chosen Go representation of the JSON value j (None = untyped nil)."""
    d = _represent(rng, j)
    if wrap and d is not None:
        while rng.random() < 0.12:
            d = {"t": "*" + d["t"], "v": d}
    return d


def _represent(rng, j):
    if j is None:
        if rng.random() < 0.7:
            return None
        return {"t": rng.choice(["*int", "*any", "*string", "*[]any", "*map[string]any"]), "v": None}
    if isinstance(j, bool):
        return {"t": "bool", "v": j}
    if isinstance(j, str):
        return {"t": rng.choice(["string", "string", "mystring"]), "v": j}
    if isinstance(j, Num):
        kinds = list(INT_RANGES) + list(FLOAT_BITS) + ["jnum", "float64", "float64"]
        rng.shuffle(kinds)
        for k in kinds:
            d = represent_as(rng, j, k)
            if d is not None:
                return d
        raise AssertionError("unrepresentable number %r" % (j,))
    if isinstance(j, list):
        for _ in range(3):
            et = rng.choice(ELEM_TYPES)
            if j and all(isinstance(x, list) and len(x) == len(j[0]) for x in j) and rng.random() < 0.5:
                # rows of one length: the element type can be a Go array ([][2]int, [3][1]any, ...)
                et = "[%d]%s" % (len(j[0]), rng.choice(["any", "int", "float64", "any", "*int", "jnum"]))
            T = ("[%d]" % len(j) if rng.random() < 0.25 else "[]") + et
            d = represent_as(rng, j, T)
            if d is not None:
                return d
        return represent_as(rng, j, "[]any")
    if isinstance(j, Obj):
        for _ in range(3):
            et = rng.choice(ELEM_TYPES)
            T = "map[%s]%s" % (rng.choice(["string", "string", "mystring"]), et)
            d = represent_as(rng, j, T)
            if d is not None:
                return d
        return represent_as(rng, j, "map[string]any")
    raise TypeError(type(j))


ZERO_REPRS = [("float64", "-0"), ("float64", "-0"), ("float64", "0"), ("int", "0"), ("jnum", "-0"), ("jnum", "-0.0"), ("jnum", "0.0"), ("jnum", "0"),
              ("float32", "-0"), ("int64", "0"), ("uint8", "0"), ("jnum", "0e0"), ("jnum", "-0e0"), ("myfloat", "-0"), ("jnum", "-0.00"), ("myint", "0")]


def zero_array(rng):
    """(j, reprs): a JSON array holding the number ZERO twice or more (bare, or inside otherwise equal arrays / objects), sometimes
    next to other values or with one of the zeros replaced by another number, and 4 Go representations of it. The first is a
    decoding by encoding/json of a document that spells every zero 0 or -0.0 (float64 0 / IEEE negative zero in []any /
    map[string]any); in the others each zero independently is float64 / float32 / named float -0 or +0, an integer kind, or a
    json.Number spelled 0, -0, -0.0, 0.0, 0e0, inside untyped or typed containers."""
    wrap = rng.choice(["", "", "arr", "obj", "arr2", "objarr"])
    n = rng.choice([2, 2, 2, 3])
    vals = ["0"] * n
    if rng.random() < 0.2:
        vals[rng.randrange(n)] = rng.choice(["1", "-1", "0.5"])
    fill = [(rng.randrange(n + 1), rng.choice([Num("1"), "0", "", None, False, [], Num("-1")])) for _ in range(rng.choice([0, 0, 1, 2]))]

    def wrapj(x):
        return {"": x, "arr": [x], "obj": Obj([("a", x)]), "arr2": [[x], "s"], "objarr": Obj([("k", [x, None])])}[wrap]

    def wrapd(d, canonical):
        anyT = canonical or rng.random() < 0.5
        if wrap == "":
            return d
        if wrap == "arr":
            return {"t": "[]any" if anyT else rng.choice(["[]", "[1]"]) + d["t"], "v": [d]}
        if wrap == "obj":
            return {"t": "map[string]any" if anyT else "map[%s]%s" % (rng.choice(["string", "mystring"]), d["t"]), "v": [["a", d]]}
        if wrap == "arr2":
            return {"t": "[]any", "v": [{"t": "[]any" if anyT else "[]" + d["t"], "v": [d]}, {"t": "string", "v": "s"}]}
        return {"t": "map[string]any", "v": [["k", {"t": "[]any", "v": [d, None]}]]}

    j = [wrapj(Num(v)) for v in vals]
    for pos, f in fill:
        j.insert(pos, f)
    reprs = []
    for r in range(4):
        items = []
        for v in vals:
            if v != "0":
                d = {"t": "float64", "v": v} if r == 0 else represent_as(rng, Num(v), rng.choice(["float64", "jnum", "float32"]))
            elif r == 0:
                d = {"t": "float64", "v": rng.choice(["0", "-0"])}
            else:
                t, x = rng.choice(ZERO_REPRS)
                d = {"t": t, "v": x}
            items.append(wrapd(d, r == 0))
        for pos, f in fill:
            items.insert(pos, canonical_repr(f))
        reprs.append({"t": "[]any" if r == 0 or rng.random() < 0.7 else "[%d]any" % len(items), "v": items})
    return j, reprs


def canonical_repr(j):
    """What encoding/json produces when decoding into `any`."""
    if j is None:
        return None
    if isinstance(j, bool):
        return {"t": "bool", "v": j}
    if isinstance(j, str):
        return {"t": "string", "v": j}
    if isinstance(j, Num):
        return {"t": "float64", "v": dec(j.frac())}
    if isinstance(j, list):
        return {"t": "[]any", "v": [canonical_repr(x) for x in j]}
    if isinstance(j, Obj):
        return {"t": "map[string]any", "v": [[k, canonical_repr(v)] for k, v in j.kvs]}
    raise TypeError(type(j))


def float64_ok(j):
    """Every number in j is exactly a float64 (so the canonical decoding carries the same value)."""
    if isinstance(j, Num):
        return is_dyadic_bits(j.frac(), 53)
    if isinstance(j, list):
        return all(float64_ok(x) for x in j)
    if isinstance(j, Obj):
        return all(float64_ok(v) for _, v in j.kvs)
    return True


# ---------------------------------------------------------------------------------------------
# descriptors read back; Go values that are not what encoding/json decodes

# declared struct types of harness/goval.go: (JSON name, Go type) in declaration order — NOT alphabetical, on purpose
STRUCTS = {
    "S:gotype": [("package", "string"), ("name", "string"), ("kind", "int")],
    "S:order": [("z", "int"), ("a", "string"), ("m", "[]string"), ("inner", "*S:gotype")],
}


def denote(d):
    """The JSON value a descriptor marshals to with encoding/json: maps with keys ascending, structs in field order, a nil pointer
    / interface as null, json.RawMessage and *Schema as the text they were given."""
    from .wire import parse_ordered
    if d is None:
        return None
    t, v = d["t"], d.get("v")
    if t in ("rawjson", "schema"):
        return parse_ordered(v)
    if t in STRUCTS:
        if v is None:
            v = [None] * len(STRUCTS[t])
        out = []
        for (name, ft), x in zip(STRUCTS[t], v):
            if x is None:
                x = {"string": "", "int": Num("0")}.get(ft)      # zero value of the field ([]string, pointers: null)
            else:
                x = denote(x)
            out.append((name, x))
        return Obj(out)
    if t.startswith("*"):
        return None if v is None else denote(v)
    if t == "any":
        return denote(v)
    if t.startswith("map["):
        if v is None:
            return None
        return Obj(sorted(((k, denote(x)) for k, x in v), key=lambda kv: kv[0].encode("utf-8")))
    if t.startswith("["):
        if v is None:
            return None
        return [denote(x) for x in v]
    if t == "bool" or t in ("string", "mystring"):
        return v
    if t == "jnum" or t in INT_RANGES or t in FLOAT_BITS:
        return Num("0" if v == "-0" else v)
    raise TypeError(t)


def gen_govalue(rng, depth=1):
    """A Go value that is NOT what json decoding produces (for map[string]any fields of a Schema built in Go): a declared struct or a
    pointer to one, a json.RawMessage, a *Schema, a typed map / slice, a json.Number, a sized integer, a pointer."""
    r = rng.random()
    name = lambda: rng.choice(["T", "pkg", "a", "é", ""])
    gotype = lambda: {"t": "S:gotype", "v": [{"t": "string", "v": name()}, {"t": "string", "v": name()}, {"t": "int", "v": str(rng.randint(0, 30))}]}
    if r < 0.2:
        g = gotype()
        return g if rng.random() < 0.5 else {"t": "*S:gotype", "v": g}
    if r < 0.3:
        inner = None if rng.random() < 0.4 else {"t": "*S:gotype", "v": gotype()}
        return {"t": "S:order", "v": [{"t": "int", "v": str(rng.randint(-3, 3))}, {"t": "string", "v": name()},
                                       None if rng.random() < 0.3 else {"t": "[]string", "v": [{"t": "string", "v": name()} for _ in range(rng.randint(0, 2))]},
                                       inner]}
    if r < 0.45:
        return {"t": "rawjson", "v": rng.choice(['{"b":1,"a":2}', '{"z":{"y":1,"x":[2]},"a":null}', '[{"k":1,"j":"s"}]', '1.50', '"s"', 'null',
                                                 '{"a":1,"b":2}', '{"n":1e2,"m":0.10}', '[]', '{}'])}
    if r < 0.6:
        # the text is what Marshal writes for that schema: "type" first, the other keywords in declaration order
        return {"t": "schema", "v": rng.choice(['{"type":"string"}', '{"type":"object","title":"t"}', '{"title":"t","minimum":1}',
                                                'true', '{"type":"array","items":{"type":"number"},"minItems":1}',
                                                '{"type":["string","null"],"description":"d"}', '{"not":{"const":1}}'])}
    if r < 0.7:
        ks = rng.sample(["b", "a", "é", "Z", "1", "10", "2"], rng.randint(0, 3))
        et = rng.choice(["int", "jnum", "string", "[]string", "uint8"])
        return {"t": "map[%s]%s" % (rng.choice(["string", "mystring"]), et), "v": [[k, _scalar_of(rng, et)] for k in ks]}
    if r < 0.8:
        et = rng.choice(["string", "int", "jnum", "float32", "mystring", "*int"])
        return {"t": "[]" + et, "v": [_scalar_of(rng, et) for _ in range(rng.randint(0, 3))]}
    if r < 0.9:
        return {"t": "jnum", "v": rng.choice(["1", "1.0", "1.50", "1e2", "-0", "0.10", "123456789012345678901234567890", "2E+1"])}
    if depth > 0 and r < 0.95:
        return {"t": "map[string]any", "v": [[k, gen_govalue(rng, depth - 1)] for k in rng.sample(["q", "p", "r"], rng.randint(1, 2))]}
    return _scalar_of(rng, rng.choice(["int8", "uint64", "*int", "float32", "myint", "mystring"]))


def _scalar_of(rng, t):
    if t.startswith("*"):
        return {"t": t, "v": None if rng.random() < 0.3 else _scalar_of(rng, t[1:])}
    if t == "[]string":
        return {"t": t, "v": [_scalar_of(rng, "string") for _ in range(rng.randint(0, 2))]}
    if t in ("string", "mystring"):
        return {"t": t, "v": rng.choice(["", "a", "é", "x<y"])}
    if t == "jnum":
        return {"t": t, "v": rng.choice(["1", "1.0", "2.50", "1e1", "0"])}
    if t in FLOAT_BITS:
        return {"t": t, "v": rng.choice(["0", "1", "0.5", "-2.25", "100"])}
    lo, hi = INT_RANGES[t]
    return {"t": t, "v": str(rng.choice([0, 1, 7, hi, lo]))}


def represent_keyed(rng, j, key_types=("string", "mystring", "jnum"), elem_types=("any", "any", "int", "float64", "jnum", "string", "bool", "map[string]any")):
    """A representation of j in which every OBJECT is a Go map with a key type drawn from key_types (json.Number has kind String:
    `map[json.Number]T` is an object for the package and for encoding/json alike) and a typed element where the values allow it."""
    if isinstance(j, Obj):
        kt = rng.choice(key_types)
        for _ in range(2):
            et = rng.choice(elem_types)
            if et == "any":
                break
            d = represent_as(rng, j, "map[%s]%s" % (kt, et))
            if d is not None:
                return d
        return {"t": "map[%s]any" % kt, "v": [[k, represent_keyed(rng, v, key_types, elem_types)] for k, v in j.kvs]}
    if isinstance(j, list):
        return {"t": "[]any", "v": [represent_keyed(rng, x, key_types, elem_types) for x in j]}
    return represent(rng, j, wrap=False)


# ---------------------------------------------------------------------------------------------
# byte sequences: a JSON array of integers 0..255 is what a []byte, a [N]byte, a *[N]byte and a []any of small numbers all denote


def gen_bytes_json(rng, n=None):
    n = rng.choice([0, 1, 2, 2, 3, 4, 4, 6]) if n is None else n
    return [Num(str(rng.choice([0, 1, 2, 10, 255, rng.randint(0, 255)]))) for _ in range(n)]


def is_bytes_json(j):
    return isinstance(j, list) and all(isinstance(x, Num) and x.frac().denominator == 1 and 0 <= x.frac() <= 255 for x in j)


def represent_bytes(rng, j, by_value=0.6):
    """A Go representation of j in which every array of small integers is (mostly) a BYTE sequence: a Go array [N]uint8 held BY VALUE
    (top level, interface element, map value, element of an outer Go array: not addressable), a []uint8, a *[N]uint8, an element of a
    slice of arrays ([][N]uint8: addressable), or now and then a []any / [N]int of the same numbers. Arrays of byte sequences and
    objects of byte sequences use typed containers when their members allow it."""
    if is_bytes_json(j):
        n = len(j)
        r = rng.random()
        if r < by_value:
            T = "[%d]uint8" % n
        elif r < by_value + 0.25:
            T = "[]uint8"
        else:
            T = rng.choice(["*[%d]uint8" % n, "*[]uint8", "[]any", "[%d]any" % n, "[%d]int" % n, "[]uint16", "[%d]int8" % n, "[]jnum"])
        d = represent_as(rng, j, T)
        return d if d is not None else represent_as(rng, j, "[]any")
    if isinstance(j, list):
        if j and all(is_bytes_json(x) for x in j) and rng.random() < 0.5:
            n = len(j[0])
            cands = ["[][]uint8", "[%d][]uint8" % len(j)]
            if all(len(x) == n for x in j):
                cands += ["[%d][%d]uint8" % (len(j), n)] * 3 + ["[][%d]uint8" % n, "*[%d][%d]uint8" % (len(j), n)]
            d = represent_as(rng, j, rng.choice(cands))
            if d is not None:
                return d
        T = rng.choice(["[]any", "[]any", "[%d]any" % len(j)])
        return {"t": T, "v": [represent_bytes(rng, x, by_value) for x in j]}
    if isinstance(j, Obj):
        vals = [v for _, v in j.kvs]
        if vals and all(is_bytes_json(v) for v in vals) and rng.random() < 0.5:
            n = len(vals[0])
            cands = ["map[string][]uint8"]
            if all(len(v) == n for v in vals):
                cands += ["map[string][%d]uint8" % n] * 3 + ["map[mystring][%d]uint8" % n]
            d = represent_as(rng, j, rng.choice(cands))
            if d is not None:
                return d
        return {"t": "map[string]any", "v": [[k, represent_bytes(rng, v, by_value)] for k, v in j.kvs]}
    return represent(rng, j, wrap=False)


def gen_bytes_pair(rng):
    """(j1, j2): byte sequences — or an array / object of them — equal, differing in one byte, or of different length."""
    n = rng.choice([0, 1, 2, 2, 3, 4, 4, 6])
    shape = rng.choice(["seq", "seq", "seq", "list", "list", "obj"])
    if shape == "seq":
        j1 = gen_bytes_json(rng, n)
    elif shape == "list":
        j1 = [gen_bytes_json(rng, n) for _ in range(rng.randint(1, 3))]
    else:
        j1 = Obj([(k, gen_bytes_json(rng, n)) for k in rng.sample(NAMES, rng.randint(1, 2))])
    r = rng.random()
    if r < 0.6:
        return j1, j1
    j2 = _mutate_byte(rng, j1, same_len=r < 0.85)
    return j1, j2


def _mutate_byte(rng, j, same_len=True):
    if is_bytes_json(j):
        if same_len and j:
            i = rng.randrange(len(j))
            old = int(j[i].text)
            return j[:i] + [Num(str((old + rng.choice([1, 128, 255])) % 256))] + j[i + 1:]
        return j + [Num("0")] if rng.random() < 0.5 or not j else j[:-1]
    if isinstance(j, list):
        i = rng.randrange(len(j))
        return j[:i] + [_mutate_byte(rng, j[i], same_len)] + j[i + 1:]
    i = rng.randrange(len(j.kvs))
    k, v = j.kvs[i]
    return Obj(j.kvs[:i] + [(k, _mutate_byte(rng, v, same_len))] + j.kvs[i + 1:])
