"""C18 — non-asserting and unknown keywords never change a verdict."""
from .. import gen_schema as gs
from .. import vjudge
from ..wire import Obj, Num

ID = "C18"
N_QUICK = 5000
N_THOROUGH = 100000
LEAN_MODULES = ["JSV.Props.C18"]
RULE = ("a generated schema document (either draft), 6 instances, and a decoration of the document: at 1..4 random subschemas, "
        "insertion of a non-asserting keyword (title, description, $comment, default, examples, deprecated, readOnly, writeOnly, "
        "format, contentEncoding, contentMediaType, contentSchema, an unreferenced $defs/definitions entry) with a well-typed value, or "
        "of an unknown keyword with any JSON value, incl. names that differ from a standard keyword only in letter case (~4%: class of "
        "known finding D4); 3 %: a 2020-12 root that only refers to a Loader document declaring draft-07 / 2020-12 / nothing, which holds "
        "unevaluated* over overlapping anyOf / oneOf branches, decorations (incl. unreferenced definitions that mention unevaluated*) on the root only; "
        "4 %: a reference (in both documents) whose JSON Pointer walks into the value of an unknown keyword that the decoration adds "
        "(root, a definition, an embedded resource; schema-like, boolean, scalar and array values): both must be refused by Resolve; "
        "6 %: dynamic-scope topologies, half of them with most resources entered by pointer at an interior bare $ref. Observed on the real package directly: verdict vector of decorated == undecorated, and Unmarshal accepts. "
        "Non-trivial: >= 2 keywords; distinct = operation text")
ASSUMPTIONS = ["decorations introduce no $id / anchors (they would legitimately change resolution)"]

ONE = {"additionalProperties", "contains", "contentSchema", "else", "if", "not", "propertyNames", "then", "unevaluatedItems",
       "unevaluatedProperties", "additionalItems"}
MANY = {"allOf", "anyOf", "oneOf", "prefixItems"}
MAP = {"$defs", "definitions", "dependentSchemas", "patternProperties", "properties"}
UNKNOWN = ["x-foo", "foo", "$foo", "nullable", "discriminator", "xml", "example", "id", "extends", "divisibleBy", "disallow",
           "$recursiveRef", "$recursiveAnchor", "dependent", "minimun", "unevaluated"]
CASEFOLD = ["Type", "MINIMUM", "Properties", "Required", "ENUM", "Const", "maxlength", "additionalproperties", "$REF", "Not", "Items"]


def positions(doc, acc):
    """All subschema objects (Obj) of a schema document."""
    if not isinstance(doc, Obj):
        return
    acc.append(doc)
    for k, v in doc.kvs:
        if k in ONE:
            positions(v, acc)
        elif k in MANY and isinstance(v, list):
            for x in v:
                positions(x, acc)
        elif k in MAP and isinstance(v, Obj):
            for _, x in v.kvs:
                positions(x, acc)
        elif k == "items":
            if isinstance(v, list):
                for x in v:
                    positions(x, acc)
            else:
                positions(v, acc)
        elif k == "dependencies" and isinstance(v, Obj):
            for _, x in v.kvs:
                if not isinstance(x, list):
                    positions(x, acc)


def deep_copy(v):
    if isinstance(v, Obj):
        return Obj([(k, deep_copy(x)) for k, x in v.kvs])
    if isinstance(v, list):
        return [deep_copy(x) for x in v]
    return v


def decorate(rng, doc, draft, default_pool=None):
    d = deep_copy(doc)
    pos = []
    positions(d, pos)
    if not pos:
        return d, False
    folded = False
    for _ in range(rng.randint(1, 4)):
        o = rng.choice(pos)
        r = rng.random()
        if r < 0.55:
            k = rng.choice(["title", "description", "$comment", "default", "examples", "deprecated", "readOnly", "writeOnly",
                            "format", "contentEncoding", "contentMediaType", "contentSchema", "defs"])
            if k in ("title", "description", "$comment", "format", "contentEncoding", "contentMediaType"):
                v = rng.choice(["t", "email", "date-time", "base64", "application/json", "", "ipv4", "regex"])
            elif k == "default":
                v = gs.gen_value(rng, 2) if not default_pool or rng.random() < 0.3 else rng.choice(default_pool)
            elif k == "examples":
                v = [gs.gen_value(rng, 1) for _ in range(rng.randint(0, 3))]
            elif k == "contentSchema":
                v = rng.choice([True, False, Obj([("type", "string")]), Obj([("not", Obj())]), Obj([("unevaluatedProperties", False)]),
                                Obj([("unevaluatedItems", False)])])
            elif k == "defs":
                # both spellings are non-asserting containers in both drafts
                k = ("$defs" if draft == "2020" else "definitions") if rng.random() < 0.6 else ("definitions" if draft == "2020" else "$defs")
                if o.get(k) is not None:
                    continue
                v = Obj([("unused%d" % rng.randint(0, 9), rng.choice([False, Obj([("type", "null")]), Obj([("not", Obj())]),
                                                                        Obj([("unevaluatedProperties", False)]), Obj([("unevaluatedItems", Obj([("type", "null")]))]),
                                                                        Obj([("allOf", [Obj([("unevaluatedProperties", False), ("properties", Obj([("a", True)]))])])]),
                                                                        Obj([("$dynamicAnchor", "unusedanchor")]), Obj([("pattern", "^a")]),
                                                                        Obj([("required", ["a"]), ("default", Obj())])]))])
            else:
                v = rng.random() < 0.5
            if o.get(k) is None:
                o.set(k, v)
        elif r < 0.96:
            k = rng.choice(UNKNOWN)
            if o.get(k) is None:
                o.set(k, gs.gen_value(rng, 2))
        elif r < 0.98 and o.kvs:
            # a case variant of a keyword that is present in the same object, before or after it (encoding/json matches field names
            # case-insensitively and the last match wins): the exact keyword must keep its meaning
            k0, v0 = rng.choice(o.kvs)
            if not k0.isalpha() or k0 in ("title", "description", "format") or any(kk.lower() == k0.lower() and kk != k0 for kk in o.keys()):
                continue
            if k0 in ("type", "items", "dependencies"):
                # the union keywords travel through one json.RawMessage shadow field: the later spelling replaces the earlier one
                # wholesale (string form vs array form), which the model's per-form assignment does not reproduce
                continue
            kv = rng.choice([k0.capitalize(), k0.upper(), k0[0] + k0[1:].swapcase()])
            if kv == k0:
                continue
            if isinstance(v0, Num):
                v = Num(rng.choice(["0", "1", "5", "100", "-1"]))
            elif isinstance(v0, bool):
                if k0 not in ("uniqueItems", "deprecated", "readOnly", "writeOnly"):
                    continue        # a boolean *schema*: pointer-valued, see below
                v = not v0
            elif isinstance(v0, str):
                v = rng.choice(gs.TYPES)
            elif isinstance(v0, list) and all(isinstance(x, str) for x in v0):
                v = ["zz"]
            else:
                # schema-, schema-list- and map-valued keywords: a second assignment decodes INTO the existing value
                # (encoding/json), which the model's plain assignment does not reproduce
                continue
            if rng.random() < 0.6:
                o.kvs.insert(0, (kv, v))       # the variant comes first in the document
            else:
                o.kvs.append((kv, v))
            folded = True
        else:
            k = rng.choice(CASEFOLD)
            if k.lower() not in ("minimum", "required", "enum", "const", "maxlength", "$ref") and any(kk.lower() == k.lower() for kk in o.keys()):
                # next to its exact twin only scalar / list-valued keywords: a second assignment to a *Schema or map field decodes
                # INTO the existing value (encoding/json), which the model's plain assignment does not reproduce
                continue
            if o.get(k) is None:
                v = {"Type": "string", "MINIMUM": Num("5"), "Properties": Obj([("a", False)]), "Required": ["zz"], "ENUM": [],
                     "Const": Num("424242"), "maxlength": Num("0"), "additionalproperties": False, "$REF": "#/nosuch", "Not": Obj(),
                     "Items": False}[k]
                v = v if rng.random() < 0.7 else gs.gen_value(rng, 1)
                if isinstance(v, Num) and "e" in v.text.lower() and "." not in v.text:
                    v = Num("100")      # never a bare exponent into an integer keyword: known finding D23, outside the model
                o.set(k, v)
                folded = True
    return d, folded


def has_both_defs(doc):
    """some schema object of the document holds both `$defs` and `definitions` (Resolve refuses it: known finding D22)"""
    pos = []
    positions(doc, pos)
    return any(o.get("$defs") is not None and o.get("definitions") is not None for o in pos)


def tree_case(rng):
    """The canonical use of $dynamicRef: an extensible recursive tree in a Loader document, closed / specialised by the root and by one
    or two embedded resources of the root that each declare (or not) the dynamic anchor. Decorations — above all `default`s whose values
    are themselves trees — are added to the root document; with ValidateDefaults they are validated during Resolve, with the carrying
    schema at the bottom of the dynamic scope, and must leave no trace."""
    T = "http://x.test/t/tree"
    child = rng.choice(["children", "kids"])
    tree = Obj([("$id", T), ("$dynamicAnchor", "node"), ("type", "object"),
                ("properties", Obj([(child, Obj([("type", "array"), ("items", Obj([("$dynamicRef", rng.choice(["#node", "tree#node"]))]))]))]))])
    if rng.random() < 0.3:
        tree.get("properties").set("val", Obj([("type", "number")]))

    def variant(i):
        kind = rng.choice(["closed", "typed", "open", "req"])
        v = Obj([("$id", "http://x.test/t/v%d" % i)])
        if rng.random() < 0.8:
            v.set("$dynamicAnchor", "node")
        elif rng.random() < 0.5:
            v.set("$anchor", "node")
        v.set("$ref", rng.choice(["tree", T]))
        if kind == "closed":
            v.set("unevaluatedProperties", False)
        elif kind == "typed":
            v.set("properties", Obj([("x", Obj([("type", "number")]))]))
        elif kind == "req":
            v.set("required", ["val"])
        return v
    root = variant(0)
    root.kvs[0] = ("$id", "http://x.test/t/root")
    defs = Obj([("v%d" % i, variant(i)) for i in range(1, rng.randint(2, 4))])
    root.set("$defs", defs)
    if rng.random() < 0.4:
        root.set("properties", Obj([("alt", Obj([("$ref", "#/$defs/v1")]))]))
    leafs = [Obj(), Obj([("x", Num("1"))]), Obj([("x", "s")]), Obj([("val", Num("2"))]), Obj([("daat", Num("1"))]), Num("3")]

    def inst(d):
        if d <= 0 or rng.random() < 0.3:
            return rng.choice(leafs)
        o = Obj([(child, [inst(d - 1) for _ in range(rng.randint(0, 2))])])
        if rng.random() < 0.3:
            o.kvs.append(rng.choice([("x", Num("1")), ("x", "s"), ("val", Num("1")), ("daat", None)]))
        return o
    insts = [inst(rng.randint(0, 3)) for _ in range(8)] + [Obj([("alt", inst(2))])]
    doc2 = deep_copy(root)
    pos = []
    positions(doc2, pos)
    def deep():
        for _ in range(8):
            v = inst(rng.randint(1, 3))
            if isinstance(v, Obj) and isinstance(v.get(child), list) and v.get(child):
                return v
        return Obj([(child, [Obj()])])
    resources = [o for o in pos if o.get("$id") is not None]
    for _ in range(rng.randint(1, 3)):
        o = rng.choice(resources) if rng.random() < 0.6 else rng.choice(pos)
        k = rng.choice(["default", "default", "default", "examples", "title", "x-foo", "contentSchema"])
        if o.get(k) is not None:
            continue
        if k == "default":
            o.set(k, deep() if rng.random() < 0.7 else inst(rng.randint(0, 3)))
        elif k == "examples":
            o.set(k, [inst(2)])
        elif k == "contentSchema":
            o.set(k, Obj([("$ref", "tree")]))
        else:
            o.set(k, "t")
    args = {"schema": root, "schema2": doc2, "docs": [[T, tree]], "loader": True, "insts": insts}
    if rng.random() < 0.7:
        args["validateDefaults"] = True
    return {"op": "decorate", "args": args, "meta": {"kw": 6, "folded": False, "tree": True, "vd": bool(args.get("validateDefaults"))}}


def remote_draft_case(rng, tier):
    """A 2020-12 root that is nothing but a reference to a Loader document which declares ANOTHER draft (draft-07, mostly), its own
    draft again, or none: the package evaluates every loaded document under the draft of the root, so the loaded document's
    annotation consumers (unevaluated*) and producers (anyOf / oneOf with overlapping branches, in-place applicators) are live. The root
    document itself uses no annotation consumer; the decorations — above all unreferenced $defs / definitions entries and
    contentSchemas that DO mention unevaluated* — are added to the root document only and must not change a verdict."""
    from . import c07
    kind = "obj" if rng.random() < 0.6 else "arr"
    kw = "unevaluatedProperties" if kind == "obj" else "unevaluatedItems"
    defs = []
    r = rng.random()
    if r < 0.5:
        body = Obj([(rng.choice(["anyOf", "anyOf", "oneOf"]), [c07.inplace(rng, rng.choice([0, 0, 1]), kind, defs) for _ in range(rng.randint(2, 3))])])
    elif r < 0.65:
        body = Obj([("allOf", [Obj([("anyOf", [c07.inplace(rng, 0, kind, defs) for _ in range(rng.randint(2, 3))])]), c07.inplace(rng, 1, kind, defs)])])
    else:
        body = c07.inplace(rng, rng.choice([1, 2, 3]), kind, defs)
        if not isinstance(body, Obj):
            body = Obj([("allOf", [body])])
    remote = Obj(list(body.kvs))
    if remote.get(kw) is None:
        remote.set(kw, rng.choice([False, False, False, Obj([("type", "string")]), Obj([("const", "a")])]))
    if defs:
        remote.set("$defs", Obj(defs))
    declared = rng.choice(gs.D7_URIS + gs.D7_URIS + [gs.D2020_URI, None])
    if declared:
        remote.kvs.insert(0, ("$schema", declared))
    uri = "http://x.test/u/legacy.json"
    top = Obj([("$ref", rng.choice([uri, "legacy.json"]))]) if rng.random() < 0.7 else Obj([("allOf", [Obj([("$ref", uri)])])])
    root = Obj(([("$schema", gs.D2020_URI)] if rng.random() < 0.5 else []) + top.kvs)
    doc2, folded = decorate(rng, root, "2020")
    if rng.random() < 0.6:
        u = rng.choice([Obj([("unevaluatedProperties", False)]), Obj([("unevaluatedItems", False)]), Obj([("type", "object"), ("unevaluatedProperties", Obj([("type", "string")]))]),
                        Obj([("items", Obj([("unevaluatedItems", True)]))]), Obj([("allOf", [Obj([("unevaluatedItems", Obj())])])])])
        k = rng.choice(["$defs", "$defs", "definitions", "contentSchema"])
        if doc2.get(k) is None:
            doc2.set(k, u if k == "contentSchema" else Obj([("unusedU", u)]))
    args = {"schema": root, "schema2": doc2, "docs": [[uri, remote]], "base": "http://x.test/u/root.json", "loader": True,
            "insts": c07._insts(rng, kind)}
    return {"op": "decorate", "args": args, "meta": {"kw": gs.count_keywords(remote) + 1, "folded": folded, "remote_draft": declared or "none"}}


XKEYS = ["x-types", "components", "x-defs", "schemas", "$types", "defs", "Defs", "x-foo", "nullable", "id"]


def into_unknown_case(rng, draft, doc):
    """A reference whose JSON Pointer walks INTO the value of an unknown keyword. An unknown keyword's value is no schema location
    (whatever it looks like: schema-like objects, booleans, scalars, arrays), so the undecorated document — where the keyword is
    absent — and the decorated one — where it is present, at the root, in a definition or in an embedded resource — must both be refused
    by Resolve. The reference is in BOTH documents; the decoration is the unknown keyword alone."""
    dk = "$defs" if draft == "2020" else "definitions"
    a = deep_copy(doc)
    K = rng.choice(XKEYS)
    names = rng.sample(["pos", "t", "a", "0", "x/y", "é"], rng.randint(1, 3))
    leaf = lambda: rng.choice([Obj([("type", "integer")]), Obj([("minimum", Num("0"))]), Obj(), True, False, Obj([("const", "k")]),
                               Obj([("$ref", "#")]), Obj([("type", "string")]), Num("1"), "s", None, [Obj([("type", "null")]), True],
                               Obj([("properties", Obj([("p", Obj([("type", "number")]))]))]), Obj([("sub", Obj([("type", "boolean")]))])])
    val = Obj([(nm, leaf()) for nm in names]) if rng.random() < 0.85 else rng.choice([[leaf(), leaf()], leaf()])
    # the pointer below K
    below = []
    cur = val
    for _ in range(3):
        if isinstance(cur, Obj) and cur.kvs and rng.random() < 0.9:
            k, cur = rng.choice(cur.kvs)
            below.append(k)
        elif isinstance(cur, list) and cur:
            i = rng.randrange(len(cur))
            below.append(str(i))
            cur = cur[i]
        else:
            break
        if rng.random() < 0.5:
            break
    if rng.random() < 0.1:
        below.append("nosuch")
    where = rng.choice(["root", "root", "def", "emb"])
    if a.get(dk) is not None and not isinstance(a.get(dk), Obj):
        where = "root"
    if where == "root":
        prefix, holder_path = [], []
    else:
        if a.get(dk) is None:
            a.set(dk, Obj())
        h = "holder%d" % rng.randint(0, 9)
        if a.get(dk).get(h) is not None:
            return None
        a.get(dk).set(h, Obj([("$id", "http://x.test/c18/h.json")] if where == "emb" else []) if rng.random() < 0.7 or where == "emb"
                      else Obj([("type", "object")]))
        prefix, holder_path = [dk, h], [dk, h]
    from ..gen_refs import ptr_escape, frag_encode
    frag = frag_encode("".join("/" + ptr_escape(x) for x in ([] if where == "emb" else prefix) + [K] + below))
    ref = ("http://x.test/c18/h.json#" if where == "emb" else "#") + frag
    refkw = "$ref" if draft == "7" or rng.random() < 0.85 else "$dynamicRef"
    if isinstance(a.get("properties"), Obj):
        a.get("properties").set("zzref", Obj([(refkw, ref)]))
    elif a.get("properties") is None:
        a.set("properties", Obj([("zzref", Obj([(refkw, ref)]))]))
    else:
        return None
    b = deep_copy(a)
    o = b
    for seg in holder_path:
        o = o.get(seg)
    if o.get(K) is not None:
        return None
    o.set(K, val)
    if rng.random() < 0.3:
        b, _ = decorate(rng, b, draft)
        if any(kk.lower() in ("$ref", "properties", dk) and kk not in ("$ref", "properties", dk) for kk in b.keys()):
            return None
    insts = [gs.gen_instance(rng) for _ in range(3)] + [Obj([("zzref", rng.choice([Num("1"), "s", Num("-1"), None, Obj()]))]) for _ in range(3)]
    return {"op": "decorate", "args": {"schema": a, "schema2": b, "insts": insts},
            "meta": {"kw": gs.count_keywords(a) + 1, "folded": False, "into_unknown": where}}


def gen(rng, tier, n):
    from . import c07
    ops = []
    depth = 3 if tier == "quick" else 4
    while len(ops) < n:
        draft = "2020" if rng.random() < 0.7 else "7"
        if rng.random() < 0.07:
            ops.append(tree_case(rng))
            continue
        if draft == "2020" and rng.random() < 0.12:
            # documents in which annotations matter (contains / properties / in-place applicators under unevaluated*): a decoration
            # inside an annotation-producing subschema (e.g. a title inside `contains: {}`) must not change what it evaluates
            o7 = c07.gen_case(rng, tier)
            doc = o7["args"]["schema"]
            if not isinstance(doc, Obj):
                continue
            doc2, folded = decorate(rng, doc, draft)
            args = {"schema": doc, "schema2": doc2, "insts": o7["args"]["insts"][:8]}
            if o7["args"].get("docs"):
                # the annotation consumers live in a Loader document; only the ROOT document is decorated
                args["docs"], args["loader"] = o7["args"]["docs"], True
                if rng.random() < 0.6 and isinstance(doc2, Obj):
                    # an unreferenced definition (or a contentSchema) of the root that itself uses an annotation consumer
                    u = rng.choice([Obj([("unevaluatedProperties", False)]), Obj([("unevaluatedItems", False)]),
                                    Obj([("allOf", [Obj([("unevaluatedItems", Obj())])])])])
                    if rng.random() < 0.3 and doc2.get("contentSchema") is None:
                        doc2.set("contentSchema", u)
                    elif doc2.get("$defs") is None and doc2.get("definitions") is None:
                        doc2.set("$defs", Obj([("unusedU", u)]))
                    elif isinstance(doc2.get("$defs"), Obj):
                        doc2.get("$defs").set("unusedU", u)
            ops.append({"op": "decorate", "args": args, "meta": {"kw": gs.count_keywords(doc), "folded": folded, "c07": True}})
            continue
        if draft == "2020" and rng.random() < 0.04:
            ops.append(remote_draft_case(rng, tier))
            continue
        if draft == "2020" and rng.random() < 0.09:
            # a decoration next to a bare $ref hop of a dynamic-scope topology must not change which resources are in scope; half of the
            # topologies with most resources entered by pointer at an interior, bare hop (the resource is in scope through that hop only)
            from . import c06
            ot = c06.topo(rng) if rng.random() < 0.5 else c06.topo(rng, mid_p=0.7, bare_p=0.7)
            doc = ot["args"]["schema"]
            insts = rng.sample(ot["args"]["insts"], min(10, len(ot["args"]["insts"])))
            args = {"schema": doc, "base": ot["args"]["base"], "insts": insts}
            pool = None
            if ot["args"]["docs"]:
                # resources supplied by the Loader; with ValidateDefaults every `default` of the root tree is validated during Resolve
                # (with the schema that carries it at the bottom of the dynamic scope) — that must leave no trace in later Validate calls
                args["docs"], args["loader"] = ot["args"]["docs"], True
                if rng.random() < 0.6:
                    args["validateDefaults"] = True
                    pool = insts
            doc2, folded = decorate(rng, doc, draft, pool)
            if pool and isinstance(doc2, Obj):
                # one more `default`, taken from the instances, on a resource of the root document
                pos = []
                positions(doc2, pos)
                res = [o for o in pos if o.get("$id") is not None or o is doc2]
                if res:
                    o = rng.choice(res)
                    if o.get("default") is None:
                        o.set("default", rng.choice(pool))
            args["schema2"] = doc2
            ops.append({"op": "decorate", "args": args, "meta": {"kw": gs.count_keywords(doc), "folded": folded, "topo": True,
                                                                "vd": bool(args.get("validateDefaults"))}})
            continue
        c = gs.Ctx(rng, draft, depth=rng.choice([1, 2, depth]), meta=0)
        doc = gs.gen_document(c, rng.choice(gs.D7_URIS) if draft == "7" else None)
        if not isinstance(doc, Obj):
            continue
        if rng.random() < 0.05:
            o = into_unknown_case(rng, draft, doc)
            if o is not None:
                ops.append(o)
            continue
        doc2, folded = decorate(rng, doc, draft)
        if draft == "2020" and rng.random() < 0.15 and isinstance(doc2, Obj) and doc2.get("definitions") is None and doc2.get("$defs") is None:
            # an unreferenced `definitions` entry at the ROOT of a document without $schema: the draft must stay 2020-12
            doc2.set("definitions", Obj([("unused", rng.choice([False, Obj([("type", "null")])]))]))
        insts = [gs.gen_instance(rng) for _ in range(6)]
        ops.append({"op": "decorate", "args": {"schema": doc, "schema2": doc2, "insts": insts},
                    "meta": {"kw": gs.count_keywords(doc), "folded": folded}})
    return ops


def PREFILTER(o, m):
    mo = (m or {}).get("model") or {}
    return not (vjudge.has_fuel(mo.get("a")) or vjudge.has_fuel(mo.get("b")))


def nontrivial(o):
    return (o.get("meta") or {}).get("kw", 0) >= 2


def judge(o, go, m):
    if go is None:
        return "violation:harness", "no answer"
    if go.get("outcome") == "harness-error":
        return "skip", go.get("detail")
    if m is None or "model" not in m:
        return "violation:driver", "no answer %r" % (m,)
    mo = m["model"]
    ga, gb = go.get("a") or {}, go.get("b") or {}
    H = (mo.get("b") or {}).get("H") or []
    # correspondence with the model on both documents first: the model reproduces encoding/json's case-insensitive field matching, so a
    # disagreement is a violation also on documents with a case-folding key (known finding D4 is what the model predicts, nothing else)
    vd = bool(o["args"].get("validateDefaults"))
    if vd:
        # Resolve with ValidateDefaults may refuse a document (an added default that does not validate; known finding D19: any
        # $dynamicRef in the root tree) where the driver's plain resolution succeeds: compare with the model only where Resolve succeeded,
        # and the two documents only when both resolved
        for side in ("a", "b"):
            g = go.get(side) or {}
            if g.get("outcome") == "resolved":
                st, d = vjudge.judge_validate({"meta": {}}, g, mo.get(side), compare_targets=False)
                if st.startswith("violation"):
                    return st, side + " (ValidateDefaults): " + d
            elif g.get("outcome") not in ("resolve-error", "unmarshal-error"):
                return "violation", "%s: %r" % (side, g.get("outcome"))
        if ga.get("outcome") == "resolved" and gb.get("outcome") == "resolved" and ga.get("verdicts") != gb.get("verdicts"):
            if H and H != ["D22"]:
                # the decoration holds a case variant of a keyword (known finding D4); both documents already agree with the model
                return "known:" + H[0], "verdicts change under a decoration whose key case-folds onto a keyword (ValidateDefaults)"
            return "violation", "a decoration changes verdicts under ValidateDefaults: undecorated %r, decorated %r" % (ga.get("verdicts"), gb.get("verdicts"))
        return "agree", ""
    for side in ("a", "b"):
        st, d = vjudge.judge_validate({"meta": {}}, go.get(side), mo.get(side), compare_targets=False)
        if st.startswith("violation"):
            return st, side + ": " + d
    if has_both_defs(o["args"]["schema2"]) and not has_both_defs(o["args"]["schema"]):
        H = H + ["D22"]
    # the property itself, on the real package
    if gb.get("outcome") == "unmarshal-error" and ga.get("outcome") != "unmarshal-error":
        if H:
            return "known:" + H[0], "decorated document refused by Unmarshal (outside hypothesis %s)" % H
        return "violation", "Unmarshal refuses the decorated document: %s" % str(gb.get("detail"))[:200]
    if (ga.get("outcome"), ga.get("verdicts")) != (gb.get("outcome"), gb.get("verdicts")):
        if "D22" in H and gb.get("outcome") == "resolve-error":
            return "known:D22", "an object with both $defs and definitions is refused by Resolve"
        if H and H != ["D22"]:
            return "known:" + H[0], "verdicts change under a decoration whose key case-folds onto a keyword"
        return "violation", "decoration changes the result: undecorated %r / %r, decorated %r / %r" % (
            ga.get("outcome"), ga.get("verdicts"), gb.get("outcome"), gb.get("verdicts"))
    # correspondence with the model on both documents
    for side in ("a", "b"):
        st, d = vjudge.judge_validate({"meta": {}}, go.get(side), mo.get(side), compare_targets=False)
        if st.startswith("violation"):
            return st, side + ": " + d
        if st.startswith("known"):
            return st, d
    return "agree", ""
