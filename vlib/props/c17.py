"""C17 — every subschema is addressable by its JSON Pointer."""
from .. import vjudge
from .. import gen_refs
from ..gen_refs import ptr_escape, frag_encode
from ..wire import Obj, Num

ID = "C17"
N_QUICK = 4000
N_THOROUGH = 80000
LEAN_MODULES = ["JSV.Props.C17"]
RULE = ("skeleton documents nesting every schema-valued, schema-array-valued and schema-map-valued keyword of both drafts (incl. the "
        "items and dependencies unions) to depth <= 4, keys from {'', '/', '~', '~0', '~1', '%', ' ', 'é', '0', '-', 'a/b~c', '%25'}; "
        "every leaf carries a unique const mark and is referenced by '#'+percent-encoded RFC 6901 pointer; plus one invalid pointer "
        "per op in a second stream (bad escapes, leading zeros, '-', '+0', out of range, through non-schema values, absent keywords, a real location with one keyword spelled as the Go field name of the Schema struct: Defs, AllOf, ItemsArray, DependencySchemas, ...); 15 % of the "
        "references in an equivalent over-encoded spelling (unreserved characters, '~' and the separator '/' itself as %2F: decoding "
        "precedes the split into segments); member names with a raw '/' beside a sibling whose name is a prefix of it (`a`, `a/not`), "
        "addressed raw (#/$defs/a/not: the location inside a, or nothing), escaped (#/$defs/a~1not: the member) and over-encoded. "
        "Non-trivial: every op (>= 1 pointer reference); distinct = operation text")
TRUSTED = ["python rendering of RFC 6901 pointers + RFC 3986 fragment percent-encoding for the expected targets"]

KEYS = ["", "/", "~", "~0", "~1", "%", " ", "é", "0", "-", "a/b~c", "%25", "x", "01", "a b", "a+b", "+", "c++", "a&b=c", "?", "#",
        "a#b", "\"", "\\", "%2F", "%7E0", "~01", "~10", "日本", "😀", "a b+c", ":", "@", "!$'()*,;", "[0]", "{x}", "^a|b$", "\t", "1e0", "-0", "x/ü", "~é", "日/本~x", "é~0é", "a~b/Ł", "x/A"]
# patternProperties keys are also regular expressions: only keys that are valid patterns (and that the driver's matcher reads)
PKEYS = ["", "/", "~", "~0", "~1", "%", " ", "é", "0", "-", "a/b~c", "%25", "x", "01", "a b", "a+b", "a&b=c", "#", "a#b", "\"", "%2F",
         "%7E0", "~01", "~10", "日本", ":", "@", "1e0", "-0", "a b+c"]
ONE_2020 = ["additionalProperties", "contains", "contentSchema", "else", "if", "items", "not", "propertyNames", "then",
            "unevaluatedItems", "unevaluatedProperties"]
MANY_2020 = ["allOf", "anyOf", "oneOf", "prefixItems"]
MAP_2020 = ["$defs", "dependentSchemas", "patternProperties", "properties"]
ONE_7 = ["additionalProperties", "additionalItems", "contains", "else", "if", "items", "not", "propertyNames", "then"]
MANY_7 = ["allOf", "anyOf", "oneOf", "items"]
MAP_7 = ["definitions", "dependencies", "patternProperties", "properties"]


def skeleton(rng, draft, depth, marks, path, locs):
    """Returns a schema object; appends (pointer segments, mark) for every leaf to locs."""
    if depth <= 0 or rng.random() < 0.25:
        m = "L%d" % len(marks)
        marks.append(m)
        locs.append((list(path), m))
        return Obj([("const", m)])
    one, many, mp = (ONE_2020, MANY_2020, MAP_2020) if draft == "2020" else (ONE_7, MANY_7, MAP_7)
    o = Obj()
    used = set()
    for _ in range(rng.randint(1, 3)):
        r = rng.random()
        if r < 0.35:
            kw = rng.choice(one)
            if kw in used or (kw == "items" and "items" in used):
                continue
            used.add(kw)
            o.set(kw, skeleton(rng, draft, depth - 1, marks, path + [kw], locs))
        elif r < 0.65:
            kw = rng.choice(many)
            if kw in used:
                continue
            used.add(kw)
            o.set(kw, [skeleton(rng, draft, depth - 1, marks, path + [kw, str(i)], locs) for i in range(rng.randint(1, 3))])
        else:
            kw = rng.choice(mp)
            if kw in used:
                continue
            used.add(kw)
            ks = rng.sample(PKEYS if kw == "patternProperties" else KEYS, rng.randint(1, 3))
            o.set(kw, Obj([(k, skeleton(rng, draft, depth - 1, marks, path + [kw, k], locs)) for k in ks]))
    if not o.kvs:
        return skeleton(rng, draft, 0, marks, path, locs)
    return o


def over_encode(f, rng, p=0.3):
    """An equivalent spelling of the fragment f: characters that need no encoding are percent-encoded anyway (RFC 3986 §2.3 / 6.2.2.2),
    INCLUDING the '/' that separates the pointer's segments (%2F, %2f) and the '~' of the pointer escapes; existing escapes change case.
    RFC 6901 §6: the fragment is percent-decoded first and the result is the pointer, so every such spelling names the same location
    (an encoded slash IS a separator; a '/' inside a key is written ~1 — possibly %7E1 — never %2F)."""
    out, i = [], 0
    while i < len(f):
        c = f[i]
        if c == "%":
            out.append(f[i:i + 3].lower() if rng.random() < 0.5 else f[i:i + 3])
            i += 3
            continue
        if ord(c) < 128 and rng.random() < p:
            e = "%%%02X" % ord(c)
            out.append(e.lower() if rng.random() < 0.3 else e)
        else:
            out.append(c)
        i += 1
    return "".join(out)


def render(segs, rng=None):
    """'#' + the RFC 6901 pointer as a URI fragment. With rng: sometimes percent-encode characters that need no encoding
    (an equivalent reference; the library must decode it the same way)."""
    f = frag_encode("".join("/" + ptr_escape(s) for s in segs))
    if rng is not None and rng.random() < 0.15:
        f = over_encode(f, rng)
    return "#" + f


BAD = ["#/$defs/S/~2", "#/$defs/S/~", "#/$defs/S/nosuch", "#/$defs/S/allOf/01", "#/$defs/S/allOf/-", "#/$defs/S/allOf/99",
       "#/$defs/S/allOf/+0", "#/$defs/S/allOf/-0", "#/$defs/S/allOf/0x0", "#/$defs/S/allOf/ 0", "#/$defs/S/allOf", "#/$defs/S/required/0",
       "#/$defs/S/type", "#/$defs/S/enum/0", "#/$defs/S/const", "#/$defs/S/not", "#/$defs/S/if/then", "#/$defs/S/properties",
       "#/$defs/S/properties/nosuch", "#/$defs/S/title", "#/$defs/S/minimum", "#/$defs/S/allOf/0/", "#/$defs/S//", "#/$defs/S/%zz",
       "#/$defs/S/allOf/1e0", "#/$defs/S/allOf/０", "#/$defs", "#/$defs/S/items/0", "#/$defs/S/dependentRequired/a", "#/$defs/S/default",
       "#/$defs/S/examples/0", "#/$defs/S/$vocabulary/x", "#/$defs/S/Items", "#/$defs/S/allof/0",
       # indices that wrap onto 0 / 1 in 64-bit and 32-bit arithmetic, or overflow strconv
       "#/$defs/S/allOf/18446744073709551616", "#/$defs/S/allOf/18446744073709551617", "#/$defs/S/allOf/4294967296",
       "#/$defs/S/allOf/4294967297", "#/$defs/S/allOf/9223372036854775808", "#/$defs/S/allOf/36893488147419103232",
       "#/$defs/S/allOf/340282366920938463463374607431768211456", "#/$defs/S/allOf/00", "#/$defs/S/allOf/0.0", "#/$defs/S/allOf/1_0",
       "#/$defs/S/allOf/%30%30", "#/$defs/S/allOf/0%20", "#/$defs/S/allOf/", "#/$defs/S/allOf/0/x", "#/$defs/S/allOf/0~0",
       "#$defs/S", "#//$defs/S", "#/$defs/S/allOf/0#", "#/$defs/s", "#/$DEFS/S"]


def go_named(rng, root, segs, gonames):
    """The valid location `segs` of `root` with ONE keyword-position segment replaced by the name of the Go struct field that holds
    that keyword (`$defs` -> Defs, `allOf` -> AllOf, array-form `items` -> ItemsArray, schema-valued `dependencies` -> DependencySchemas;
    the table is the real field table of jsonschema.Schema, asked from the harness). Pointer tokens are JSON member names:
    a Go field name is no member of the document, the pointer names no location. Returns segments or None."""
    cur, kwpos, i = root, [], 0
    while i < len(segs) and isinstance(cur, Obj):
        kw = segs[i]
        val = cur.get(kw)
        if kw == "items":
            g = ["ItemsArray"] if isinstance(val, list) else ["Items"]
        elif kw == "dependencies":
            g = ["DependencySchemas"]
        else:
            g = gonames.get(kw, [])
        g = [x for x in g if x != kw]
        if g:
            kwpos.append((i, g))
        i += 1
        if isinstance(val, list):
            val = val[int(segs[i])] if i < len(segs) else None
            i += 1
        elif isinstance(val, Obj) and (kw in MAP_2020 or kw in MAP_7):
            val = val.get(segs[i]) if i < len(segs) else None
            i += 1
        cur = val
    if not kwpos:
        return None
    i, g = rng.choice(kwpos)
    out = list(segs)
    out[i] = rng.choice(g)
    if rng.random() < 0.2:
        out = out[:i + 1 + rng.randint(0, len(out) - i - 1)]      # ... or a prefix ending at / shortly below the Go-named segment
    return out


def go_field_names(fields):
    """JSON keyword -> Go field names of the Schema struct (from the harness's field table; static fallback for the union members)."""
    t = {}
    for f in fields or []:
        tag = (f.get("tag") or "").split(",")[0]
        if tag and tag != "-":
            t.setdefault(tag, []).append(f["name"])
    t.setdefault("items", ["Items", "ItemsArray"])
    t.setdefault("dependencies", ["DependencySchemas"])
    return t


def gen(rng, tier, n):
    ops = []
    try:
        from .. import core, gen_schemaval
        gonames = go_field_names(gen_schemaval.fetch_fields(core))
    except Exception:
        gonames = go_field_names([{"name": a, "tag": b} for a, b in (("Defs", "$defs"), ("Definitions", "definitions"), ("AllOf", "allOf"),
                                  ("AnyOf", "anyOf"), ("OneOf", "oneOf"), ("Not", "not"), ("Properties", "properties"), ("If", "if"),
                                  ("PrefixItems", "prefixItems"), ("Contains", "contains"), ("AdditionalProperties", "additionalProperties"))])
    while len(ops) < n:
        draft = "2020" if rng.random() < 0.6 else "7"
        defs_kw = "$defs" if draft == "2020" else "definitions"
        if rng.random() < 0.06:
            # member names with a raw '/' beside a sibling whose name is a prefix of it; pointers in canonical and over-encoded spelling
            # (%2F for a separator): '#/$defs/a%2Fnot' is the LOCATION /$defs/a/not, never the member named 'a/not'
            sp = (lambda ptr: over_encode(frag_encode(ptr), rng, rng.choice([0.1, 0.3, 0.6]))) if rng.random() < 0.6 else None
            args, meta = gen_refs.slash_defs(rng, draft, spell=sp, where=rng.choice(["root", "root", "embedded"]))
            ops.append({"op": "validate", "args": args, "meta": meta})
            continue
        marks, locs = [], []
        sk = skeleton(rng, draft, rng.choice([1, 2, 3, 4 if tier == "thorough" else 3]), marks, [defs_kw, "S"], locs)
        bad = rng.random() < 0.25
        props = Obj()
        expect, insts = [], []
        chosen = rng.sample(locs, min(len(locs), 4))
        for i, (segs, m) in enumerate(chosen):
            props.kvs.append(("r%d" % i, Obj([("$ref", render(segs, rng))])))
            for mm in set([m] + rng.sample(marks, min(2, len(marks)))):
                insts.append(Obj([("r%d" % i, mm)]))
                expect.append(mm == m)
        root = Obj(([("$schema", "http://json-schema.org/draft-07/schema#")] if draft == "7" else []) + [(defs_kw, Obj([("S", sk)]))])
        if draft == "7" and len(locs) >= 2 and rng.random() < 0.3:
            # a fragment-only $id is a plain-name anchor in draft-07, whatever it looks like: one leaf is *named* like the pointer of
            # another location. A '#/...' reference is still a JSON Pointer and must select the location, not the name-bearer.
            (sa, _), (sb, _) = rng.sample(locs, 2)
            leaf = root
            for seg in sa:
                leaf = leaf.get(seg) if isinstance(leaf, Obj) else leaf[int(seg)]
            if isinstance(leaf, Obj):
                leaf.set("$id", render(sb))
        emb = (not bad) and rng.random() < 0.3
        if emb:
            # an embedded resource: '#' + pointer inside it is relative to ITS root (the empty pointer '#' is the resource itself,
            # not the document); the same pointers are also written against the resource's absolute URI from outside
            locs2 = []
            sk2 = skeleton(rng, draft, rng.choice([1, 2]), marks, [defs_kw, "T"], locs2)
            eprops = Obj([("self", Obj([("$ref", "#")]))])
            for i, (segs, m) in enumerate(rng.sample(locs2, min(len(locs2), 2))):
                eprops.kvs.append(("q%d" % i, Obj([("$ref", render(segs, rng))])))
                props.kvs.append(("x%d" % i, Obj([("$ref", "http://x.test/emb/e.json" + render(segs, rng))])))
                for mm in set([m] + rng.sample(marks, min(2, len(marks)))):
                    insts += [Obj([("e", Obj([("q%d" % i, mm)]))]), Obj([("e", Obj([("self", Obj([("q%d" % i, mm)]))]))]), Obj([("x%d" % i, mm)]),
                              Obj([("selfroot", Obj([("e", Obj([("q%d" % i, mm)]))]))])]
                    expect += [mm == m] * 4
            for i, (segs, m) in enumerate(chosen[:2]):
                # a property name of the ROOT below the embedded resource's '#': unconstrained there
                insts += [Obj([("e", Obj([("self", Obj([("r%d" % i, "nomark")]))]))]), Obj([("selfroot", Obj([("r%d" % i, "nomark")]))])]
                expect += [True, False]
            E = Obj([("$id", "emb/e.json"), (defs_kw, Obj([("T", sk2)])), ("properties", eprops)])
            root.get(defs_kw).set("E", E)
            root.set("$id", "http://x.test/root.json")
            props.kvs.append(("e", Obj([("$ref", "emb/e.json")])))
            props.kvs.append(("selfroot", Obj([("$ref", "#")])))
        if bad:
            if isinstance(sk, Obj) and sk.get("allOf") is None and sk.get("const") is None:
                sk.set("allOf", [Obj([("const", "zz")])])
                sk.set("required", ["a"])
                sk.set("enum", [Num("1")])
            keys = set(sk.keys()) if isinstance(sk, Obj) else set()
            while True:
                b = rng.choice(BAD)
                rest = b[len("#/$defs/S/"):] if b.startswith("#/$defs/S/") else ""
                first = rest.split("/")[0]
                if first in ("not", "if", "items", "properties", "default", "examples", "title") and first in keys and not rest.endswith("nosuch"):
                    continue
                break
            b = b.replace("$defs", defs_kw)
            if rng.random() < 0.3:
                # a real location, one keyword segment spelled as the Go field name of the Schema struct instead of the JSON name
                gs_ = go_named(rng, root, rng.choice(locs)[0], gonames)
                if gs_ is not None:
                    b = render(gs_)
            props.kvs.append(("bad", Obj([("$ref", b)])))
        root.set("properties", props)
        ops.append({"op": "validate", "args": {"schema": root, "insts": insts},
                    "meta": {"expect": None if bad else expect, "expect_outcome": "resolve-error" if bad else "resolved", "nptr": len(chosen)}})
    return ops


def nontrivial(o):
    return True


def judge(o, go, m):
    st, d = vjudge.judge_validate(o, go, m)
    me = o.get("meta") or {}
    if st == "agree" and me.get("expect_outcome") == "resolve-error" and go.get("outcome") != "resolve-error":
        return "violation:expected", "a pointer that names no subschema location was accepted by both the real package and the model"
    return st, d
