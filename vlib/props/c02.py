"""C02 — draft-07 schemas are validated with draft-07 semantics."""
from .. import gen_schema as gs
from .. import suite, vjudge
from ..wire import Obj

ID = "C02"
N_QUICK = 5000
N_THOROUGH = 100000
LEAN_MODULES = ["JSV.Props.C02"]
def PREFILTER(o, m):
    if o["op"] == "decorate":
        mo = (m or {}).get("model") or {}
        return bool(mo) and not (vjudge.has_fuel(mo.get("a")) or vjudge.has_fuel(mo.get("b")))
    return vjudge.prefilter(o, m)


RULE = ("the 913 official draft-07 cases first, then generated draft-07 documents (definitions, dependencies in both forms, items in "
        "both forms, additionalItems, $id-as-anchor, $ref with siblings) x 6 instances, roots declaring each supported and several "
        "unsupported $schema values, remote documents with and without their own $schema referenced from the root or from a "
        "subschema; 6 %: such chains with drafts drawn to differ (draft-07 root, loaded documents declaring or inheriting 2020-12, and vice versa) "
        "and a $ref with a sibling (not: {}, type, const, ...) at a subschema position of the loaded document (additionalProperties, items, ...); fan-in: one shared definition of failing-and-swallowed $ref alternatives applied 2..16 times at one instance location; "
        "~3 %: pairs (draft-07 document, the same document plus minContains / maxContains / unevaluatedItems / unevaluatedProperties / "
        "$dynamicRef — dangling or not, with or without $dynamicAnchor) x 9 instances, which must get the same outcome of Resolve and "
        "equal verdicts (keywords of later drafts are unknown keywords under draft-07). "
        "Non-trivial: >= 2 keywords or a remote document; distinct = distinct operation text")
TRUSTED = ["regular expressions are a parameter of the model"]
ASSUMPTIONS = ["draft-07 vocabulary, plus minContains / maxContains / unevaluatedItems / unevaluatedProperties / $dynamicRef as unknown "
               "keywords (ignored: Spec.vocab, C02.draft7_ignores_later_keywords, C02.draft7_ignores_dynamicRef); the other 2020-12-only "
               "keywords ($anchor, $dynamicAnchor, prefixItems, dependentRequired, dependentSchemas) are outside the quantifier"]

SCHEMA_VALUES = [None, gs.D2020_URI] + gs.D7_URIS + [
    "http://json-schema.org/draft-07/schema", "https://json-schema.org/draft-07/schema", "http://json-schema.org/draft-06/schema#",
    "http://json-schema.org/draft-04/schema#", "https://json-schema.org/draft/2019-09/schema", "HTTP://json-schema.org/draft-07/schema#",
    "https://json-schema.org/draft/2020-12/schema#", "x"]


def remote_case(rng, mixed=False):
    """A draft-07 (or other) root whose $ref, at the root or in a subschema, loads a document that uses a
    draft-dependent construct (fragment-only $id = anchor in draft-07, error in 2020-12; items array +
    additionalItems; dependencies; a $ref with siblings at any subschema position).
    mixed: the drafts of root and loaded documents are drawn so that they mostly DIFFER (draft-07 root, loaded documents that
    declare 2020-12 or inherit it from a 2020-12 intermediary, and the other way round), and the construct is a $ref with a sibling
    (`not: {}` — with $ref the spelling of `false` plus a reference —, type, const, ...) at a random subschema position of the loaded
    document (additionalProperties, items, properties, ...): whether the sibling counts is decided by the ROOT's draft."""
    rooturi = rng.choice(SCHEMA_VALUES[:4] + [None])
    own = rng.choice([None, None] + gs.D7_URIS + [gs.D2020_URI])
    kind = rng.choice(["idanchor", "itemsarray", "dependencies", "refsiblings"])
    if mixed:
        rooturi = rng.choice(gs.D7_URIS + gs.D7_URIS + [gs.D2020_URI, None])
        own = rng.choice([None, None, gs.D2020_URI, gs.D2020_URI, gs.D2020_URI] + gs.D7_URIS)
        kind = "sibpos"
    if kind == "sibpos":
        _, sib_body, _ = _ref_sibling_body(rng, pos_w={"additionalProperties": 6, "items": 2, "properties": 2}, sib_w={0: 6, 1: 2})
        target = rng.choice([Obj(), True, Obj([("type", "integer")]), Obj([("minLength", gs.Num("1"))]), False, Obj([("type", ["number", "null"])])])
        body = [("definitions", Obj([("t", target)]))] + sib_body
    elif kind == "idanchor":
        body = [("definitions", Obj([("t", Obj([("$id", "#foo"), ("type", "integer")]))])), ("$ref", "#foo")]
        if rng.random() < 0.5:
            body = [("definitions", Obj([("t", Obj([("$id", "#foo"), ("type", "integer")]))])),
                    ("allOf", [Obj([("$ref", "#foo")])])]
    elif kind == "itemsarray":
        body = [("items", [Obj([("type", "integer")])]), ("additionalItems", False)]
    elif kind == "dependencies":
        body = [("dependencies", Obj([("a", ["b"]), ("c", Obj([("required", ["d"])]))]))]
    else:
        body = [("definitions", Obj([("t", Obj([("type", "integer")]))])),
                ("properties", Obj([("a", Obj([("$ref", "#/definitions/t"), ("maximum", gs.Num("2"))]))]))]
    remote = Obj(([("$schema", own)] if own else []) + body)
    uri = "http://x.test/r.json"
    # a chain of documents root -> r.json -> r2.json -> ... : the construct sits in the last one; every link may or may not declare
    # its own $schema (a document without one is read under the draft of the document that referred to it)
    hops = rng.choice([0, 0, 1, 1, 2])
    chain = [[uri, remote]]
    for h in range(hops):
        nxt = "http://x.test/r%d.json" % (h + 2)
        chain[-1][0] = nxt
        link_own = rng.choice([None, None, None] + gs.D7_URIS + [gs.D2020_URI] + ([gs.D2020_URI] * 3 if mixed else []))
        link_body = rng.choice([[("$ref", nxt)], [("allOf", [Obj([("$ref", nxt)])])]])
        chain.insert(len(chain) - 1, None)
        chain[-2] = ["http://x.test/r.json" if h == 0 else "http://x.test/r%d.json" % (h + 1), Obj(([("$schema", link_own)] if link_own else []) + link_body)]
    ref = Obj([("$ref", uri)])
    where = rng.choice(["root", "props", "allOf", "items", "deep"])
    if where == "root":
        rootbody = [("$ref", uri)]
    elif where == "props":
        rootbody = [("properties", Obj([("p", ref)]))]
    elif where == "allOf":
        rootbody = [("allOf", [ref])]
    elif where == "items":
        rootbody = [("items", ref)]
    else:
        rootbody = [("properties", Obj([("p", Obj([("anyOf", [ref, Obj([("type", "null")])])]))]))]
    root = Obj(([("$schema", rooturi)] if rooturi else []) + rootbody)
    insts = [gs.Num("1"), "s", [gs.Num("1"), gs.Num("2")], [gs.Num("1")], Obj([("a", gs.Num("1"))]), Obj([("a", gs.Num("3")), ("b", None)]),
             Obj([("c", None)]), Obj([("p", gs.Num("1"))]), Obj([("p", "s")]), Obj([("p", [gs.Num("1"), "x"])]),
             Obj([("p", Obj([("a", gs.Num("5"))]))]), [[gs.Num("1"), "x"]], [Obj([("a", gs.Num("5"))])]]
    if mixed:
        insts += [Obj([("b", "s"), ("zz", gs.Num("1"))]), Obj([("p", Obj([("q", None)]))]), [Obj([("q", "s"), ("r", gs.Num("2"))])]]
    return {"op": "validate", "args": {"schema": root, "docs": chain, "insts": insts},
            "meta": {"kw": 5, "remote": True, "hops": hops, "mixed_sib": bool(mixed)}}


def _weighted(rng, items, w):
    pool = []
    for i, x in enumerate(items):
        pool += [x] * (w or {}).get(x if isinstance(x, str) else i, 1)
    return rng.choice(pool)


def _ref_sibling_body(rng, pos_w=None, sib_w=None):
    """(target, body, position): the body holds `{"$ref": "#/definitions/t", <sibling>}` at one kind of subschema position.
    pos_w / sib_w: optional weights (by position name / sibling index); the draws are uniform without them."""
    target = rng.choice([Obj(), True, Obj([("type", "integer")]), Obj([("minLength", gs.Num("1"))]), False])
    sib = _weighted(rng, [("not", Obj()), ("not", True), ("type", "null"), ("const", "never"), ("enum", []), ("maxProperties", gs.Num("0")),
                          ("required", ["zz"]), ("maximum", gs.Num("-100")), ("allOf", [False]), ("additionalProperties", False)], sib_w)
    refobj = Obj([("$ref", "#/definitions/t"), sib] if rng.random() < 0.5 else [sib, ("$ref", "#/definitions/t")])
    pos = _weighted(rng, ["additionalProperties", "items", "additionalItems", "properties", "patternProperties", "contains", "propertyNames",
                          "dependencies", "if", "allOf", "anyOf", "oneOf", "not", "root"], pos_w)
    body = {
        "additionalProperties": [("additionalProperties", refobj)],
        "items": [("items", refobj)],
        "additionalItems": [("items", [True]), ("additionalItems", refobj)],
        "properties": [("properties", Obj([("a", refobj)]))],
        "patternProperties": [("patternProperties", Obj([("^a", refobj)]))],
        "contains": [("contains", refobj)],
        "propertyNames": [("propertyNames", refobj)],
        "dependencies": [("dependencies", Obj([("a", refobj)]))],
        "if": [("if", refobj), ("then", Obj([("required", ["b"])])), ("else", Obj([("required", ["c"])]))],
        "allOf": [("allOf", [refobj])], "anyOf": [("anyOf", [refobj, False])], "oneOf": [("oneOf", [refobj])],
        "not": [("not", refobj)], "root": refobj.kvs,
    }[pos]
    return target, body, pos


def ref_sibling_case(rng):
    """draft-07: a $ref object with a sibling that would make it unsatisfiable (or the `false` schema), at every kind of subschema
    position; the siblings are ignored, so only the target decides."""
    target, body, pos = _ref_sibling_body(rng)
    root = Obj([("$schema", rng.choice(gs.D7_URIS)), ("definitions", Obj([("t", target)]))] + body)
    insts = [Obj([("a", gs.Num("1"))]), Obj([("a", "s"), ("b", None)]), Obj(), [gs.Num("1"), "x"], [gs.Num("2")], gs.Num("3"), "str", None,
             Obj([("zz", gs.Num("1")), ("a", gs.Num("2"))]), [], Obj([("c", True)])]
    return {"op": "validate", "args": {"schema": root, "insts": insts}, "meta": {"kw": 4, "refsib": pos}}


D27_KW = ["minContains", "maxContains", "unevaluatedProperties", "unevaluatedItems"]
# finding D28 (fixed): $dynamicRef is a keyword of 2020-12 too; Resolve used to resolve it (and fail when it dangles) and the evaluator
# used to apply it under draft-07
D28_KW = ["$dynamicRef"]


def _dynref_pair(rng, doc, doc2):
    """add a $dynamicRef to doc2 only: to an existing definition, to a definition bearing $dynamicAnchor (by pointer or by the anchor
    name, which draft-07 does not register), or dangling (a plain name, a pointer to nothing, a remote document nobody can load)"""
    form = rng.choice(["pointer", "pointer", "anchor-pointer", "anchor-name", "dangling-name", "dangling-pointer", "dangling-remote"])
    target = rng.choice([Obj([("type", "string")]), Obj([("type", "number")]), False, Obj([("required", ["zz"])])])
    if form in ("pointer", "anchor-pointer", "anchor-name"):
        if form != "pointer":
            target = Obj([("$dynamicAnchor", "da")] + (list(target.kvs) if isinstance(target, Obj) else [("not", True)]))
        for d in (doc, doc2):
            defs = d.get("definitions")
            defs = Obj(list(defs.kvs)) if isinstance(defs, Obj) else Obj()
            defs.set("dx28", target)
            d.set("definitions", defs)
        if rng.random() < 0.3 and form != "pointer":
            # the anchor sits at the root as well (where a 2020-12 validator would start its dynamic scope)
            doc.set("$dynamicAnchor", "da"); doc2.set("$dynamicAnchor", "da")
        ref = "#da" if form == "anchor-name" else "#/definitions/dx28"
    elif form == "dangling-name":
        ref = "#nosuch"
    elif form == "dangling-pointer":
        ref = "#/definitions/nosuch28"
    else:
        ref = "http://nowhere.invalid/absent.json#/x"
    where = rng.choice(["root", "root", "sub"])
    if where == "sub":
        # in a subschema applied to every instance
        sub = Obj([("$dynamicRef", ref)])
        a = list(doc.get("allOf")) if isinstance(doc.get("allOf"), list) else []
        doc.set("allOf", a + [Obj()]); doc2.set("allOf", a + [sub])
    else:
        doc2.set("$dynamicRef", ref)
    return form + "/" + where


def later_draft_case(rng):
    """draft-07: keywords that only LATER drafts define (minContains, maxContains, unevaluatedProperties, unevaluatedItems, $dynamicRef)
    are unknown keywords under draft-07 and must not assert — nor make Resolve fail. The pair (document without them, same document with
    them) must get the same outcome and verdicts. (Finding D27, fixed: the evaluator used to apply these four also when the draft is
    draft-07; it now tests the draft as it does for prefixItems, dependentRequired and dependentSchemas. Finding D28, fixed: resolveRefs
    resolved $dynamicRef — failing on a dangling one — and the evaluator applied it whatever the draft. Lean:
    C02.draft7_ignores_later_keywords, C02.draft7_ignores_dynamicRef.)"""
    c = gs.Ctx(rng, "7", depth=rng.choice([1, 2]))
    doc = gs.gen_document(c, rng.choice(gs.D7_URIS))
    if not isinstance(doc, Obj):
        doc = Obj([("$schema", rng.choice(gs.D7_URIS))])
    doc2 = Obj(list(doc.kvs))
    k = rng.choice(D27_KW + D28_KW + D28_KW)
    if k == "$dynamicRef":
        if doc.get("$ref") is not None:
            # a draft-07 $ref object ignores its siblings anyway: keep the root plain
            doc = Obj([(kk, v) for kk, v in doc.kvs if kk != "$ref"]); doc2 = Obj(list(doc.kvs))
        k = "$dynamicRef:" + _dynref_pair(rng, doc, doc2)
    elif k == "minContains":
        doc.set("contains", Obj([("type", "number")])); doc2.set("contains", Obj([("type", "number")]))
        doc2.set(k, gs.Num(str(rng.choice([0, 2, 3]))))
    elif k == "maxContains":
        doc.set("contains", Obj([("type", "number")])); doc2.set("contains", Obj([("type", "number")]))
        doc2.set(k, gs.Num(str(rng.choice([0, 1]))))
    else:
        doc2.set(k, rng.choice([False, Obj([("type", "string")])]))
    insts = [gs.gen_instance(rng) for _ in range(4)] + [[gs.Num("1"), gs.Num("2")], [gs.Num("1")], ["s"], Obj([("zz", gs.Num("1"))]), []]
    return {"op": "decorate", "args": {"schema": doc, "schema2": doc2, "insts": insts}, "meta": {"kw": 3, "later": k}}


def other_draft_subschema_case(rng):
    """Known finding D29. A keyword of the OTHER draft is an unknown keyword, but the schemas below it are still walked by Resolve
    (checkStructure, resolveURIs, resolveRefs): a dangling $ref below `prefixItems` / `dependentSchemas` in a draft-07 document, or below
    `additionalItems` / `dependencies` in a 2020-12 document, makes Resolve fail, where the same document without the keyword (or with
    a truly unknown keyword holding the same value) resolves. Drawn rarely; the pair must differ exactly as the model (= the code) says."""
    d7 = rng.random() < 0.6
    base = Obj(([("$schema", rng.choice(gs.D7_URIS))] if d7 else []) + [("type", rng.choice(["object", "array", "string"]))])
    doc2 = Obj(list(base.kvs))
    dangling = Obj([("$ref", rng.choice(["#/nosuch", "#nosuchanchor", "#/definitions/zz"]))])
    if d7:
        k = rng.choice(["prefixItems", "dependentSchemas"])
        doc2.set(k, [dangling] if k == "prefixItems" else Obj([("a", dangling)]))
    else:
        k = rng.choice(["additionalItems", "dependencies"])
        doc2.set(k, dangling if k == "additionalItems" else Obj([("a", dangling)]))
    insts = [gs.gen_instance(rng) for _ in range(3)] + [Obj([("a", gs.Num("1"))]), [gs.Num("1")]]
    return {"op": "decorate", "args": {"schema": base, "schema2": doc2, "insts": insts}, "meta": {"kw": 2, "d29": k}}


FAN_LEAVES = [
    (Obj([("type", "string")]), "s"), (Obj([("type", "integer")]), gs.Num("3")), (Obj([("type", "array")]), [gs.Num("1")]),
    (Obj([("type", "object")]), Obj([("a", gs.Num("1"))])), (Obj([("type", "null")]), None), (Obj([("type", "boolean")]), True),
    (Obj([("const", "k")]), "k"), (Obj([("minimum", gs.Num("5"))]), gs.Num("7.5")), (Obj([("required", ["z"])]), Obj([("z", None)])),
    (Obj([("maxLength", gs.Num("0"))]), ""), (Obj([("enum", [gs.Num("0"), []])]), []), (Obj([("minItems", gs.Num("2"))]), ["s", "s"]),
]


def fanin_case(rng):
    """Fan-in at ONE instance location: a shared definition `u` that chooses among per-type definitions through $refs whose failures
    are swallowed (anyOf / oneOf / an if-else ladder / not), optionally behind a second shared definition `v` that applies `u` twice,
    and a use site that applies it N times in place (allOf of N $refs, N = 2..16) — at the root, under properties / items /
    additionalProperties, or inside a schema-form dependency. Every application is the same question about the same value, so the verdict
    for N applications is the verdict for one: in particular an instance that matches only a LATE alternative (all earlier $refs fail
    first) stays valid however often failing references were followed on the way."""
    k = rng.randint(2, 5)
    leaves = rng.sample(FAN_LEAVES, k)
    defs = Obj([("t%d" % i, sch) for i, (sch, _) in enumerate(leaves)])
    refs = [Obj([("$ref", "#/definitions/t%d" % i)]) for i in range(k)]
    form = rng.choice(["anyOf", "anyOf", "oneOf", "if", "not"])
    if form in ("anyOf", "oneOf"):
        u = Obj([(form, refs)])
    elif form == "if":
        u = refs[-1]
        for r_ in reversed(refs[:-1]):
            u = Obj([("if", r_), ("then", rng.choice([True, Obj()])), ("else", u)])
    else:
        # valid exactly when every alternative but the last FAILS and the last holds
        u = Obj([("allOf", [Obj([("not", r_)]) for r_ in refs[:-1]] + [refs[-1]])])
    defs.set("u", u)
    tgt = "#/definitions/u"
    if rng.random() < 0.35:
        v = rng.choice([Obj([("allOf", [Obj([("$ref", tgt)]), Obj([("$ref", tgt)])])]),
                        Obj([("anyOf", [refs[0], Obj([("$ref", tgt)])])]),
                        Obj([("if", refs[0]), ("else", Obj([("$ref", tgt)]))])])
        defs.set("v", v)
        tgt = "#/definitions/v"
    n = rng.choice([2, 3, 5, 7, 8, 9, 10, 11, 12, 14, 16])
    uses = [Obj([("$ref", tgt)]) for _ in range(n)]
    if rng.random() < 0.3:
        uses[rng.randrange(n)] = rng.choice([True, Obj([("$ref", "#/definitions/u")]), Obj([("anyOf", [refs[-1], True])])])
    site = Obj([("allOf", uses)])
    where = rng.choice(["root", "root", "props", "items", "addl", "dep"])
    vals = [x for _, x in leaves] + [rng.choice([gs.Num("0.5"), "zz", False, [None, None, None]])]
    # the late alternatives first: they are the ones reached only after failing references
    vals = vals[::-1] if rng.random() < 0.5 else vals
    if where == "root":
        body, insts = site.kvs, vals
    elif where == "props":
        body, insts = [("properties", Obj([("p", site)]))], [Obj([("p", x)]) for x in vals] + [Obj([("q", vals[0])])]
    elif where == "items":
        body, insts = [("items", site)], [[x] for x in vals] + [[vals[0], vals[-1]], []]
    elif where == "addl":
        body, insts = [("additionalProperties", site)], [Obj([("p", x)]) for x in vals] + [Obj([("p", vals[0]), ("q", vals[1])])]
    else:
        body = [("properties", Obj([("p", Obj([("dependencies", Obj([("z", site), ("a", site)]))]))]))]
        insts = [Obj([("p", x)]) for x in vals]
    root = Obj([("$schema", rng.choice(gs.D7_URIS)), ("definitions", defs)] + list(body))
    return {"op": "validate", "args": {"schema": root, "insts": insts}, "meta": {"kw": 4 + k, "fanin": n, "form": form, "where": where}}


def gen(rng, tier, n):
    ops = suite.suite_ops("draft7")
    depth = 3 if tier == "quick" else 4
    while len(ops) < n:
        r = rng.random()
        if r < 0.2:
            if rng.random() < 0.15:
                ops.append(other_draft_subschema_case(rng) if rng.random() < 0.12 else later_draft_case(rng))      # keywords of later drafts under draft-07 (findings D27, D28, fixed): ~3 %
                continue
            ops.append(remote_case(rng))
            continue
        if 0.33 <= r < 0.38:
            ops.append(fanin_case(rng))
            continue
        if 0.38 <= r < 0.44:
            # root and loaded documents of DIFFERENT drafts, a $ref with a sibling somewhere in the loaded document
            ops.append(remote_case(rng, mixed=True))
            continue
        if r < 0.33 and r >= 0.27:
            if rng.random() < 0.3:
                from .. import gen_refs as _gr
                ops.append({"op": "validate", "args": _gr.mixed_cycle(rng), "meta": {"kw": 4, "mixed": True}})
                continue
            if rng.random() < 0.25:
                # draft-07 $id-as-anchor: an $id with a path AND a plain-name fragment defines no plain name in the enclosing resource
                from .. import gen_refs as _gr
                args, meta = _gr.d7_path_fragment_id(rng)
                ops.append({"op": "validate", "args": args, "meta": dict(meta, kw=4)})
                continue
            ops.append(ref_sibling_case(rng))
            continue
        if r < 0.27:
            from .. import gen_refs
            root, docs, base, loader, insts, expect, meta = gen_refs.gen_universe(rng, "7", 3)
            if meta.get("d9"):
                continue      # the class of known finding D9 (listed under C03) is not drawn here
            meta.update({"expect": expect, "kw": 3})
            ops.append({"op": "validate", "args": {"schema": root, "docs": docs, "base": base, "loader": loader, "insts": insts}, "meta": meta})
            continue
        uri = rng.choice(gs.D7_URIS) if r < 0.85 else rng.choice(SCHEMA_VALUES)
        c = gs.Ctx(rng, "7" if uri in gs.D7_URIS else rng.choice(["7", "2020"]), depth=rng.choice([1, 2, depth]))
        doc = gs.gen_document(c, uri)
        insts = [gs.gen_instance(rng) for _ in range(6)]
        ops.append({"op": "validate", "args": {"schema": doc, "insts": insts}, "meta": {"kw": gs.count_keywords(doc)}})
    return ops


def nontrivial(o):
    me = o.get("meta") or {}
    return me.get("kind") == "suite" or me.get("kw", 0) >= 2


def judge(o, go, m):
    if o["op"] == "decorate":
        if go is None or m is None or "model" not in m:
            return "violation:driver", "no answer"
        if go.get("outcome") == "harness-error":
            return "skip", go.get("detail")
        mo = m["model"]
        for side in ("a", "b"):
            st, d = vjudge.judge_validate({"meta": {}}, go.get(side), mo.get(side), compare_targets=False)
            if st.startswith("violation"):
                return st, side + ": " + d
        ga, gb = go.get("a") or {}, go.get("b") or {}
        if (o.get("meta") or {}).get("d29"):
            # known finding D29: both sides already agree with the model (= the code); the listed symptom is exactly "the document with
            # the other draft's keyword fails to resolve, the one without resolves"
            if ga.get("outcome") == "resolved" and gb.get("outcome") == "resolve-error":
                return "known:D29", "a dangling $ref below `%s` (a keyword of the other draft) makes Resolve fail" % (o["meta"]["d29"],)
            if (ga.get("outcome"), ga.get("verdicts")) == (gb.get("outcome"), gb.get("verdicts")):
                return "agree", ""
            return "violation", "D29 pair: %r %r vs %r %r" % (ga.get("outcome"), ga.get("verdicts"), gb.get("outcome"), gb.get("verdicts"))
        if (ga.get("outcome"), ga.get("verdicts")) != (gb.get("outcome"), gb.get("verdicts")):
            # a draft-07 validator ignores the keyword: the two documents must get the same outcome (of Resolve too) and verdicts
            # (findings D27, D28, fixed)
            return "violation:later-draft-keyword", "a keyword of a later draft (%s) asserts under draft-07: %r %r vs %r %r" % (
                (o.get("meta") or {}).get("later"), ga.get("outcome"), ga.get("verdicts"), gb.get("outcome"), gb.get("verdicts"))
        return "agree", ""
    return vjudge.judge_validate(o, go, m)
