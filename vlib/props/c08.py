"""C08 — the verdict does not depend on the Go representation of the instance."""
from .. import gen_schema as gs
from .. import gen_values as gv
from .. import vjudge
from ..wire import Obj, Num

ID = "C08"
N_QUICK = 6000
N_THOROUGH = 120000
LEAN_MODULES = ["JSV.Props.C08"]
PREFILTER = vjudge.prefilter
RULE = ("(schema, JSON value) pairs; the value is realised in its canonical encoding/json decoding and in 3 other randomly chosen exact Go "
        "representations (numeric kind per leaf incl. named types and json.Number, []any / typed slices / arrays, map[string]any / named key "
        "type / typed elements, pointer and interface wrapping); schemas are weighted to the keywords that inspect the instance (type, enum, "
        "const built from the instance or a one-leaf mutation of it, numeric bounds at the value, string lengths, uniqueItems, properties, "
        "required, min/maxProperties, items, contains). Observed on the real package directly: all 4 verdicts equal; and = model. "
        "Non-trivial: the value is a container or a number; distinct = operation text")
RULE += (". Widened (~8%): OBJECT instances whose keys look like numbers (\"1\", \"1.0\", \"1e2\", \"-0\", …) carried by maps of every "
         "string-kind key type — map[string]T, map[MyString]T and map[json.Number]T (encoding/json writes all three as objects) — against "
         "propertyNames (type, minLength / maxLength, pattern, const, enum, numeric bounds), patternProperties, properties, required, "
         "dependentRequired, additionalProperties, min/maxProperties. The model's value language has no json.Number-keyed maps: for those "
         "representations the verdict is compared with the canonical decoding's (the statement itself), for all others also with the model")
RULE += (". Widened (~6%): OBJECT instances carried by maps whose ELEMENT type is a pointer type (map[string]*int, map[MyString]**string, "
         "*map[string]*[]any, …; also one level down, under items / properties) in which about half of the members are JSON null, held as "
         "a directly nil pointer, as a non-nil pointer to a nil pointer, or (element type *any) as a pointer to a nil interface — "
         "against properties whose subschemas tell null from the member type (type, const, enum, false, not), additionalProperties "
         "(false / a schema on null), patternProperties, unevaluatedProperties, required, dependentRequired, min/maxProperties, propertyNames: "
         "a null member is PRESENT and is null whichever map carries it")
RULE += (". Widened (~4%): the number ZERO twice or more in one array (bare or inside otherwise equal arrays / objects), each occurrence "
         "independently float64 / float32 / named-float negative zero or +0, an integer kind, or json.Number 0 / -0 / -0.0 / 0.0 / 0e0, the first "
         "representation being a decoding of a document that spells zeros 0 or -0.0; under uniqueItems (also below not / anyOf / items / "
         "properties), const, enum, contains")
ASSUMPTIONS = ["nil slices, nil maps and struct instances are outside the property's domain"]


def schema_for(rng, j):
    """A schema that looks at j closely."""
    o = Obj()
    for _ in range(rng.randint(1, 3)):
        r = rng.random()
        if r < 0.15:
            o.set("type", rng.choice(gs.TYPES) if rng.random() < 0.6 else rng.sample(gs.TYPES, 2))
        elif r < 0.3:
            vals = [j if rng.random() < 0.5 else gv.mutate_leaf(rng, j)] + [gv.gen_json(rng, 1) for _ in range(rng.randint(0, 2))]
            rng.shuffle(vals)
            o.set("enum", [v for v in vals if gv.float64_ok(v)])
        elif r < 0.42:
            c = j if rng.random() < 0.5 else gv.mutate_leaf(rng, j)
            if gv.float64_ok(c):
                o.set("const", c)
        elif r < 0.55:
            b = j.frac() + rng.choice([0, 0, 1, -1]) if isinstance(j, Num) else None
            if b is not None and gv.is_dyadic_bits(b, 53):
                o.set(rng.choice(["minimum", "maximum", "exclusiveMinimum", "exclusiveMaximum"]), Num(gv.dec(b)))
            else:
                o.set(rng.choice(["minimum", "maximum"]), Num(rng.choice(gs.NUMS)))
        elif r < 0.6:
            o.set("multipleOf", Num(rng.choice(gs.MULTS)))
        elif r < 0.68:
            o.set(rng.choice(["minLength", "maxLength"]), Num(str(rng.randint(0, 3))))
        elif r < 0.72:
            o.set("pattern", rng.choice(gs.PATTERNS))
        elif r < 0.8:
            o.set("uniqueItems", True)
        elif r < 0.86:
            o.set("items", schema_for(rng, gv.gen_json(rng, 0)))
        elif r < 0.9:
            o.set("contains", schema_for(rng, gv.gen_json(rng, 0)))
        elif r < 0.95:
            ks = rng.sample(gv.NAMES, 2)
            o.set("properties", Obj([(k, schema_for(rng, gv.gen_json(rng, 0))) for k in ks]))
            if rng.random() < 0.5:
                o.set("additionalProperties", rng.random() < 0.5)
        else:
            o.set(rng.choice(["required"]), rng.sample(gv.NAMES, 1))
            o.set(rng.choice(["minProperties", "maxProperties", "minItems", "maxItems"]), Num(str(rng.randint(0, 3))))
    return o


NUMKEYS = ["1", "1.0", "1e2", "12345", "-0", "0", "1.5", "10", "100", "1E2", "2", "-1", "a", "", "01", "1a", "é"]
NAME_PATTERNS = ["^[0-9]", "[0-9]$", "^[0-9]+$", "\\d", "^1", "e", "\\.", "^.{2}$", "^1$", "^-", "^[^0-9]", "^$", "."]


def names_schema(rng, keys):
    """A schema for property NAMES: it tells strings from numbers, or looks at the spelling."""
    o = Obj()
    for _ in range(rng.choice([1, 1, 2])):
        r = rng.random()
        if r < 0.25:
            o.set("type", rng.choice(["string", "string", "number", "integer", ["string", "null"], ["number", "boolean"]]))
        elif r < 0.45:
            o.set(rng.choice(["minLength", "maxLength"]), Num(str(rng.randint(0, 4))))
        elif r < 0.6:
            o.set("pattern", rng.choice(NAME_PATTERNS))
        elif r < 0.72:
            k = rng.choice(keys + NUMKEYS)
            o.set("const", k if rng.random() < 0.6 or not _numeric(k) else Num(gv.dec(_frac(k))))
        elif r < 0.87:
            vals = []
            for k in rng.sample(keys + NUMKEYS, rng.randint(1, 4)):
                vals.append(k if rng.random() < 0.6 or not _numeric(k) else Num(gv.dec(_frac(k))))
            o.set("enum", vals)
        elif r < 0.95:
            o.set(rng.choice(["minimum", "maximum", "exclusiveMinimum", "exclusiveMaximum"]), Num(rng.choice(["0", "1", "2", "100"])))
        else:
            o.set("not", Obj([("type", "string")]))
    return o


def _numeric(k):
    try:
        _frac(k)
        return k not in ("", "01") and not k.startswith("+")
    except Exception:
        return False


def _frac(k):
    from fractions import Fraction
    return Fraction(k)


def numeric_keys_case(rng):
    keys = rng.sample(NUMKEYS, rng.randint(1, 4))
    et = rng.choice(["mixed", "mixed", "int", "string", "bool"])
    val = {"mixed": lambda: gv.gen_json(rng, 1), "int": lambda: Num(str(rng.randint(-3, 3))), "string": lambda: rng.choice(gv.STRINGS),
           "bool": lambda: rng.random() < 0.5}[et]
    j = Obj([(k, val()) for k in keys])
    if not gv.float64_ok(j):
        return None
    pool = list(dict.fromkeys(keys + NUMKEYS[:6]))       # no name twice: duplicate object keys are outside every property
    o = Obj()
    for _ in range(rng.choice([1, 1, 2, 3])):
        r = rng.random()
        if r < 0.5:
            o.set("propertyNames", names_schema(rng, keys))
        elif r < 0.65:
            ps = rng.sample(NAME_PATTERNS, rng.randint(1, 2))
            o.set("patternProperties", Obj([(p, schema_for(rng, gv.gen_json(rng, 0))) for p in ps]))
            if rng.random() < 0.6:
                o.set("additionalProperties", rng.random() < 0.3)
        elif r < 0.77:
            o.set("required", rng.sample(pool, rng.randint(1, 2)))
        elif r < 0.87:
            o.set("properties", Obj([(k, schema_for(rng, gv.gen_json(rng, 0))) for k in rng.sample(pool, 2)]))
            if rng.random() < 0.5:
                o.set("additionalProperties", rng.random() < 0.3)
        elif r < 0.93:
            o.set("dependentRequired", Obj([(rng.choice(keys), [rng.choice(keys + NUMKEYS[:4])])]))
        else:
            o.set(rng.choice(["minProperties", "maxProperties"]), Num(str(rng.randint(0, 3))))
    if rng.random() < 0.25:
        # the object one level down
        j = rng.choice([[j], Obj([("a", j)])])
        o = Obj([("items", o)]) if isinstance(j, list) else Obj([("properties", Obj([("a", o)]))])
    reprs = [gv.canonical_repr(j)] + [gv.represent_keyed(rng, j, kt) for kt in (("jnum",), ("jnum", "mystring"), ("string", "mystring", "jnum"))]
    return {"op": "validate", "args": {"schema": o, "ginsts": reprs}, "meta": {"nt": True, "numkeys": True}}


PTR_ELEMS = ["int", "int", "string", "float64", "bool", "any", "[]any", "jnum", "map[string]any", "mystring", "uint8", "[]int"]
JTYPE_OF = {"int": "integer", "uint8": "integer", "float64": "number", "jnum": "number", "string": "string", "mystring": "string",
            "bool": "boolean", "[]any": "array", "[]int": "array", "map[string]any": "object"}


def _value_of(rng, et):
    if et in ("int", "uint8", "jnum"):
        return Num(str(rng.randint(0, 5)))
    if et == "float64":
        return Num(rng.choice(["0", "1", "0.5", "-2.25", "3"]))
    if et in ("string", "mystring"):
        return rng.choice(gv.STRINGS)
    if et == "bool":
        return rng.random() < 0.5
    if et == "[]any":
        return [gv.gen_json(rng, 0) for _ in range(rng.randint(0, 2))]
    if et == "[]int":
        return [Num(str(rng.randint(0, 3))) for _ in range(rng.randint(0, 2))]
    if et == "map[string]any":
        return Obj([(k, gv.gen_json(rng, 0)) for k in rng.sample(gv.NAMES, rng.randint(0, 2))])
    return gv.gen_json(rng, 1)


def _null_teller(rng, et, v):
    """A subschema for one member: it tells null from the member's own type, or looks at the value."""
    r = rng.random()
    jt = JTYPE_OF.get(et, rng.choice(gs.TYPES))
    if r < 0.3:
        return Obj([("type", rng.choice([jt, jt, "null", [jt, "null"], rng.choice(gs.TYPES)]))])
    if r < 0.42:
        m = gv.mutate_leaf(rng, v)
        # numbers written into a schema DOCUMENT are read as float64 by Unmarshal: only values that are exactly float64 (section 4.2)
        return Obj([("const", rng.choice([None, v, m if gv.float64_ok(m) else v]))])
    if r < 0.52:
        return Obj([("enum", rng.sample([None, v, Num("0"), "", False, []], rng.randint(1, 3)))])
    if r < 0.62:
        return Obj([("not", Obj([("type", rng.choice(["null", jt]))]))])
    if r < 0.72:
        return rng.random() < 0.5
    if r < 0.8:
        return Obj()
    return schema_for(rng, v)


def pointer_map_case(rng):
    """An object held by a map with POINTER elements; its null members are nil pointers (directly, or behind one more pointer)."""
    et = rng.choice(PTR_ELEMS)
    names = rng.sample(gv.NAMES + ["é", ""], rng.randint(1, 4))
    j = Obj([(k, None if rng.random() < 0.5 else _value_of(rng, et)) for k in names])
    if not gv.float64_ok(j):
        return None
    pool = list(dict.fromkeys(names + gv.NAMES[:2]))
    o = Obj()
    for _ in range(rng.choice([1, 2, 2, 3])):
        r = rng.random()
        if r < 0.5:
            ks = rng.sample(pool, rng.randint(1, min(3, len(pool))))
            o.set("properties", Obj([(k, _null_teller(rng, et, j.get(k) if k in j.keys() and j.get(k) is not None else _value_of(rng, et))) for k in ks]))
            c = rng.random()
            if c < 0.35:
                o.set("additionalProperties", False)
            elif c < 0.55:
                o.set("additionalProperties", _null_teller(rng, et, _value_of(rng, et)))
            elif c < 0.65:
                o.set("unevaluatedProperties", rng.choice([False, Obj([("type", "null")])]))
        elif r < 0.62:
            o.set("required", rng.sample(pool, rng.randint(1, 2)))
        elif r < 0.7:
            o.set("patternProperties", Obj([(rng.choice(["^a", "^[a-c]$", ".", "^$", "^é"]), _null_teller(rng, et, _value_of(rng, et)))]))
            if rng.random() < 0.5:
                o.set("additionalProperties", rng.random() < 0.3)
        elif r < 0.78:
            o.set("dependentRequired", Obj([(rng.choice(names), [rng.choice(pool)])]))
        elif r < 0.86:
            o.set(rng.choice(["minProperties", "maxProperties"]), Num(str(rng.randint(0, 4))))
        elif r < 0.93:
            o.set("propertyNames", Obj([(rng.choice(["minLength", "maxLength"]), Num(str(rng.randint(0, 2))))]))
        else:
            o.set("additionalProperties", _null_teller(rng, et, _value_of(rng, et)))
    reprs = [gv.canonical_repr(j)]
    for _ in range(3):
        T = "map[%s]%s%s" % (rng.choice(["string", "string", "mystring"]), rng.choice(["*", "*", "**"]), et)
        d = gv.represent_as(rng, j, T)
        if d is None:
            return None
        if T.count("*") == 2 or et == "any":
            # a null member may also be a NON-nil pointer to a nil pointer / nil interface
            pt = T[T.index("]") + 1:]
            for kv in d["v"]:
                if kv[1] is not None and kv[1].get("v") is None and rng.random() < 0.5:
                    kv[1] = {"t": pt, "v": {"t": pt[1:], "v": None}}
        if rng.random() < 0.25:
            d = {"t": "*" + d["t"], "v": d}
        reprs.append(d)
    if rng.random() < 0.3:
        # the object one level down: as an interface element of []any / map[string]any, or as the element of a typed slice
        if rng.random() < 0.5:
            j2, o = [j], Obj([("items", o)])
            reprs = [{"t": "[]any" if i == 0 or rng.random() < 0.5 else "[]" + d["t"], "v": [d]} for i, d in enumerate(reprs)]
        else:
            j2, o = Obj([("a", j)]), Obj([("properties", Obj([("a", o)]))])
            reprs = [{"t": "map[string]any" if i == 0 or rng.random() < 0.5 else "map[string]" + d["t"], "v": [["a", d]]} for i, d in enumerate(reprs)]
    return {"op": "validate", "args": {"schema": o, "ginsts": reprs}, "meta": {"nt": True, "ptrmap": True}}


def zero_case(rng):
    """0 and -0 in ONE array (gv.zero_array), under uniqueItems (at the root, below not / items / properties) or const / enum / contains."""
    j, reprs = gv.zero_array(rng)
    U = Obj([("uniqueItems", True)])
    z = Num("0")
    doc = rng.choice([U, U, U, U, Obj([("not", U)]), Obj([("uniqueItems", True), ("minItems", Num("2"))]),
                      Obj([("anyOf", [U, Obj([("maxItems", Num("1"))])])]), Obj([("const", j)]), Obj([("enum", [[z], j])]),
                      Obj([("contains", Obj([("const", z)])), ("minContains", Num("2"))]), Obj([("items", Obj([("const", j[0])]))])])
    if rng.random() < 0.2:
        doc = Obj([("items", doc)]) if rng.random() < 0.5 else Obj([("properties", Obj([("a", doc)]))])
        reprs = [{"t": "[]any", "v": [d]} if doc.get("items") is not None else {"t": "map[string]any", "v": [["a", d]]} for d in reprs]
    return {"op": "validate", "args": {"schema": doc, "ginsts": reprs}, "meta": {"nt": True, "zeros": True}}


def gen(rng, tier, n):
    ops = []
    while len(ops) < n:
        if rng.random() < 0.04:
            ops.append(zero_case(rng))
            continue
        if rng.random() < 0.06:
            o = pointer_map_case(rng)
            if o is not None:
                ops.append(o)
            continue
        if rng.random() < 0.08:
            o = numeric_keys_case(rng)
            if o is not None:
                ops.append(o)
            continue
        j = gv.gen_json(rng, 3 if tier == "quick" else 4)
        if not gv.float64_ok(j):
            continue
        if isinstance(j, list) and rng.random() < 0.4 and len(j) >= 1:
            # duplicates that are equal but not identical
            j = j + [rng.choice(j)]
        r = rng.random()
        if r < 0.12:
            # the same JSON value several times in one array, each occurrence in its own representation (json.Number spellings,
            # typed arrays, pointers), under uniqueItems / const / enum / contains
            x = gv.gen_json(rng, 1)
            if rng.random() < 0.35:
                # word boundaries that are exactly float64 (and float32): every numeric kind that holds them must agree
                x = Num(rng.choice(["9223372036854775808", "-9223372036854775808", "18446744073709551616", "9007199254740992",
                                    "4294967296", "2147483648", "-2147483648", "16777216", "4611686018427387904", "1073741824",
                                    "0.00000095367431640625", "9223372036854774784"]))
                if rng.random() < 0.4:
                    x = rng.choice([[x], Obj([("a", x)])])
            while not gv.float64_ok(x):
                x = gv.gen_json(rng, 1)
            j = [x, x] + ([gv.gen_json(rng, 0)] if rng.random() < 0.3 else [])
            if not gv.float64_ok(j):
                continue
            doc = Obj([rng.choice([("uniqueItems", True), ("const", [x, x]), ("enum", [[x], [x, x]]),
                                   ("items", Obj([("const", x)])), ("contains", Obj([("enum", [x])])) ])])
        elif r < 0.16 and isinstance(j, Num) and j.frac().denominator == 1 and abs(j.frac()) >= 2**53:
            # float multipleOf on large integers: outside the model's domain, but every representation must agree with the canonical one
            doc = Obj([("multipleOf", Num(rng.choice(["3", "7", "10", "1.5", "6", "1000"])))])
        elif r < 0.2 and isinstance(j, Num) and j.frac().denominator == 1 and abs(j.frac()) >= 2**53:
            doc = Obj([(rng.choice(["minimum", "exclusiveMinimum", "maximum", "exclusiveMaximum"]),
                        Num(rng.choice(["0", "-1", "9223372036854774784", "9223372036854775808", "1e19"])))])
        elif r < 0.84:
            doc = schema_for(rng, j)
        else:
            doc = gs.gen_document(gs.Ctx(rng, "2020", depth=2))
        reprs = [gv.canonical_repr(j)] + [gv.represent(rng, j) for _ in range(3)]
        ops.append({"op": "validate", "args": {"schema": doc, "ginsts": reprs},
                    "meta": {"nt": isinstance(j, (list, Obj, Num))}})
    return ops


def nontrivial(o):
    return (o.get("meta") or {}).get("nt", False)


def _jnum_keyed(d):
    """does the descriptor contain a map whose key type is json.Number (no counterpart in the model's value language)?"""
    if isinstance(d, dict):
        if isinstance(d.get("t"), str) and "map[jnum]" in d["t"]:
            return True
        return _jnum_keyed(d.get("v"))
    if isinstance(d, list):
        return any(_jnum_keyed(x) for x in d)
    return False


def judge(o, go, m):
    gi = o["args"].get("ginsts") or []
    unm = [i for i, d in enumerate(gi) if _jnum_keyed(d)]
    if unm and go is not None and go.get("outcome") == "resolved" and m and (m.get("model") or {}).get("outcome") == "resolved":
        # representations the model cannot express (json.Number-keyed maps): everything else is judged against the model as usual,
        # on the operation restricted to the other representations; those get the statement's own oracle below
        keep = [i for i in range(len(gi)) if i not in unm]
        pick = lambda xs: [xs[i] for i in keep] if isinstance(xs, list) and len(xs) == len(gi) else xs
        o2 = dict(o, args=dict(o["args"], ginsts=pick(gi)))
        go2 = dict(go, verdicts=pick(go.get("verdicts")))
        m2 = dict(m, model=dict(m["model"], verdicts=pick(m["model"].get("verdicts"))), spec=pick(m.get("spec")))
        st, d = vjudge.judge_validate(o2, go2, m2)
        if st not in ("agree", "skip"):
            return st, d
        vs = go.get("verdicts") or []
        if "panic" in vs:
            return "violation", "the real package panics on a representation: %r" % (vs,)
        if vs and any(v != vs[0] for v in vs):
            return "violation", "verdict depends on the representation: %r (first = canonical decoding)" % (vs,)
        return st, d
    st, d = vjudge.judge_validate(o, go, m)
    if st == "skip" and go is not None and go.get("outcome") == "resolved":
        # outside the model's domain (float multipleOf beyond 2^50): the property itself is still observed on the real package —
        # every representation must get the verdict of the canonical decoding, whatever that verdict is
        vs = go.get("verdicts") or []
        if vs and any(v != vs[0] for v in vs):
            return "violation", "verdict depends on the representation: %r (first = canonical decoding)" % (vs,)
        return st, d
    if st != "agree":
        return st, d
    vs = go.get("verdicts") or []
    if vs and any(v != vs[0] for v in vs):
        return "violation", "verdict depends on the representation: %r (first = canonical decoding)" % (vs,)
    return st, d
