"""C08 — the verdict does not depend on the Go representation of the instance."""
from .. import gen_schema as gs
from .. import gen_values as gv
from .. import vjudge
from ..wire import Obj, Num

ID = "C08"
N_QUICK = 6000
N_THOROUGH = 120000
LEAN_MODULES = ["JSV.Props.C08"]
PREFILTER = vjudge.prefilter
RULE = ("(schema, JSON value) pairs; the value is realised in its canonical encoding/json decoding and in 3 other randomly chosen exact Go "
        "representations (numeric kind per leaf incl. named types and json.Number, []any / typed slices / arrays, map[string]any / named key "
        "type / typed elements, pointer and interface wrapping); schemas are weighted to the keywords that inspect the instance (type, enum, "
        "const built from the instance or a one-leaf mutation of it, numeric bounds at the value, string lengths, uniqueItems, properties, "
        "required, min/maxProperties, items, contains). Observed on the real package directly: all 4 verdicts equal; and = model. "
        "Non-trivial: the value is a container or a number; distinct = operation text")
ASSUMPTIONS = ["nil slices, nil maps and struct instances are outside the property's domain"]


def schema_for(rng, j):
    """A schema that looks at j closely."""
    o = Obj()
    for _ in range(rng.randint(1, 3)):
        r = rng.random()
        if r < 0.15:
            o.set("type", rng.choice(gs.TYPES) if rng.random() < 0.6 else rng.sample(gs.TYPES, 2))
        elif r < 0.3:
            vals = [j if rng.random() < 0.5 else gv.mutate_leaf(rng, j)] + [gv.gen_json(rng, 1) for _ in range(rng.randint(0, 2))]
            rng.shuffle(vals)
            o.set("enum", [v for v in vals if gv.float64_ok(v)])
        elif r < 0.42:
            c = j if rng.random() < 0.5 else gv.mutate_leaf(rng, j)
            if gv.float64_ok(c):
                o.set("const", c)
        elif r < 0.55:
            b = j.frac() + rng.choice([0, 0, 1, -1]) if isinstance(j, Num) else None
            if b is not None and gv.is_dyadic_bits(b, 53):
                o.set(rng.choice(["minimum", "maximum", "exclusiveMinimum", "exclusiveMaximum"]), Num(gv.dec(b)))
            else:
                o.set(rng.choice(["minimum", "maximum"]), Num(rng.choice(gs.NUMS)))
        elif r < 0.6:
            o.set("multipleOf", Num(rng.choice(gs.MULTS)))
        elif r < 0.68:
            o.set(rng.choice(["minLength", "maxLength"]), Num(str(rng.randint(0, 3))))
        elif r < 0.72:
            o.set("pattern", rng.choice(gs.PATTERNS))
        elif r < 0.8:
            o.set("uniqueItems", True)
        elif r < 0.86:
            o.set("items", schema_for(rng, gv.gen_json(rng, 0)))
        elif r < 0.9:
            o.set("contains", schema_for(rng, gv.gen_json(rng, 0)))
        elif r < 0.95:
            ks = rng.sample(gv.NAMES, 2)
            o.set("properties", Obj([(k, schema_for(rng, gv.gen_json(rng, 0))) for k in ks]))
            if rng.random() < 0.5:
                o.set("additionalProperties", rng.random() < 0.5)
        else:
            o.set(rng.choice(["required"]), rng.sample(gv.NAMES, 1))
            o.set(rng.choice(["minProperties", "maxProperties", "minItems", "maxItems"]), Num(str(rng.randint(0, 3))))
    return o


def gen(rng, tier, n):
    ops = []
    while len(ops) < n:
        j = gv.gen_json(rng, 3 if tier == "quick" else 4)
        if not gv.float64_ok(j):
            continue
        if isinstance(j, list) and rng.random() < 0.4 and len(j) >= 1:
            # duplicates that are equal but not identical
            j = j + [rng.choice(j)]
        r = rng.random()
        if r < 0.12:
            # the same JSON value several times in one array, each occurrence in its own representation (json.Number spellings,
            # typed arrays, pointers), under uniqueItems / const / enum / contains
            x = gv.gen_json(rng, 1)
            if rng.random() < 0.35:
                # word boundaries that are exactly float64 (and float32): every numeric kind that holds them must agree
                x = Num(rng.choice(["9223372036854775808", "-9223372036854775808", "18446744073709551616", "9007199254740992",
                                    "4294967296", "2147483648", "-2147483648", "16777216", "4611686018427387904", "1073741824",
                                    "0.00000095367431640625", "9223372036854774784"]))
                if rng.random() < 0.4:
                    x = rng.choice([[x], Obj([("a", x)])])
            while not gv.float64_ok(x):
                x = gv.gen_json(rng, 1)
            j = [x, x] + ([gv.gen_json(rng, 0)] if rng.random() < 0.3 else [])
            if not gv.float64_ok(j):
                continue
            doc = Obj([rng.choice([("uniqueItems", True), ("const", [x, x]), ("enum", [[x], [x, x]]),
                                   ("items", Obj([("const", x)])), ("contains", Obj([("enum", [x])])) ])])
        elif r < 0.16 and isinstance(j, Num) and j.frac().denominator == 1 and abs(j.frac()) >= 2**53:
            # float multipleOf on large integers: outside the model's domain, but every representation must agree with the canonical one
            doc = Obj([("multipleOf", Num(rng.choice(["3", "7", "10", "1.5", "6", "1000"])))])
        elif r < 0.2 and isinstance(j, Num) and j.frac().denominator == 1 and abs(j.frac()) >= 2**53:
            doc = Obj([(rng.choice(["minimum", "exclusiveMinimum", "maximum", "exclusiveMaximum"]),
                        Num(rng.choice(["0", "-1", "9223372036854774784", "9223372036854775808", "1e19"])))])
        elif r < 0.84:
            doc = schema_for(rng, j)
        else:
            doc = gs.gen_document(gs.Ctx(rng, "2020", depth=2))
        reprs = [gv.canonical_repr(j)] + [gv.represent(rng, j) for _ in range(3)]
        ops.append({"op": "validate", "args": {"schema": doc, "ginsts": reprs},
                    "meta": {"nt": isinstance(j, (list, Obj, Num))}})
    return ops


def nontrivial(o):
    return (o.get("meta") or {}).get("nt", False)


def judge(o, go, m):
    st, d = vjudge.judge_validate(o, go, m)
    if st == "skip" and go is not None and go.get("outcome") == "resolved":
        # outside the model's domain (float multipleOf beyond 2^50): the property itself is still observed on the real package —
        # every representation must get the verdict of the canonical decoding, whatever that verdict is
        vs = go.get("verdicts") or []
        if vs and any(v != vs[0] for v in vs):
            return "violation", "verdict depends on the representation: %r (first = canonical decoding)" % (vs,)
        return st, d
    if st != "agree":
        return st, d
    vs = go.get("verdicts") or []
    if vs and any(v != vs[0] for v in vs):
        return "violation", "verdict depends on the representation: %r (first = canonical decoding)" % (vs,)
    return st, d
