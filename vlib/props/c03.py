"""C03 — every $ref reaches the subschema the specification designates."""
from .. import gen_refs, vjudge

ID = "C03"
N_QUICK = 6000
N_THOROUGH = 150000
LEAN_MODULES = ["JSV.Props.C03"]


def PREFILTER(o, m):
    # operations judged by the python oracle alone (op validate-go: the driver does not know it, the model is not evaluated) are
    # guarded by construction: every reference cycle of registry_alias passes through `properties`
    if (o.get("meta") or {}).get("oracle"):
        return True
    return vjudge.prefilter(o, m)


RULE = ("universes of 1..4 documents (root + Loader documents) with embedded resources ($id relative/absolute/urn), anchors, refs "
        "in every syntactic form (fragment, pointer, anchor, relative path with ./ and ../, absolute path, network path, absolute "
        "URI, canonical-id vs retrieval-URI alias), BaseURI empty/absolute/urn, Loader present/absent, Loader failures on subsets; "
        "targets carry unique const marks; expected verdicts by construction (urllib RFC 3986) where predictable; also net/url vs "
        "model on (base, ref) pairs; definitions whose NAME contains a raw '/' beside a sibling whose name is a prefix of it (`a` and `a/not`): "
        "the raw pointer #/$defs/a/not selects a's subschema (or nothing), #/$defs/a~1not the member; ~5 %: two or three DISTINCT resources (embedded or "
        "Loader documents) whose URIs are near twins — trailing slash, empty path segment, one character percent-encoded (%2F, %3A, %7E ...) — "
        "each referenced, each reference must reach its own member; in draft-07 universes also $id with an empty fragment (`x.json#`: still a "
        "base URI), `$id`s with both a path and a plain-name fragment (`item.json#node`, ~4 %: no plain name `node` in the enclosing resource; `#node` "
        "designates the `$id: #node` declared before / after it or nothing) and `$id: #name` beside `$ref` (ignored: designates nothing, shadows nothing); ~5 %: references that are a query and no path (`?v=2#/$defs/t`, `?rev=7#A`, `?x`): the base's "
        "path with its query replaced — an embedded resource, a Loader document, or nothing (Resolve fails); REGISTRY universes (~3 %, op "
        "validate-go): a Loader that serves ONE parsed *Schema object under two URLs (/v1/ and /latest/), including the object being "
        "resolved, which refers to itself through the alias URL and to siblings by relative $ref — such a Loader is outside the Lean model "
        "(resolve_sound assumes LoaderFresh; one info table), so these operations are NOT sent to the model: they are judged by the "
        "python oracle of the statement alone (each reference written in the document designates what RFC 3986 resolution against the URL "
        "the caller knows the document by — BaseURI / the referring $ref — gives; no Loader URI twice; every designated document "
        "requested). Non-trivial: >= 1 reference to a marked target; distinct = distinct operation text")
TRUSTED = ["python urllib.parse.urljoin as an independent RFC 3986 resolver for the expected verdicts"]
ASSUMPTIONS = ["no two equal anchors / $ids in one resource", "URIs without userinfo, hosts [a-z0-9.-]+",
               "model comparison only for Loaders that return fresh objects per URI (LoaderFresh); for a Loader that hands out one object "
               "under two URLs only the paths whose designation does not depend on the URL the shared object was entered by are observed "
               "(the document's own references under the URL the caller knows it by; absolute / fragment-only references through the alias), "
               "by the python oracle"]

URI_BASES = ["", "http://x.test/d/root.json", "http://x.test/d/", "http://x.test", "https://h.test/a/b/c.json?q=1", "urn:example:root",
             "http://x.test/d/root.json#frag", "file:///a/b", "http://x.test/a/../b/./c.json", "file:/a/b", "http://[::1]:80/d/r.json"]
URI_REFS = ["", "#", "#a", "#/a/b", "a.json", "./a.json", "../a.json", "../../a.json", "/a.json", "//o.test/a.json", "http://o.test/z.json",
            "a.json#x", "?q=2", "a/b/../c.json", "./", "../", ".", "..", "a//b.json", ".//a.json", "#a%20b", "#%zz", "a b.json", "%41.json",
            "urn:example:x", "urn:example:x#a", "HTTP://X.test/a", ":bad", "1:b", "a:b", "#é", "é.json", "a.json?x#y", "/..//a", "#/a~1b/~0",
            "g;x", "g?y/./x", "../../../g", "/./g", "g.", ".g", "..g", "./g/.", "g/./h", "g/../h", "#/%25", "#/a%2Fb",
            # hosts net/url accepts or refuses (parseHost: brackets, ports, escapes, characters)
            "http://[::1", "http://[::1]/a", "http://[::1]:80/a", "http://[::1]:x/a", "http://[::1]x/a", "http://a:b/", "http://a:/x", "http://a:80/x",
            "http://a:80:90/x", "http://a b/", "http://a%20b/", "http://a%41/", "http://%C3%A9/", "http://a%25b/", "http://a<b>/", "http://é/x",
            "http://[fe80::1%25en0]/x", "http://a]b/", "//[::1", "//a:b", "http://a\"b/", "http://a?b", "http://A.B/x", "http://a/%zz",
            "http://a/b%2Fc", "http://a/b c", "http://:80/x", "http://", "http:", "http:/x", "//", "///x", "////x", "file:/a/b", "file:///a/b", "x:/", "x:/a/../b"]


def gen(rng, tier, n):
    ops = []
    for b in URI_BASES:
        for r in URI_REFS:
            ops.append({"op": "uri", "args": {"base": b, "ref": r}, "meta": {"kind": "uri"}})
    while len(ops) < n:
        r = rng.random()
        if r < 0.03:
            ops.append({"op": "validate", "args": gen_refs.mixed_cycle(rng), "meta": {"kind": "universe", "nrefs": 2, "mixed": True}})
            continue
        if r < 0.06:
            args, meta = gen_refs.registry_alias(rng, "2020" if rng.random() < 0.75 else "7")
            ops.append({"op": "validate-go", "args": args, "meta": meta})
            continue
        if r < 0.11:
            args, meta = gen_refs.slash_defs(rng, "2020" if rng.random() < 0.75 else "7")
            ops.append({"op": "validate", "args": args, "meta": meta})
            continue
        if r < 0.16:
            # near-twin resource URIs (trailing slash, empty segment, one character percent-encoded): distinct resources
            args, meta = gen_refs.twin_universe(rng, "2020" if rng.random() < 0.75 else "7")
            ops.append({"op": "validate", "args": args, "meta": meta})
            continue
        if r < 0.21:
            # references made of a query (and a fragment) only: another resource than the referring one (embedded / Loader / none)
            args, meta = gen_refs.query_universe(rng, "2020" if rng.random() < 0.7 else "7")
            ops.append({"op": "validate", "args": args, "meta": meta})
            continue
        if r < 0.25:
            # draft-07 $ids with both a path and a plain-name fragment: they define no plain name in the enclosing resource
            args, meta = gen_refs.d7_path_fragment_id(rng)
            ops.append({"op": "validate", "args": args, "meta": meta})
            continue
        draft = "2020" if rng.random() < 0.75 else "7"
        root, docs, base, loader, insts, expect, meta = gen_refs.gen_universe(rng, draft, 3 if tier == "quick" else 4)
        meta["expect"] = expect
        meta["kind"] = "universe"
        ops.append({"op": "validate", "args": {"schema": root, "docs": docs, "base": base, "loader": loader, "insts": insts},
                    "meta": meta})
    return ops


def nontrivial(o):
    me = o.get("meta") or {}
    return me.get("kind") == "uri" or me.get("nrefs", 0) >= 1


def judge_oracle(o, go):
    """Operations outside the model (op validate-go): the real package against the generator's expectations (meta.expect: which marked
    target each reference designates; meta.needs: the documents that must have been requested), never against the model."""
    me = o["meta"]
    if go is None:
        return "violation:harness", "no answer from harness"
    if go.get("outcome") == "harness-error":
        return "violation:harness", str(go.get("detail"))
    if go.get("outcome") in ("panic", "timeout", "crash"):
        return "violation", "the real package %s: %s" % (go.get("outcome"), str(go.get("detail"))[:300])
    if go.get("outcome") != "resolved":
        return "violation:expected", "by construction every reference designates a subschema, but the real package reports %s (%s)" % (
            go.get("outcome"), str(go.get("detail"))[:200])
    ev = ["valid" if e else "invalid" for e in me["expect"]]
    if go.get("verdicts") != ev:
        idx = [i for i, (a, b) in enumerate(zip(go.get("verdicts") or [], ev)) if a != b]
        return "violation:expected", "verdicts: real package %r, designated targets (python oracle) %r (instance index %r)" % (go.get("verdicts"), ev, idx)
    log = go.get("log") or []
    if len(set(log)) != len(log):
        return "violation", "the Loader was called twice with one URI: %r" % (log,)
    missing = [u for u in me.get("needs", []) if u not in log]
    if missing:
        return "violation:expected", "designated documents never requested from the Loader: %r (requested: %r)" % (missing, log)
    return "agree", ""


def judge(o, go, m):
    if o["op"] == "uri":
        if go is None or m is None or "model" not in m:
            return "violation:driver", "no answer"
        if go != m["model"]:
            return "violation", "net/url: %r, model: %r" % (go, m["model"])
        return "agree", ""
    me = o.get("meta") or {}
    if me.get("oracle"):
        return judge_oracle(o, go)
    st, d = vjudge.judge_validate(o, go, m)
    if st == "agree" and me.get("expect_outcome") == "resolve-error" and go.get("outcome") != "resolve-error":
        return "violation:expected", "a reference that designates nothing was accepted by both the real package and the model"
    if st == "violation:expected" and me.get("d9"):
        # real package = model here: both ask the Loader for the embedded resource's URI
        return "known:D9", d
    return st, d
