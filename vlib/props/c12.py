"""C12 — enum, const and uniqueItems decide by JSON equality."""
from .. import gen_values as gv
from .. import vjudge
from ..wire import Obj, Num, canon

ID = "C12"
N_QUICK = 8000
N_THOROUGH = 160000
LEAN_MODULES = ["JSV.Props.C12"]
RULE = ("(a) arrays of length 0..12 mixing all JSON types in mixed Go representations, with duplicates planted at random pairs of positions "
        "(identical, or equal-but-not-identical: 1 vs 1.0 vs json.Number('1.00'), objects with permuted keys, typed vs untyped containers) "
        "against {uniqueItems:true}; (b) enum / const built from the instance, a one-leaf mutation or unrelated values; expected verdicts from "
        "a python canonical-form oracle; (c) the hash law through the verif hook: Equal(x,y) => hash(x)=hash(y) under two fresh seeds per op, "
        "compared with the model's byte-stream equality. Every Validate call draws its own seed; shards run in separate processes. "
        "Non-trivial: arrays of length >= 2 / container-valued enum members; distinct = operation text")
RULE += (". Widened (~6%): schemas BUILT IN GO (op resolve-desc) whose enum / const lists a Go slice, validated against an instance that is "
         "a RE-SLICE of that very slice (same backing array, length 0..len+2; harness argument aliasInst), at the root or nested in an "
         "array / object on either side: a shorter or longer window is another JSON value, so only the full length matches")
TRUSTED = ["python canonical-form oracle; 64-bit hash collisions are disregarded"]


def plant(rng, xs):
    """Duplicate an element somewhere (in a different representation when rendered)."""
    if not xs:
        return xs
    i = rng.randrange(len(xs))
    k = rng.randrange(len(xs) + 1)
    v = xs[i]
    if isinstance(v, Obj) and rng.random() < 0.7:
        kv = list(v.kvs)
        rng.shuffle(kv)
        v = Obj(kv)
    return xs[:k] + [v] + xs[k:]


TYPED_ELEMS = ["jnum", "jnum", "float64", "int", "int64", "uint64", "float32", "string", "mystring", "bool", "myint", "*int", "[]jnum", "[1]jnum"]


def typed_case(rng):
    """uniqueItems on a TYPED slice / array (one static element type, e.g. []json.Number, [4]uint64, []mystring): elements that
    are Equal need not be identical Go values (json.Number spellings, -0.0)."""
    et = rng.choice(TYPED_ELEMS)
    base = et.lstrip("*[]1")
    if base in ("string", "mystring"):
        pool = list(gv.STRINGS)
    elif base == "bool":
        pool = [True, False]
    else:
        pool = [Num(x) for x in gv.SPECIAL_NUMS] + [Num(str(k)) for k in range(-3, 4)]
    ys, seen = [], set()
    for _ in range(rng.randint(1, 6)):
        v = rng.choice(pool)
        if et.startswith("["):
            v = [v]
        if canon(v) not in seen:
            seen.add(canon(v))
            ys.append(v)
    dup = rng.random() < 0.5
    if dup:
        ys = plant(rng, ys)
    T = ("[%d]" % len(ys) if rng.random() < 0.3 else "[]") + et
    g = gv.represent_as(rng, ys, T)
    if g is None:
        return None
    return {"op": "validate", "args": {"schema": Obj([("uniqueItems", True)]), "ginsts": [g]},
            "meta": {"expect": [not dup], "len": len(ys), "typed": et}}


def alias_case(rng):
    """enum / const of a Go-built schema lists the slice M (possibly inside an array or object); the instance holds M[:n] — a window
    onto M's own backing array — where the listed value holds M. Equal as JSON values only when n = len(M) (or when the window
    happens to equal another listed value: the oracle compares canonical forms)."""
    M = [gv.gen_json(rng, 1) for _ in range(rng.choice([0, 1, 1, 2, 2, 3, 4]))]
    more = [gv.gen_json(rng, 1) for _ in range(2)]
    if rng.random() < 0.4 and M:
        more[0] = M[0]
    n = rng.choice([len(M)] + [k for k in range(len(M) + 3) if k != len(M)] * 2)
    W = (M + more)[:n]
    nest = rng.choice(["", "", "arr", "obj"])
    x = gv.gen_json(rng, 0)
    if nest == "arr":
        listed, held, path = [x, M], [x, W], [1]
    elif nest == "obj":
        listed, held, path = Obj([("k", M), ("x", x)]), Obj([("x", x), ("k", W)]), ["k"]
    else:
        listed, held, path = M, W, []
    others = [gv.gen_json(rng, 1) for _ in range(rng.randint(0, 2))]
    if rng.random() < 0.15:
        others.append(held)            # the window is itself listed elsewhere: valid whatever n is
    kw = rng.choice(["Enum", "Enum", "Const"])
    if kw == "Const":
        vals, idx = [listed], 0
        node = {"Const": {"v": listed}}
    else:
        idx = rng.randint(0, len(others))
        vals = others[:idx] + [listed] + others[idx:]
        node = {"Enum": vals}
    if not all(gv.float64_ok(v) for v in vals + [held]):
        return None
    where = rng.choice(["root", "root", "allOf", "prop", "items"])
    if where == "root":
        nodes, ni, inst, ipath = [node], 0, held, []
    elif where == "allOf":
        nodes, ni, inst, ipath = [{"AllOf": [1]}, node], 1, held, []
    elif where == "prop":
        nodes, ni, inst, ipath = [{"Properties": [["p", 1]]}, node], 1, Obj([("p", held)]), ["p"]
    else:
        nodes, ni, inst, ipath = [{"Items": 1}, node], 1, [held], [0]
    exp = any(canon(v) == canon(held) for v in vals)
    al = {"inst": 0, "ipath": ipath + path, "node": ni, "field": kw, "index": idx, "spath": path, "n": n}
    # second instance: the same JSON value built on its own (no sharing)
    return {"op": "resolve-desc", "args": {"desc": {"nodes": nodes, "root": 0}, "ginsts": [gv.canonical_repr(inst), gv.canonical_repr(inst)],
                                           "aliasInst": [al]},
            "meta": {"expect": [exp, exp], "len": 2, "alias": True}}


def gen(rng, tier, n):
    ops = []
    while len(ops) < n:
        r = rng.random()
        if r < 0.06:
            o = alias_case(rng)
            if o is not None:
                ops.append(o)
            continue
        r = rng.random()
        if r < 0.12:
            o = typed_case(rng)
            if o is not None:
                ops.append(o)
            continue
        if r < 0.45:
            xs = [gv.gen_json(rng, 2) for _ in range(rng.randint(0, 12 if rng.random() < 0.3 else 5))]
            # make elements distinct first, then plant duplicates with probability 1/2
            seen, ys = set(), []
            for x in xs:
                c = canon(x)
                if c not in seen:
                    seen.add(c)
                    ys.append(x)
            dup = rng.random() < 0.5 and len(ys) >= 1
            if dup:
                ys = plant(rng, ys)
            items = [gv.represent(rng, y) for y in ys]
            T = rng.choice(["[]any", "[]any", "[%d]any" % len(items), "*[]any"])
            g = {"t": T, "v": items} if not T.startswith("*") else {"t": T, "v": {"t": "[]any", "v": items}}
            ops.append({"op": "validate", "args": {"schema": Obj([("uniqueItems", True)]), "ginsts": [g]},
                        "meta": {"expect": [not dup], "len": len(items)}})
        elif r < 0.75:
            j = gv.gen_json(rng, 2)
            vals = [gv.gen_json(rng, 1) for _ in range(rng.randint(0, 3))]
            hit = rng.random() < 0.5
            if hit:
                e = j
                if isinstance(e, Obj):
                    kv = list(e.kvs)
                    rng.shuffle(kv)
                    e = Obj(kv)
                vals.insert(rng.randrange(len(vals) + 1), e)
            elif rng.random() < 0.7:
                vals.append(gv.mutate_leaf(rng, j))
            if not all(gv.float64_ok(v) for v in vals):
                continue
            kw = rng.choice(["enum", "enum", "const"])
            if kw == "const":
                vals = vals[:1] if vals else [None]
                doc = Obj([("const", vals[0])])
            else:
                doc = Obj([("enum", vals)])
            exp = any(canon(v) == canon(j) for v in vals)
            ops.append({"op": "validate", "args": {"schema": doc, "ginsts": [gv.represent(rng, j), gv.represent(rng, j)]},
                        "meta": {"expect": [exp, exp], "len": 2 if isinstance(j, (list, Obj)) else 0}})
        else:
            j1 = gv.gen_json(rng, 3)
            j2 = j1 if rng.random() < 0.5 else gv.mutate_leaf(rng, j1)
            if isinstance(j2, Obj) and rng.random() < 0.5:
                kv = list(j2.kvs)
                rng.shuffle(kv)
                j2 = Obj(kv)
            ops.append({"op": "hash", "args": {"x": gv.represent(rng, j1), "y": gv.represent(rng, j2)},
                        "meta": {"expect_equal": canon(j1) == canon(j2), "len": 2}})
    return ops


def nontrivial(o):
    return (o.get("meta") or {}).get("len", 0) >= 2


def judge(o, go, m):
    if o["op"] == "hash":
        if go is None or m is None or "model" not in m:
            return "violation:driver", "no answer"
        if go.get("outcome") == "harness-error":
            return "skip", go.get("detail")
        mo = m["model"]
        exp = o["meta"]["expect_equal"]
        if go.get("outcome") != "ok":
            return "violation", "hash/Equal on the real package: %r" % (go,)
        if go.get("equal") != mo.get("equal") or go.get("equal") != exp:
            return "violation", "Equal: real %r model %r oracle %r" % (go.get("equal"), mo.get("equal"), exp)
        if go.get("equal") and not go.get("hash_equal"):
            return "violation", "hash law broken on the real package: Equal(x,y) but hash(x) != hash(y)"
        if go.get("hash_equal") != mo.get("hash_equal"):
            return "violation", "hash streams: real package equal=%r, model equal=%r" % (go.get("hash_equal"), mo.get("hash_equal"))
        return "agree", ""
    if o["op"] == "resolve-desc":
        if go is None:
            return "violation:harness", "no answer"
        if go.get("outcome") == "harness-error":
            return "violation:harness", "the harness could not build the aliased instance: %s" % go.get("detail")
        if m is None or "model" not in m:
            return "violation:driver", "driver: %r" % (m,)
        mo = m["model"]
        if go.get("outcome") != "resolved" or mo.get("outcome") != "resolved":
            return "violation", "outcome: real package %s, model %s" % (go.get("outcome"), mo.get("outcome"))
        ev = ["valid" if e else "invalid" for e in o["meta"]["expect"]]
        if go.get("verdicts") != mo.get("verdicts") or go.get("verdicts") != ev:
            return "violation", "verdicts (first instance: a re-slice of the listed slice; second: the same value built independently): real package %r, model %r, oracle %r" % (
                go.get("verdicts"), mo.get("verdicts"), ev)
        return "agree", ""
    return vjudge.judge_validate(o, go, m)
