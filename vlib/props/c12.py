"""C12 — enum, const and uniqueItems decide by JSON equality."""
from .. import gen_values as gv
from .. import vjudge
from ..wire import Obj, Num, canon

ID = "C12"
N_QUICK = 8000
N_THOROUGH = 160000
LEAN_MODULES = ["JSV.Props.C12"]
RULE = ("(a) arrays of length 0..12 mixing all JSON types in mixed Go representations, with duplicates planted at random pairs of positions "
        "(identical, or equal-but-not-identical: 1 vs 1.0 vs json.Number('1.00'), objects with permuted keys, typed vs untyped containers) "
        "against {uniqueItems:true}; (b) enum / const built from the instance, a one-leaf mutation or unrelated values; expected verdicts from "
        "a python canonical-form oracle; (c) the hash law through the verif hook: Equal(x,y) => hash(x)=hash(y) under two fresh seeds per op, "
        "compared with the model's byte-stream equality. Every Validate call draws its own seed; shards run in separate processes. "
        "Non-trivial: arrays of length >= 2 / container-valued enum members; distinct = operation text")
RULE += (". Widened (~6%): schemas BUILT IN GO (op resolve-desc) whose enum / const lists a Go slice, validated against an instance that is "
         "a RE-SLICE of that very slice (same backing array, length 0..len+2; harness argument aliasInst), at the root or nested in an "
         "array / object on either side: a shorter or longer window is another JSON value, so only the full length matches")
RULE += (". Widened: (~1.5%) DEEP duplicates — two elements nested 28..70 JSON levels deep (width 1: chains of one-element arrays / "
         "one-member objects over a small leaf), Equal or differing at the leaf only, the second spelled differently at 1..3 levels (behind a "
         "pointer, a Go array, a typed slice / typed map, a named key type) — under uniqueItems (oracle: duplicates are duplicates at any "
         "depth) and through the hash law; (~4%) SEVERAL uniqueItems sites in one Validate call: an array / object of 2..4 arrays of "
         "mostly 9..20 items that share values at the same indices, some with a late duplicate, some without, each site reached through "
         "not / anyOf / oneOf / if / contains / items / prefixItems / properties, so that failures of uniqueItems are swallowed and "
         "validation goes on to the next array; verdicts = model = spec")
RULE += ("; (~3%) BYTE SEQUENCES ([N]uint8 by value, []uint8, *[N]uint8, elements of [][N]uint8 / [k][N]uint8 / map[string][N]uint8, []any): "
         "arrays of them with planted duplicates under uniqueItems, and as the values listed by enum / const of a schema built in Go "
         "(resolve-desc argument govals) against instances in every such spelling, of equal and of different length")
RULE += ("; (~4%) uniqueItems beside items = {$ref, sibling} (type string and neighbours) as a draft-07 document (siblings of $ref ignored) and as "
         "its 2020-12 twin, on arrays of numbers / booleans / strings / mixed values with planted duplicates in mixed representations; verdicts = model = spec; "
         "(~3%) 0 and -0 together in one array (bare or nested), each zero float -0 / +0, an integer kind or json.Number 0 / -0 / -0.0 / 0.0 / 0e0")
TRUSTED = ["python canonical-form oracle; 64-bit hash collisions are disregarded"]


def plant(rng, xs):
    """Duplicate an element somewhere (in a different representation when rendered)."""
    if not xs:
        return xs
    i = rng.randrange(len(xs))
    k = rng.randrange(len(xs) + 1)
    v = xs[i]
    if isinstance(v, Obj) and rng.random() < 0.7:
        kv = list(v.kvs)
        rng.shuffle(kv)
        v = Obj(kv)
    return xs[:k] + [v] + xs[k:]


TYPED_ELEMS = ["jnum", "jnum", "float64", "int", "int64", "uint64", "float32", "string", "mystring", "bool", "myint", "*int", "[]jnum", "[1]jnum"]


def typed_case(rng):
    """uniqueItems on a TYPED slice / array (one static element type, e.g. []json.Number, [4]uint64, []mystring): elements that
    are Equal need not be identical Go values (json.Number spellings, -0.0)."""
    et = rng.choice(TYPED_ELEMS)
    base = et.lstrip("*[]1")
    if base in ("string", "mystring"):
        pool = list(gv.STRINGS)
    elif base == "bool":
        pool = [True, False]
    else:
        pool = [Num(x) for x in gv.SPECIAL_NUMS] + [Num(str(k)) for k in range(-3, 4)]
    ys, seen = [], set()
    for _ in range(rng.randint(1, 6)):
        v = rng.choice(pool)
        if et.startswith("["):
            v = [v]
        if canon(v) not in seen:
            seen.add(canon(v))
            ys.append(v)
    dup = rng.random() < 0.5
    if dup:
        ys = plant(rng, ys)
    T = ("[%d]" % len(ys) if rng.random() < 0.3 else "[]") + et
    g = gv.represent_as(rng, ys, T)
    if g is None:
        return None
    return {"op": "validate", "args": {"schema": Obj([("uniqueItems", True)]), "ginsts": [g]},
            "meta": {"expect": [not dup], "len": len(ys), "typed": et}}


def alias_case(rng):
    """enum / const of a Go-built schema lists the slice M (possibly inside an array or object); the instance holds M[:n] — a window
    onto M's own backing array — where the listed value holds M. Equal as JSON values only when n = len(M) (or when the window
    happens to equal another listed value: the oracle compares canonical forms)."""
    M = [gv.gen_json(rng, 1) for _ in range(rng.choice([0, 1, 1, 2, 2, 3, 4]))]
    more = [gv.gen_json(rng, 1) for _ in range(2)]
    if rng.random() < 0.4 and M:
        more[0] = M[0]
    n = rng.choice([len(M)] + [k for k in range(len(M) + 3) if k != len(M)] * 2)
    W = (M + more)[:n]
    nest = rng.choice(["", "", "arr", "obj"])
    x = gv.gen_json(rng, 0)
    if nest == "arr":
        listed, held, path = [x, M], [x, W], [1]
    elif nest == "obj":
        listed, held, path = Obj([("k", M), ("x", x)]), Obj([("x", x), ("k", W)]), ["k"]
    else:
        listed, held, path = M, W, []
    others = [gv.gen_json(rng, 1) for _ in range(rng.randint(0, 2))]
    if rng.random() < 0.15:
        others.append(held)            # the window is itself listed elsewhere: valid whatever n is
    kw = rng.choice(["Enum", "Enum", "Const"])
    if kw == "Const":
        vals, idx = [listed], 0
        node = {"Const": {"v": listed}}
    else:
        idx = rng.randint(0, len(others))
        vals = others[:idx] + [listed] + others[idx:]
        node = {"Enum": vals}
    if not all(gv.float64_ok(v) for v in vals + [held]):
        return None
    where = rng.choice(["root", "root", "allOf", "prop", "items"])
    if where == "root":
        nodes, ni, inst, ipath = [node], 0, held, []
    elif where == "allOf":
        nodes, ni, inst, ipath = [{"AllOf": [1]}, node], 1, held, []
    elif where == "prop":
        nodes, ni, inst, ipath = [{"Properties": [["p", 1]]}, node], 1, Obj([("p", held)]), ["p"]
    else:
        nodes, ni, inst, ipath = [{"Items": 1}, node], 1, [held], [0]
    exp = any(canon(v) == canon(held) for v in vals)
    al = {"inst": 0, "ipath": ipath + path, "node": ni, "field": kw, "index": idx, "spath": path, "n": n}
    # second instance: the same JSON value built on its own (no sharing)
    return {"op": "resolve-desc", "args": {"desc": {"nodes": nodes, "root": 0}, "ginsts": [gv.canonical_repr(inst), gv.canonical_repr(inst)],
                                           "aliasInst": [al]},
            "meta": {"expect": [exp, exp], "len": 2, "alias": True}}


def _deep_repr(rng, j, vary, level=0):
    """The canonical representation of a width-1 chain, except at the levels in `vary`, where the container is spelled differently."""
    if isinstance(j, list) and len(j) == 1:
        child = _deep_repr(rng, j[0], vary, level + 1)
        base = {"t": "[]any", "v": [child]}
        if level not in vary:
            return base
        c = rng.choice(["arr", "ptr", "typed", "pp"])
        if c == "arr":
            return {"t": "[1]any", "v": [child]}
        if c == "typed" and child is not None:
            return {"t": "[]" + child["t"], "v": [child]}
        if c == "pp":
            return {"t": "**[]any", "v": {"t": "*[]any", "v": base}}
        return {"t": "*[]any", "v": base}
    if isinstance(j, Obj) and len(j.kvs) == 1:
        k, v = j.kvs[0]
        child = _deep_repr(rng, v, vary, level + 1)
        base = {"t": "map[string]any", "v": [[k, child]]}
        if level not in vary:
            return base
        c = rng.choice(["named", "ptr", "typed", "typed"])
        if c == "named":
            return {"t": "map[mystring]any", "v": [[k, child]]}
        if c == "typed" and child is not None:
            return {"t": "map[string]" + child["t"], "v": [[k, child]]}
        return {"t": "*map[string]any", "v": base}
    return gv.canonical_repr(j)


def deep_pair(rng):
    """(j1, j2, x, y): chains 28..70 levels deep over a small leaf; j2 = j1 or differs at the leaf; y differs from x's spelling at 1..3 levels."""
    L = rng.randint(28, 70)
    leaf = rng.choice([Obj([("id", Num("1")), ("tags", ["a", "b"])]), Num("1"), "a", [Num("1"), Num("2")], None, Obj()])
    leaf2 = leaf if rng.random() < 0.7 else gv.mutate_leaf(rng, leaf)
    if not gv.float64_ok(leaf2):
        leaf2 = leaf
    shape = [rng.choice(["arr", "arr", "k", "next"]) for _ in range(L)]

    def chain(lf):
        j = lf
        for sh in reversed(shape):
            j = [j] if sh == "arr" else Obj([(sh, j)])
        return j
    j1, j2 = chain(leaf), chain(leaf2)
    vary = set(rng.sample(range(0, min(L, 24)), rng.randint(1, 3)))
    if rng.random() < 0.3:
        vary.add(rng.randrange(L))
    x = _deep_repr(rng, j1, set() if rng.random() < 0.8 else {rng.randrange(L)})
    y = _deep_repr(rng, j2, vary)
    return j1, j2, x, y


def deep_case(rng):
    j1, j2, x, y = deep_pair(rng)
    if rng.random() < 0.2:
        return {"op": "hash", "args": {"x": x, "y": y}, "meta": {"expect_equal": canon(j1) == canon(j2), "len": 2, "deep": True}}
    items = [x, y] + [gv.canonical_repr(v) for v in rng.sample(["x", None, Num("1"), [], Obj()], rng.randint(0, 2))]
    rng.shuffle(items)
    T = rng.choice(["[]any", "[]any", "[%d]any" % len(items)])
    return {"op": "validate", "args": {"schema": Obj([("uniqueItems", True)]), "ginsts": [{"t": T, "v": items}]},
            "meta": {"expect": [canon(j1) != canon(j2)], "len": len(items), "deep": True}}


SITE_POOL = ([Num(str(k)) for k in range(0, 24)] + ["", "a", "b", "ab", "é", "1", None, True, False, [], Obj(), [Num("1")], [Num("1"), Num("2")],
             Obj([("a", Num("1"))]), Obj([("a", Num("1")), ("b", Num("2"))]), [[]], Num("0.5"), Num("-1"), Num("1e3")])


def _site_schema(rng, n):
    """A schema for one array in which a failing uniqueItems does not (always) fail the site."""
    U = Obj([("uniqueItems", True)])
    c = rng.random()
    if c < 0.25:
        return U
    if c < 0.45:
        return Obj([("not", U)])
    if c < 0.6:
        return Obj([("anyOf", [U, Obj([(rng.choice(["minItems", "maxItems"]), Num(str(n + rng.choice([-1, 0, 1]))))])])])
    if c < 0.72:
        return Obj([("oneOf", [U, Obj([(rng.choice(["minItems", "maxItems"]), Num(str(n + rng.choice([-1, 0, 1]))))])])])
    if c < 0.87:
        return Obj([("if", U), ("then", rng.choice([True, False, Obj([("minItems", Num(str(n)))])])), ("else", rng.choice([True, False, True]))])
    return Obj([("anyOf", [Obj([("not", U)]), Obj([("type", "object")])]), ("uniqueItems", rng.random() < 0.5)])


def multi_site_case(rng):
    """2..4 arrays sharing values at the same indices, with and without a late duplicate, each under its own uniqueItems site."""
    B = rng.sample(SITE_POOL, 20)
    k = rng.randint(2, 4)
    fresh = [Num(str(100 + i)) for i in range(40)]
    rng.shuffle(fresh)
    arrays = []
    for _ in range(k):
        n = rng.randint(9, 20) if rng.random() < 0.85 else rng.randint(2, 8)
        A = list(B[:n])
        for _ in range(rng.choice([0, 0, 1, 2, 4])):
            A[rng.randrange(n)] = fresh.pop()
        if rng.random() < 0.15:
            # the shared values at OTHER indices
            A = A[1:] + A[:1]
        if rng.random() < 0.5:
            src = rng.randrange(0, n - 1)
            dst = rng.randrange(max(src + 1, n // 2), n)
            v = A[src]
            if isinstance(v, Obj):
                v = Obj(list(reversed(v.kvs)))
            A[dst] = v
        arrays.append(A)
    sites = [_site_schema(rng, len(A)) for A in arrays]
    c = rng.random()
    if c < 0.3:
        j, doc = arrays, Obj([("items", sites[0])])
    elif c < 0.5:
        j, doc = arrays, Obj([("contains", sites[0])])
        if rng.random() < 0.5:
            doc.set(rng.choice(["minContains", "maxContains"]), Num(str(rng.randint(0, k))))
    elif c < 0.8:
        j, doc = arrays, Obj([("prefixItems", sites)])
        if rng.random() < 0.3:
            doc.set("unevaluatedItems", False)
    else:
        names = rng.sample(gv.NAMES, k)
        j, doc = Obj(list(zip(names, arrays))), Obj([("properties", Obj(list(zip(names, sites))))])
        if rng.random() < 0.3:
            doc.set("additionalProperties", sites[0])
    if rng.random() < 0.25:
        doc = Obj([("allOf", [doc, Obj([("items" if isinstance(j, list) else "additionalProperties", Obj([("uniqueItems", True)]))])])])
    if rng.random() < 0.15:
        doc = Obj([("not", doc)])
    reprs = [gv.canonical_repr(j)]
    if rng.random() < 0.5:
        reprs.append(gv.represent(rng, j))
    return {"op": "validate", "args": {"schema": doc, "ginsts": reprs}, "meta": {"len": 2, "sites": True}}


def bytes_case(rng):
    if rng.random() < 0.5:
        n = rng.choice([0, 1, 2, 2, 3, 4])
        items, seen = [], set()
        for _ in range(rng.randint(1, 6)):
            b = gv.gen_bytes_json(rng, n if rng.random() < 0.85 else None)
            if canon(b) not in seen:
                seen.add(canon(b))
                items.append(b)
        dup = rng.random() < 0.5
        if dup:
            items = plant(rng, items)
        return {"op": "validate", "args": {"schema": Obj([("uniqueItems", True)]), "ginsts": [gv.represent_bytes(rng, items) for _ in range(2)]},
                "meta": {"expect": [not dup, not dup], "len": len(items), "bytes": True}}
    j1, j2 = gv.gen_bytes_pair(rng)
    others = [gv.gen_bytes_json(rng) for _ in range(rng.randint(0, 2))]
    kw = rng.choice(["Enum", "Enum", "Const"])
    if kw == "Const":
        vals, node = [j1], {"Const": {"v": j1}}
    else:
        vals = others + [j1]
        rng.shuffle(vals)
        node = {"Enum": vals}
    govals = [[1, kw, i, gv.represent_bytes(rng, v)] for i, v in enumerate(vals) if rng.random() < 0.8]
    where = rng.choice(["allOf", "prop", "items"])
    if where == "allOf":
        nodes, insts = [{"AllOf": [1]}, node], [j2, j1]
    elif where == "prop":
        nodes, insts = [{"Properties": [["p", 1]]}, node], [Obj([("p", j2)]), Obj([("p", j1)])]
    else:
        nodes, insts = [{"Items": 1}, node], [[j2], [j1]]
    hit = lambda v: any(canon(v) == canon(w) for w in vals)
    return {"op": "resolve-desc", "args": {"desc": {"nodes": nodes, "root": 0, "govals": govals},
                                           "ginsts": [gv.represent_bytes(rng, x) for x in insts]},
            "meta": {"expect": [hit(j2), hit(j1)], "len": 2, "bytes": True}}


D7 = "http://json-schema.org/draft-07/schema#"
REF_POOL = [Num("1"), Num("2"), Num("3"), Num("1.5"), Num("0"), True, False, None, "a", "b", "1", "", [], [Num("1")], Obj(), Obj([("a", Num("1"))])]


def ref_sibling_case(rng):
    """uniqueItems beside an `items` subschema that is a reference WITH SIBLINGS ({"$ref": ..., "type": "string"} and neighbours:
    other types, type lists, minLength, const), as a draft-07 document (siblings of $ref are ignored: the array may hold anything the
    target admits) and as its 2020-12 twin (the siblings assert); arrays of distinct / equal numbers, booleans, strings and mixed values in
    mixed representations (1 vs 1.0 vs json.Number)."""
    d7 = rng.random() < 0.6
    defs = "definitions" if d7 or rng.random() < 0.3 else "$defs"
    target = rng.choice([True, Obj(), Obj(), Obj([("type", ["number", "string", "boolean"])]), Obj([("type", "number")]),
                         Obj([("not", Obj([("type", "null")]))]), Obj([("type", "string")])])
    sib = rng.choice([("type", "string"), ("type", "string"), ("type", "string"), ("type", "number"), ("type", ["string"]),
                      ("type", "boolean"), ("minLength", Num("1")), ("type", "array")])
    it = Obj([("$ref", "#/%s/t" % defs), sib])
    c = rng.random()
    if c < 0.15:
        it = Obj([sib])                                  # no reference: the sibling asserts in both drafts
    elif c < 0.25:
        it = Obj([sib, ("$ref", "#/%s/t" % defs)])
    doc = Obj(([("$schema", D7)] if d7 else []) + [("uniqueItems", True), ("items", it), (defs, Obj([("t", target)]))])
    if rng.random() < 0.15:
        doc.set("minItems", Num("1"))
    ginsts = []
    for _ in range(4):
        kind = rng.choice(["num", "num", "bool", "str", "mixed", "mixed", "cont"])
        pool = {"num": [v for v in REF_POOL if isinstance(v, Num)], "bool": [True, False], "str": [v for v in REF_POOL if isinstance(v, str)],
                "mixed": REF_POOL, "cont": [v for v in REF_POOL if isinstance(v, (list, Obj))]}[kind]
        ys = rng.sample(pool, rng.randint(1, min(4, len(pool))))
        if rng.random() < 0.5:
            ys = plant(rng, ys)
        ginsts.append({"t": "[]any", "v": [gv.canonical_repr(y) if rng.random() < 0.5 else gv.represent(rng, y) for y in ys]})
    return {"op": "validate", "args": {"schema": doc, "ginsts": ginsts}, "meta": {"len": 2, "refsib": "7" if d7 else "2020"}}


def zero_case(rng):
    """0 and -0 in one array under uniqueItems, every zero in its own representation (gv.zero_array); oracle: zeros are equal."""
    j, reprs = gv.zero_array(rng)
    cs = [canon(x) for x in j]
    exp = len(set(cs)) == len(cs)
    return {"op": "validate", "args": {"schema": Obj([("uniqueItems", True)]), "ginsts": reprs},
            "meta": {"expect": [exp] * len(reprs), "len": len(j), "zeros": True}}


def gen(rng, tier, n):
    ops = []
    while len(ops) < n:
        r0 = rng.random()
        if 0.9 < r0 <= 0.93:
            ops.append(zero_case(rng))
            continue
        if 0.93 < r0 <= 0.97:
            ops.append(ref_sibling_case(rng))
            continue
        if r0 > 0.97:
            ops.append(bytes_case(rng))
            continue
        if r0 < 0.015:
            ops.append(deep_case(rng))
            continue
        if r0 < 0.055:
            ops.append(multi_site_case(rng))
            continue
        r = rng.random()
        if r < 0.06:
            o = alias_case(rng)
            if o is not None:
                ops.append(o)
            continue
        r = rng.random()
        if r < 0.12:
            o = typed_case(rng)
            if o is not None:
                ops.append(o)
            continue
        if r < 0.45:
            xs = [gv.gen_json(rng, 2) for _ in range(rng.randint(0, 12 if rng.random() < 0.3 else 5))]
            # make elements distinct first, then plant duplicates with probability 1/2
            seen, ys = set(), []
            for x in xs:
                c = canon(x)
                if c not in seen:
                    seen.add(c)
                    ys.append(x)
            dup = rng.random() < 0.5 and len(ys) >= 1
            if dup:
                ys = plant(rng, ys)
            items = [gv.represent(rng, y) for y in ys]
            T = rng.choice(["[]any", "[]any", "[%d]any" % len(items), "*[]any"])
            g = {"t": T, "v": items} if not T.startswith("*") else {"t": T, "v": {"t": "[]any", "v": items}}
            ops.append({"op": "validate", "args": {"schema": Obj([("uniqueItems", True)]), "ginsts": [g]},
                        "meta": {"expect": [not dup], "len": len(items)}})
        elif r < 0.75:
            j = gv.gen_json(rng, 2)
            vals = [gv.gen_json(rng, 1) for _ in range(rng.randint(0, 3))]
            hit = rng.random() < 0.5
            if hit:
                e = j
                if isinstance(e, Obj):
                    kv = list(e.kvs)
                    rng.shuffle(kv)
                    e = Obj(kv)
                vals.insert(rng.randrange(len(vals) + 1), e)
            elif rng.random() < 0.7:
                vals.append(gv.mutate_leaf(rng, j))
            if not all(gv.float64_ok(v) for v in vals):
                continue
            kw = rng.choice(["enum", "enum", "const"])
            if kw == "const":
                vals = vals[:1] if vals else [None]
                doc = Obj([("const", vals[0])])
            else:
                doc = Obj([("enum", vals)])
            exp = any(canon(v) == canon(j) for v in vals)
            ops.append({"op": "validate", "args": {"schema": doc, "ginsts": [gv.represent(rng, j), gv.represent(rng, j)]},
                        "meta": {"expect": [exp, exp], "len": 2 if isinstance(j, (list, Obj)) else 0}})
        else:
            j1 = gv.gen_json(rng, 3)
            j2 = j1 if rng.random() < 0.5 else gv.mutate_leaf(rng, j1)
            if isinstance(j2, Obj) and rng.random() < 0.5:
                kv = list(j2.kvs)
                rng.shuffle(kv)
                j2 = Obj(kv)
            ops.append({"op": "hash", "args": {"x": gv.represent(rng, j1), "y": gv.represent(rng, j2)},
                        "meta": {"expect_equal": canon(j1) == canon(j2), "len": 2}})
    return ops


def nontrivial(o):
    return (o.get("meta") or {}).get("len", 0) >= 2


def judge(o, go, m):
    if o["op"] == "hash":
        if go is None or m is None or "model" not in m:
            return "violation:driver", "no answer"
        if go.get("outcome") == "harness-error":
            return "skip", go.get("detail")
        mo = m["model"]
        exp = o["meta"]["expect_equal"]
        if go.get("outcome") != "ok":
            return "violation", "hash/Equal on the real package: %r" % (go,)
        if go.get("equal") != mo.get("equal") or go.get("equal") != exp:
            return "violation", "Equal: real %r model %r oracle %r" % (go.get("equal"), mo.get("equal"), exp)
        if go.get("equal") and not go.get("hash_equal"):
            return "violation", "hash law broken on the real package: Equal(x,y) but hash(x) != hash(y)"
        if go.get("hash_equal") != mo.get("hash_equal"):
            return "violation", "hash streams: real package equal=%r, model equal=%r" % (go.get("hash_equal"), mo.get("hash_equal"))
        return "agree", ""
    if o["op"] == "resolve-desc":
        if go is None:
            return "violation:harness", "no answer"
        if go.get("outcome") == "harness-error":
            return "violation:harness", "the harness could not build the schema / the aliased instance: %s" % go.get("detail")
        if m is None or "model" not in m:
            return "violation:driver", "driver: %r" % (m,)
        mo = m["model"]
        if go.get("outcome") != "resolved" or mo.get("outcome") != "resolved":
            return "violation", "outcome: real package %s, model %s" % (go.get("outcome"), mo.get("outcome"))
        ev = ["valid" if e else "invalid" for e in o["meta"]["expect"]]
        if go.get("verdicts") != mo.get("verdicts") or go.get("verdicts") != ev:
            what = ("first instance: a re-slice of the listed slice; second: the same value built independently" if o["meta"].get("alias")
                    else "enum / const of a schema built in Go listing Go values (govals)")
            return "violation", "verdicts (%s): real package %r, model %r, oracle %r" % (what, go.get("verdicts"), mo.get("verdicts"), ev)
        return "agree", ""
    return vjudge.judge_validate(o, go, m)
