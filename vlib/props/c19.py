"""C19 — Marshal output is deterministic and honours PropertyOrder."""
import itertools

from .. import core
from .. import gen_schemaval as gsv
from ..ordered import same_ordered
from ..wire import parse_ordered, from_tagged, Obj

ID = "C19"
N_QUICK = 4000
N_THOROUGH = 60000
LEAN_MODULES = ["JSV.Props.C19"]
RULE = ("Schema values with `properties` over <= 6 names and a PropertyOrder list: all permutations, subsets and supersets of <= 4 names "
        "exhaustively, random ones beyond, names absent from properties, duplicates (expected: error), nested schemas each with their own "
        "order; 5 repeated Marshal calls per value (Go re-randomises map iteration). Expected key order computed here from the statement "
        "(listed names first in that order, the rest ascending). Non-trivial: >= 2 properties; distinct = operation text")
RULE += (". Widened (~8% of the random half): 1..2 of the properties hold a NIL *Schema (what Unmarshal of \"properties\":{\"y\":null} "
         "produces; Marshal writes null): the name is a key of the Properties map all the same, so it is emitted at its PropertyOrder "
         "position when listed and among the ascending rest otherwise — judged like every other name, against the statement and the model")
RULE += ("; ~3% of the stream: WIDE property sets of 58..90 names with a PropertyOrder over a subset of 3..40 (or 60..70) of them and 0..2 "
         "absent names")
NAMES = ["b", "a", "d", "c", "é", "Z", "aa", "", "first", "first name", "first!", "x<y", "x=y", "a\"b", "a#", "a\\b", "a]b", "a\tb",
         "a b", "A", "&", "<", ">", "\u2028", "~", "{", "a&b", "a>b", "a\u007fb", "\u00e9a", "e\u0301", "\U0001F600", "\uFFFD"]


def expected_order(props, order):
    listed = [k for k in order if k in props]
    rest = sorted((k for k in props if k not in listed), key=lambda s: s.encode("utf-8"))
    return listed + rest


def mk(props, order, nested=None, nil=()):
    nodes = [{"Properties": [], "PropertyOrder": order}]
    for k in props:
        if k in nil and k != nested:
            nodes.append({})                             # (unreferenced: keeps the node numbering of the nested case)
            nodes[0]["Properties"].append([k, None])     # a nil *Schema under this name
            continue
        nodes.append({"Type": "string"} if k != nested else {"Properties": [["y", len(props) + 1], ["x", len(props) + 2]], "PropertyOrder": ["y", "x"]})
        nodes[0]["Properties"].append([k, len(nodes) - 1])
    if nested is not None:
        nodes.append({})
        nodes.append({})
    if order is None:
        del nodes[0]["PropertyOrder"]
    return {"nodes": nodes, "root": 0}


from .. import gen_types as gt
HARNESS_FILES = gt.harness_files


def gen(rng, tier, n):
    from . import c16
    # the PropertyOrder that For infers (field order, duplicates of redeclared JSON names removed) must be one Marshal accepts and
    # renders in field order: a share of the stream are inferred schemas of declared struct types (judged by C16's oracle)
    n_infer = n // 12
    n -= n_infer
    ops = _gen(rng, tier, n)
    iops = [o for o in c16.gen(rng, tier, n_infer * 2) if (o["args"]["type"].get("k") == "named")][:n_infer]
    for o in iops:
        o["meta"]["infer"] = True
    return ops + iops


def alias_case(rng, props):
    """The nested schema's order is a strict prefix of the parent's order (the harness lets the two slices share one backing array,
    as order[:k] and order do) and the nested schema has properties outside its order."""
    order = list(dict.fromkeys(props))
    k = rng.randint(1, len(order) - 1)
    child_props = order[:k] + ["zz1", "zz0"]
    nodes = [{"Properties": [], "PropertyOrder": order}]
    for pn in props:
        if pn == props[0]:
            nodes.append({"Properties": [[c, len(props) + 1 + i] for i, c in enumerate(child_props)], "PropertyOrder": order[:k]})
        else:
            nodes.append({"Type": "string"})
        nodes[0]["Properties"].append([pn, len(nodes) - 1])
    for _ in child_props:
        nodes.append({"Type": "number"})
    return {"op": "marshal", "args": {"desc": {"nodes": nodes, "root": 0}},
            "meta": {"props": props, "order": order, "nt": True, "nested": None, "alias": True}}


def failing_history(rng, props):
    """A Schema value over the same property names whose Marshal FAILS after some listed names were written: the property value at
    position k cannot be marshaled (duplicate PropertyOrder, Type together with Types, or a failing grand-child). What an earlier,
    abandoned Marshal call left behind must not show in the next one."""
    names = list(dict.fromkeys(props))
    rng.shuffle(names)
    k = rng.randrange(len(names))
    how = rng.choice(["dup", "types", "deep"])
    nodes = [{"Properties": [], "PropertyOrder": names[:rng.randint(k + 1, len(names))] if rng.random() < 0.8 else names}]
    for i, pn in enumerate(names):
        if i == k:
            if how == "dup":
                nodes.append({"Properties": [], "PropertyOrder": ["u", "u"]})
            elif how == "types":
                nodes.append({"Type": "string", "Types": ["string", "null"]})
            else:
                nodes.append({"Not": len(names) + 1})
        else:
            nodes.append({"Type": "string"})
        nodes[0]["Properties"].append([pn, len(nodes) - 1])
    nodes.append({"Type": "number", "Types": ["number"]})
    return {"nodes": nodes, "root": 0}


def _gen(rng, tier, n):
    ops = []
    base = NAMES[:4]
    # exhaustive small scopes
    for r in range(0, 4):
        for props in itertools.combinations(base, r):
            for k in range(0, 4):
                for order in itertools.permutations(base, k):
                    ops.append({"op": "marshal", "args": {"desc": mk(list(props), list(order))},
                                "meta": {"props": list(props), "order": list(order), "nt": len(props) >= 2}})
    rng.shuffle(ops)
    ops = ops[: n // 2]
    while len(ops) < n:
        props = rng.sample(NAMES, rng.randint(0, 6))
        r = rng.random()
        if r < 0.1:
            order = None
        else:
            pool = props + ["zz", "q"]
            order = [rng.choice(pool) for _ in range(rng.randint(0, 6))] if pool else []
            if r < 0.8:   # duplicate-free
                seen, o2 = set(), []
                for k in order:
                    if k not in seen:
                        seen.add(k)
                        o2.append(k)
                order = o2
        if rng.random() < 0.12 and len(props) >= 2:
            ops.append(alias_case(rng, props))
            continue
        if rng.random() < 0.1:
            # long orders (9..24 entries): two equal entries at ANY pair of positions must be rejected; without duplicates the listed
            # names come first in that order
            m = rng.randint(9, 24)
            pool = ["n%02d" % i for i in range(m + 4)] + props
            order = rng.sample(pool, min(m, len(pool)))
            if rng.random() < 0.6:
                i, j = sorted(rng.sample(range(len(order)), 2))
                order[j] = order[i]
            props = list(dict.fromkeys(props + rng.sample(order, rng.randint(0, min(6, len(order))))))
            ops.append({"op": "marshal", "args": {"desc": mk(props, order, None)},
                        "meta": {"props": props, "order": order, "nt": len(props) >= 2, "nested": None, "long": True}})
            continue
        if rng.random() < 0.06:
            # WIDE property sets (58..90 names, on both sides of 64) with an order that lists a subset of them (3..40 entries, now and
            # then 60..70: more entries than a machine word has bits), names of every rank in the ascending order among the listed ones,
            # a few absent names: no name twice, the listed ones first in that order, the rest ascending
            m = rng.randint(58, 90)
            wide = list(dict.fromkeys(props + ["w%02d" % i for i in rng.sample(range(99), min(99, m))]))[:m]
            rng.shuffle(wide)
            k = rng.randint(60, 70) if rng.random() < 0.15 else rng.randint(3, 40)
            order = rng.sample(wide, min(k, len(wide)))
            for _ in range(rng.choice([0, 0, 1, 2])):
                order.insert(rng.randint(0, len(order)), rng.choice(["zz", "q", "w100", "A0"]))
            order = list(dict.fromkeys(order))
            ops.append({"op": "marshal", "args": {"desc": mk(wide, order, None)},
                        "meta": {"props": wide, "order": order, "nt": True, "nested": None, "wide": True}})
            continue
        nested = rng.choice(props) if props and rng.random() < 0.3 else None
        nil = [k for k in rng.sample(props, min(len(props), rng.randint(1, 2))) if k != nested] if props and rng.random() < 0.08 else []
        args = {"desc": mk(props, order, nested, nil)}
        if props and rng.random() < 0.2:
            args["pre"] = [failing_history(rng, props)]
        ops.append({"op": "marshal", "args": args,
                    "meta": {"props": props, "order": order or [], "nt": len(props) >= 2, "nested": nested, "nil": nil}})
    return ops


def nontrivial(o):
    return (o.get("meta") or {}).get("nt", False)


def judge(o, go, m):
    if o["op"] == "infer":
        from . import c16
        return c16.judge(o, go, m)
    if go is None:
        return "violation:harness", "no answer"
    if go.get("outcome") == "harness-error":
        return "skip", go.get("detail")
    if m is None or "model" not in m:
        return "violation:driver", "driver: %r" % (m,)
    mo = m["model"]
    # expectations are derived from the operation itself (so that shrinking and replays judge what they run)
    nodes = o["args"]["desc"].get("nodes") or [{}]
    root = nodes[o["args"]["desc"].get("root") or 0]
    me = {"props": [kv[0] for kv in root.get("Properties") or []] if root.get("Properties") is not None else None,
          "order": list(root.get("PropertyOrder") or []), "nested": (o.get("meta") or {}).get("nested")}
    if me["nested"] is not None and me["nested"] not in (me["props"] or []):
        me["nested"] = None
    dup = len(set(me["order"])) != len(me["order"])
    if dup:
        if go.get("outcome") != "marshal-error":
            return "violation", "duplicate PropertyOrder entries were not rejected: %r" % (go,)
        return ("agree", "") if mo.get("outcome") == "marshal-error" else ("violation", "model accepts duplicates")
    if go.get("outcome") != "ok" or mo.get("outcome") != "ok":
        return "violation", "outcome: real package %s, model %s" % (go.get("outcome"), mo.get("outcome"))
    if not go.get("stable"):
        return "violation", "Marshal is not deterministic"
    gval = parse_ordered(go["text"])
    if me["props"] is not None:
        got = gval.get("properties").keys() if isinstance(gval, Obj) and gval.get("properties") is not None else None
        if got is None and not me["props"] and not me["order"]:
            got = []
        exp = expected_order(me["props"], me["order"])
        if got != exp:
            return "violation", "key order of properties: %r, expected %r (PropertyOrder %r)" % (got, exp, me["order"])
        if me.get("nested") is not None:
            inner = gval.get("properties").get(me["nested"])
            if inner.get("properties").keys() != ["y", "x"]:
                return "violation", "nested PropertyOrder not honoured: %r" % (inner.get("properties").keys(),)
    if not same_ordered(gval, from_tagged(mo["value"])):
        return "violation", "marshaled value: real package %s, model %r" % (go["text"][:300], from_tagged(mo["value"]))
    return "agree", ""
