"""C06 — $dynamicRef follows the dynamic scope exactly as specified."""
from .. import suite, vjudge
from ..wire import Obj, Num

ID = "C06"
N_QUICK = 6000
N_THOROUGH = 120000
LEAN_MODULES = ["JSV.Props.C06"]
PREFILTER = vjudge.prefilter
RULE = ("dynamic-scope topologies: 1..5 schema resources (embedded or Loader documents), each declaring $dynamicAnchor N, $anchor N or "
        "neither on a uniquely marked subschema; entered in a random order through $ref / allOf / $dynamicRef-without-fragment hops "
        "(chain) or through two different properties (fork: several Validate calls on one Resolved take different dynamic paths); the "
        "final $dynamicRef in fragment, resource-relative or pointer form; expected target computed here from the specification's "
        "rule (outermost declaring resource in scope, else the initial target); dag: 2..4 Loader documents referring to one another in a "
        "directed acyclic graph (diamonds), entered from 2..4 use sites whose names / positions are shuffled, so that the order in which "
        "documents are first met is independent of the evaluation paths; 12 % of all of these with the anchor renamed (ASCII names and, rarely, "
        "non-ASCII letters) and each reference fragment spelled plainly or with percent-escapes (#%6Eode, r2#nod%65, #n%C5%93ud): the decoded "
        "name is what is looked up, statically and on the dynamic scope; 8 %: two or three dynamic anchor names declared by random subsets of "
        "the resources in per-document random order, a chain crossing from the root into Loader documents, one $dynamicRef per name. Non-trivial: >= 2 resources; distinct = operation text")
TRUSTED = ["python oracle implementing the outermost-resource rule for the expected marks"]
BASE = "http://x.test/dyn/root.json"


def res_name(i):
    return "root.json" if i == 0 else "r%d" % i


def mark(i):
    return "M%d" % i


def target_def(kind, i):
    o = Obj()
    if kind == "dyn":
        o.set("$dynamicAnchor", "N")
    elif kind == "anchor":
        o.set("$anchor", "N")
    o.set("const", mark(i))
    return o


def expected(kinds, path, form, tres):
    """mark index the final $dynamicRef must be validated against, or None if it designates nothing"""
    if form == "ptr":
        return tres if kinds[tres] != "none" else None
    if kinds[tres] == "none":
        return None
    if kinds[tres] == "anchor":
        return tres
    for r in path:
        if kinds[r] == "dyn":
            return r
    return tres


def chain(rng):
    k = rng.randint(1, 4)
    kinds = [rng.choice(["dyn", "dyn", "anchor", "none"]) for _ in range(k + 1)]
    order = list(range(1, k + 1))
    rng.shuffle(order)
    path = [0] + order[: rng.randint(0, k)]
    f = path[-1]
    form = rng.choice(["frag", "frag", "rel", "ptr"])
    if form == "frag":
        tres, ref = f, "#N"
    elif form == "rel":
        tres = rng.randint(0, k)
        ref = res_name(tres) + "#N"
    else:
        tres = rng.choice([f, rng.randint(0, k)])
        ref = (res_name(tres) if tres != f or rng.random() < 0.5 else "") + "#/$defs/x"
    exp = expected(kinds, path, form, tres)
    remote = set(i for i in range(1, k + 1) if rng.random() < 0.15)
    # a Loader document that refers to a resource embedded in another document: known finding D9
    d9 = any(a in remote and b not in remote and b != 0 for a, b in zip(path, path[1:]))
    if f in remote and tres not in remote and tres != 0 and tres != f:
        d9 = True
    bodies = {}
    for i in range(k + 1):
        b = Obj()
        if i > 0:
            b.set("$id", res_name(i))
        if kinds[i] != "none":
            b.set("$defs", Obj([("x", target_def(kinds[i], i))]))
        bodies[i] = b
    for a, bnext in zip(path, path[1:]):
        hop = rng.random()
        if hop < 0.5:
            bodies[a].set("$ref", res_name(bnext))
        elif hop < 0.8:
            bodies[a].set("allOf", [Obj([("$ref", res_name(bnext))])])
        else:
            bodies[a].set("$dynamicRef", res_name(bnext))
    if bodies[f].get("$dynamicRef") is None:
        bodies[f].set("$dynamicRef", ref)
    else:
        bodies[f].set("allOf", (bodies[f].get("allOf") or []) + [Obj([("$dynamicRef", ref)])])
    root = bodies[0]
    defs = root.get("$defs") or Obj()
    docs = []
    for i in range(1, k + 1):
        if i in remote:
            docs.append(["http://x.test/dyn/" + res_name(i), bodies[i]])
        else:
            defs.kvs.append(("res%d" % i, bodies[i]))
    if defs.kvs:
        root.set("$defs", defs)
    insts = [mark(i) for i in range(k + 1)]
    expv = [exp == i for i in range(k + 1)] if exp is not None else None
    return {"op": "validate", "args": {"schema": root, "docs": docs, "base": BASE, "loader": True, "insts": insts},
            "meta": {"expect": expv, "resources": k + 1, "kinds": kinds, "path": path, "form": form, "tres": tres,
                     "d9": d9, "fallback": exp is not None and form != "ptr" and kinds[tres] == "dyn" and not any(kinds[r] == "dyn" for r in path)}}


def fork(rng):
    """root.properties.a -> r1 -> r3, root.properties.b -> r2 -> r3; r3 holds the $dynamicRef '#N'."""
    kinds = [rng.choice(["dyn", "none"]), rng.choice(["dyn", "none", "anchor"]), rng.choice(["dyn", "none", "anchor"]), "dyn"]
    bodies = {}
    for i in range(4):
        b = Obj()
        if i > 0:
            b.set("$id", res_name(i))
        if kinds[i] != "none":
            b.set("$defs", Obj([("x", target_def(kinds[i], i))]))
        bodies[i] = b
    bodies[1].set("$ref", "r3")
    bodies[2].set("allOf", [Obj([("$ref", "r3")])])
    bodies[3].set("$dynamicRef", "#N")
    root = bodies[0]
    root.set("properties", Obj([("a", Obj([("$ref", "r1")])), ("b", Obj([("$ref", "r2")]))]))
    defs = root.get("$defs") or Obj()
    for i in (1, 2, 3):
        defs.kvs.append(("res%d" % i, bodies[i]))
    root.set("$defs", defs)
    ea = expected(kinds, [0, 1, 3], "frag", 3)
    eb = expected(kinds, [0, 2, 3], "frag", 3)
    insts, expv = [], []
    seq = [("a", m) for m in range(4)] + [("b", m) for m in range(4)]
    rng.shuffle(seq)
    for p, m in seq:
        insts.append(Obj([(p, mark(m))]))
        expv.append((ea if p == "a" else eb) == m)
    # both properties at once: each property has its own dynamic path
    insts.append(Obj([("a", mark(ea)), ("b", mark(eb))]))
    expv.append(True)
    return {"op": "validate", "args": {"schema": root, "docs": [], "base": BASE, "loader": True, "insts": insts},
            "meta": {"expect": expv, "resources": 4, "kinds": kinds, "fork": True}}


def wrap(rng, sch, levels):
    """sch behind `levels` in-place applicators (each adds one entry to the evaluation stack, none changes the verdict)."""
    for _ in range(levels):
        r = rng.random()
        if r < 0.35:
            sch = Obj([("allOf", [sch])])
        elif r < 0.5:
            sch = Obj([("anyOf", [False, sch])])
        elif r < 0.65:
            sch = Obj([("oneOf", [sch, False])])
        elif r < 0.8:
            sch = Obj([("if", True), ("then", sch)])
        else:
            sch = Obj([("not", Obj([("not", sch)]))])
    return sch


def topo(rng, decoy_p=0.3, mid_p=0.4, bare_p=1 / 3):
    """Several use sites in ONE instance (array positions or properties) reach one generic resource G, which holds the $dynamicRef '#N',
    through different intermediate resources; a resource is entered at its root or by a JSON Pointer into its middle ($defs/entry), at
    equal or different stack depths. No python oracle: the real package is compared with the model (proved equal to the Spec's
    outermost-declaring-resource rule). mid_p: probability that a resource is entered in the middle; bare_p: probability that a hop is
    the only keyword of the schema that holds it (a bare {"$ref": ...}) instead of sitting behind allOf / anyOf / if wrappers."""
    k = rng.randint(2, 5)                     # resources 1..k-1 are intermediates, k is G
    kinds = [rng.choice(["dyn", "dyn", "anchor", "none"]) for _ in range(k + 1)]
    kinds[k] = rng.choice(["dyn", "dyn", "dyn", "anchor", "none"])
    bodies = {}
    for i in range(k + 1):
        b = Obj()
        if i > 0:
            b.set("$id", res_name(i))
        d = Obj()
        if kinds[i] != "none":
            d.kvs.append(("x", target_def(kinds[i], i)))
        d.kvs.append(("entry", Obj()))
        b.set("$defs", d)
        bodies[i] = b

    def place(i, mid, sch_kvs):
        """put keywords into resource i: at its root, or in $defs/entry when it is entered in the middle"""
        tgt = bodies[i].get("$defs").get("entry") if mid else bodies[i]
        for kk, vv in sch_kvs:
            if tgt.get(kk) is not None and kk == "allOf":
                tgt.set("allOf", tgt.get("allOf") + vv)
            else:
                tgt.set(kk, vv)

    def enter(i, mid):
        return res_name(i) + ("#/$defs/entry" if mid else "")

    g_mid = rng.random() < 0.4
    form = rng.choice(["#N", "#N", "#N", res_name(k) + "#N", "#/$defs/x"])
    place(k, g_mid, [("$dynamicRef", form)])
    inter = list(range(1, k))
    rng.shuffle(inter)
    nsites = rng.randint(2, 3)
    sites = []
    for s_i in range(nsites):
        mine = [inter.pop() for _ in range(min(len(inter), rng.randint(0, 2)))]
        chain_ = mine + [k]
        # the site schema enters the first resource of its chain; every intermediate enters the next one
        mids = [rng.random() < mid_p for _ in chain_]
        mids[-1] = g_mid
        reenter = len(mine) >= 2 and kinds[mine[0]] != "none" and rng.random() < 0.35
        if reenter:
            # the path comes BACK into its first resource (by pointer) and the $dynamicRef lives there: the resource of the initial
            # target is then also the outermost declaring one, with another declaring resource between it and the reference
            bodies[mine[0]].get("$defs").set("back", Obj([("$dynamicRef", rng.choice(["#N", res_name(mine[0]) + "#N"]))]))
        for a, b_, ma, mb in zip(chain_, chain_[1:], mids, mids[1:]):
            if reenter and b_ == k:
                hop = Obj([("$ref", res_name(mine[0]) + "#/$defs/back")])
            else:
                hop = Obj([("$ref", enter(b_, mb))]) if rng.random() < 0.8 or mb else Obj([("$dynamicRef", enter(b_, mb))])
            lv = 0 if rng.random() < bare_p else rng.randint(1, 2)
            if lv == 0:
                place(a, ma, hop.kvs)
            else:
                place(a, ma, [("allOf", [wrap(rng, hop, lv - 1)])])
        site = wrap(rng, Obj([("$ref", enter(chain_[0], mids[0]))]), rng.randint(0, 2))
        sites.append(site)
    decoy = None
    if rng.random() < decoy_p:
        # a decoy: a resource that declares the anchor and always FAILS, applied where its failure is swallowed (anyOf / not / if).
        # It has left the dynamic scope when the other sites are evaluated; an evaluator that forgets to pop failed frames sees it.
        decoy = k + 1
        if rng.random() < 0.5:
            d = Obj([("$id", res_name(decoy)), ("$defs", Obj([("x", target_def("dyn", decoy))])), rng.choice([("not", Obj()), ("const", "never"), ("type", "null")])])
            bodies[decoy] = d
            dref = Obj([("$ref", res_name(decoy))])
            dsite = rng.choice([Obj([("anyOf", [dref, True])]), Obj([("not", dref)]), Obj([("if", dref), ("then", False)]),
                                Obj([("oneOf", [dref, Obj()])])])
        else:
            # ... or a resource that SUCCEEDS but swallows failures of several nested frames inside (not / anyOf / if): an evaluator
            # that pops by count instead of by frame ends up with the resource itself left on the stack
            inner = rng.choice([Obj([("not", Obj([("allOf", [Obj([("allOf", [False])])])]))]),
                                Obj([("anyOf", [Obj([("allOf", [Obj([("not", Obj())])])]), True])]),
                                Obj([("if", Obj([("allOf", [Obj([("allOf", [False])]), True])])), ("else", True)]),
                                Obj([("not", Obj([("const", "never")]))])])
            d = Obj([("$id", res_name(decoy)), ("$defs", Obj([("x", target_def("dyn", decoy))]))] + inner.kvs)
            bodies[decoy] = d
            dref = Obj([("$ref", res_name(decoy))])
            dsite = rng.choice([dref, dref, Obj([("allOf", [dref])])])
        sites.insert(rng.choice([0, 0, len(sites)]), dsite)
        nsites += 1
    root = bodies[0]
    arr = rng.random() < 0.5
    if arr:
        root.set("prefixItems", sites)
    else:
        root.set("properties", Obj([("s%d" % i, st) for i, st in enumerate(sites)]))
    defs = root.get("$defs")
    docs = []
    g_remote = rng.random() < 0.2
    for i in range(1, k + 1 + (1 if decoy else 0)):
        if i == k and g_remote:
            docs.append(["http://x.test/dyn/" + res_name(i), bodies[i]])
        else:
            defs.kvs.append(("res%d" % i, bodies[i]))
    import itertools
    insts = []
    combos = list(itertools.product(range(k + 1), repeat=nsites))
    if len(combos) > 30:
        combos = rng.sample(combos, 24) + [(m,) * nsites for m in range(k + 1)]
    for ms in combos:
        insts.append([mark(m) for m in ms] if arr else Obj([("s%d" % i, mark(m)) for i, m in enumerate(ms)]))
    if arr:
        insts += [[mark(m)] for m in range(k + 1)]
    else:
        insts += [Obj([("s%d" % i, mark(m))]) for i in range(nsites) for m in range(k + 1)]
    return {"op": "validate", "args": {"schema": root, "docs": docs, "base": BASE, "loader": True, "insts": insts},
            "meta": {"expect": None, "resources": k + 1, "kinds": kinds, "topo": True}}


def dag(rng):
    """Several Loader DOCUMENTS that refer to one another in a directed acyclic graph (diamonds), entered from several use sites of the
    root: documents 1..m (m = 2..4), the last one (X) holds the $dynamicRef '#N'; every other document hops ($ref / allOf / fragment-less
    $dynamicRef) to a LATER document, so two use sites reach X along different paths (root -> X directly, root -> L -> X, root -> L1 ->
    L2 -> X, ...) and one document is referenced from several places. The use sites are properties with shuffled names (or array
    positions), so the order in which the resolver first meets — and loads — the documents is independent of the order of the
    evaluation paths. Each document may carry one embedded resource on its path (the hop, or in X the $dynamicRef itself, then sits in
    the embedded resource), each declaring $dynamicAnchor N / $anchor N / nothing; the root mostly declares nothing. A Loader
    document only ever refers to the ROOT of another Loader document or into itself (no instance of known finding D9).
    Expected marks from the specification's rule (outermost declaring resource on the path, else the initial target)."""
    m = rng.randint(2, 4)
    X = m
    nres = m + 1
    kinds = [rng.choice(["none", "none", "none", "dyn"])] + [rng.choice(["dyn", "dyn", "anchor", "none"]) for _ in range(m)]
    kinds[X] = rng.choice(["dyn", "dyn", "dyn", "dyn", "anchor", "none"])
    emb = {}                                   # host document -> resource index of its embedded resource
    for h in range(m + 1):
        if rng.random() < 0.2:
            emb[h] = nres
            kinds.append(rng.choice(["dyn", "dyn", "anchor", "none"]))
            nres += 1
    if X in emb and rng.random() < 0.7:
        kinds[emb[X]] = "dyn"
    bodies = {}
    for i in range(nres):
        b = Obj()
        if i > 0:
            b.set("$id", res_name(i))
        if kinds[i] != "none":
            b.set("$defs", Obj([("x", target_def(kinds[i], i))]))
        bodies[i] = b

    def hop(to):
        h = rng.random()
        if h < 0.6:
            return [("$ref", res_name(to))]
        if h < 0.85:
            return [("allOf", [wrap(rng, Obj([("$ref", res_name(to))]), rng.randint(0, 1))])]
        return [("$dynamicRef", res_name(to))]

    def put(i, kvs):
        for kk, vv in kvs:
            bodies[i].set(kk, vv)

    # the path a document contributes: itself, then its embedded resource if it has one
    def seg(i):
        return [i, emb[i]] if i in emb and i > 0 else [i]

    nxt = {}
    for i in range(1, m):
        nxt[i] = rng.randint(i + 1, m)
    for i in range(1, m + 1):
        s = seg(i)
        if len(s) == 2:
            put(i, hop(s[1]))
        last = s[-1]
        if i == X:
            put(last, [("$dynamicRef", rng.choice(["#N", "#N", "#N", res_name(last) + "#N"]))])
        else:
            put(last, hop(nxt[i]))

    def path_from(d):
        p = []
        while True:
            p += seg(d)
            if d == X:
                return p
            d = nxt[d]

    # use sites: the first two enter different documents; every later one any document
    nsites = rng.randint(2, 4)
    entries = rng.sample(range(1, m + 1), 2) + [rng.randint(1, m) for _ in range(nsites - 2)]
    if X not in entries and rng.random() < 0.6:
        entries[rng.randrange(len(entries))] = X
    names = rng.sample(["a", "b", "c", "d", "e", "f"], nsites)
    sites, paths = [], []
    emb_to = None
    if 0 in emb:
        # the resource embedded in the root document hops to one document; the sites that go through it share that hop
        emb_to = rng.randint(1, m)
        put(emb[0], hop(emb_to))
    for s_i, d in enumerate(entries):
        if emb_to is not None and rng.random() < 0.4:
            sites.append(wrap(rng, Obj([("$ref", res_name(emb[0]))]), rng.randint(0, 1)))
            paths.append([0, emb[0]] + path_from(emb_to))
        else:
            sites.append(wrap(rng, Obj(hop(d)), rng.randint(0, 2)))
            paths.append([0] + path_from(d))
    f = paths[0][-1]
    exps = [expected(kinds, p, "frag", f) for p in paths]
    root = bodies[0]
    arr = rng.random() < 0.3
    if arr:
        root.set("prefixItems", sites)
    else:
        root.set("properties", Obj([(nm, st) for nm, st in zip(names, sites)]))
    defs = root.get("$defs") or Obj()
    docs = []
    for h, e in emb.items():
        if h == 0:
            defs.kvs.append(("res%d" % e, bodies[e]))
        else:
            hd = bodies[h].get("$defs") or Obj()
            hd.kvs.append(("res%d" % e, bodies[e]))
            bodies[h].set("$defs", hd)
    if defs.kvs:
        root.set("$defs", defs)
    order = list(range(1, m + 1))
    rng.shuffle(order)
    for i in order:
        docs.append(["http://x.test/dyn/" + res_name(i), bodies[i]])
    insts, expv = [], []
    if arr:
        import itertools
        combos = list(itertools.product(range(nres), repeat=nsites))
        if len(combos) > 24:
            combos = rng.sample(combos, 20)
        combos.append(tuple(e if e is not None else 0 for e in exps))
        for ms in combos:
            insts.append([mark(x) for x in ms])
            expv.append(all(e == x for e, x in zip(exps, ms)))
        for x in range(nres):
            insts.append([mark(x)])
            expv.append(exps[0] == x)
    else:
        seq = [(s_i, x) for s_i in range(nsites) for x in range(nres)]
        rng.shuffle(seq)
        for s_i, x in seq:
            insts.append(Obj([(names[s_i], mark(x))]))
            expv.append(exps[s_i] == x)
        insts.append(Obj([(nm, mark(e if e is not None else 0)) for nm, e in zip(names, exps)]))
        expv.append(True)
    if any(e is None for e in exps):
        expv = None
    return {"op": "validate", "args": {"schema": root, "docs": docs, "base": BASE, "loader": True, "insts": insts},
            "meta": {"expect": expv, "resources": nres, "kinds": kinds, "dag": True, "paths": paths, "entries": entries}}


ANCHOR_NAMES = ["N", "node", "n-1", "a_b", "x.y", "T2", "_", "nœud", "é"]


def pct(rng, name, every=False):
    """name as a URI fragment with one / several / all of its characters percent-encoded (upper- or lower-case hex digits): another
    spelling of the same fragment (RFC 3986 section 2.1: the encoding of a character and the character are equivalent in a fragment)"""
    out, some = [], False
    for i, ch in enumerate(name):
        must = ord(ch) > 0x7f and rng.random() < 0.8
        if must or every or rng.random() < 0.4:
            h = "".join("%%%02X" % b for b in ch.encode("utf-8"))
            out.append(h.lower() if rng.random() < 0.25 else h)
            some = True
        else:
            out.append(ch)
    if not some:
        h = "%%%02X" % ord(name[0]) if ord(name[0]) < 0x80 else "".join("%%%02X" % b for b in name[0].encode("utf-8"))
        out[0] = h
    return "".join(out)


def respell(rng, op):
    """The same operation with the anchor called something else than `N` and every reference fragment that names it spelled, reference
    by reference, plainly or with percent-escapes (`#%6Eode`, `r2#nod%65`, `#n%C5%93ud`). Fragments are compared after decoding, at
    Resolve time (initial target) and at Validate time (search of the dynamic scope), so nothing else changes: the expectations of the
    operation stay what they were."""
    name = rng.choice(ANCHOR_NAMES)
    p_enc = rng.choice([0.5, 0.8, 1.0])

    def frag():
        if rng.random() < p_enc:
            return pct(rng, name, every=rng.random() < 0.2)
        return name

    def walk(v):
        if isinstance(v, Obj):
            kvs = []
            for k, x in v.kvs:
                if k in ("$dynamicAnchor", "$anchor") and x == "N":
                    x = name
                elif k in ("$dynamicRef", "$ref") and isinstance(x, str) and x.endswith("#N"):
                    x = x[:-1] + frag()
                else:
                    x = walk(x)
                kvs.append((k, x))
            return Obj(kvs)
        if isinstance(v, list):
            return [walk(x) for x in v]
        return v

    a = dict(op["args"])
    a["schema"] = walk(a["schema"])
    a["docs"] = [[u, walk(b)] for u, b in a.get("docs") or []]
    return {"op": op["op"], "args": a, "meta": dict(op["meta"], respelled=name)}


def override_case(rng):
    """An extension point overridden twice: a generic resource G whose items are `$dynamicRef '#N'`, a middle resource M that declares N
    and refers to G, and sibling properties of the root that reach M either directly or through a resource of their own that declares N
    again (an override of an override). Within ONE Validate call M is entered several times at the same stack depth, under prefixes that
    do or do not declare N: each property has its own outermost declarer. Expected verdicts by construction."""
    cons = [("number", lambda v: isinstance(v, Num)), ("integer", lambda v: isinstance(v, Num) and v.frac().denominator == 1),
            ("string", lambda v: isinstance(v, str)), ("null", lambda v: v is None), ("boolean", lambda v: isinstance(v, bool))]
    vals = [Num("1.5"), Num("2"), "s", None, True]
    child = rng.choice(["list", "l"])
    gen_ = Obj([("$id", "gen"), ("properties", Obj([(child, Obj([("items", Obj([("$dynamicRef", "#N")]))]))])),
                ("$defs", Obj([("d", Obj([("$dynamicAnchor", "N")]))]))])
    cm = rng.choice(cons)
    mid = Obj([("$id", "mid"), ("$ref", "gen"), ("$defs", Obj([("t", Obj([("$dynamicAnchor", "N"), ("type", cm[0])]))]))])
    k = rng.randint(2, 4)
    names = rng.sample(["plain", "strict", "a", "b", "m", "z", "0"], k)
    props, judge_of = [], {}
    for i, nm in enumerate(names):
        if rng.random() < 0.5:
            sub = Obj([("$ref", "mid")])
            if rng.random() < 0.3:
                sub = Obj([("allOf", [Obj([("$ref", "mid")])])])         # one frame more: another depth
            judge_of[nm] = cm[1]
        else:
            ci = rng.choice(cons)
            sub = Obj([("$id", "ov%d" % i), ("$ref", "mid"), ("$defs", Obj([("t", Obj([("$dynamicAnchor", "N"), ("type", ci[0])]))]))])
            judge_of[nm] = ci[1]
        props.append((nm, sub))
    root = Obj([("properties", Obj(props)), ("$defs", Obj([("gen", gen_), ("mid", mid)]))])
    if rng.random() < 0.2:
        # the root declares N as well: then it is the outermost declarer on every path
        cr = rng.choice(cons)
        root.get("$defs").set("rt", Obj([("$dynamicAnchor", "N"), ("type", cr[0])]))
        judge_of = {nm: cr[1] for nm in names}
    insts, expv = [], []
    for _ in range(8):
        ks = rng.sample(names, rng.randint(1, k))
        rng.shuffle(ks)
        kvs, ok = [], True
        for nm in ks:
            v = rng.choice(vals)
            kvs.append((nm, Obj([(child, [v])])))
            ok = ok and judge_of[nm](v)
        insts.append(Obj(kvs))
        expv.append(ok)
    return {"op": "validate", "args": {"schema": root, "docs": [], "base": BASE, "loader": True, "insts": insts},
            "meta": {"expect": expv, "resources": k + 2, "override": True}}


def multi_name(rng):
    """TWO OR THREE dynamic anchor names at once. Resources 0..k (root, embedded resources of the root, Loader documents) each declare a
    random subset of the names — as $dynamicAnchor, $anchor or not at all — under $defs keys drawn at random, so the order in which a
    document introduces the names (keyword / key traversal order) differs from document to document (root: N then P, a Loader
    document: P then N). A chain of hops that crosses from the root document into Loader documents ends in a resource holding one
    `$dynamicRef '#<name>'` per name, each under its own property. Expected per name by the specification's rule, independently of the
    other names: the outermost resource on the path that declares THAT name dynamically, else the initial target."""
    names = rng.sample(["N", "P", "Q", "node", "t"], rng.choice([2, 2, 3]))
    k = rng.randint(1, 4)
    order = list(range(1, k + 1))
    rng.shuffle(order)
    path = [0] + order[: rng.randint(1, k)]
    f = path[-1]
    cut = rng.randint(1, len(path) - 1) if rng.random() < 0.85 else len(path)     # path[cut:] are Loader documents (no D9 shape:
    remote = set(path[cut:])                                                      # a loaded document never refers to an embedded resource)
    kinds = []
    for i in range(k + 1):
        kd = {}
        for nm in names:
            kd[nm] = rng.choice(["dyn", "dyn", "none", "none", "anchor"]) if i != f else rng.choice(["dyn"] * 8 + ["anchor", "none"])
        kinds.append(kd)
    bodies = {}
    for i in range(k + 1):
        b = Obj()
        if i > 0:
            b.set("$id", res_name(i))
        decl = [nm for nm in names if kinds[i][nm] != "none"]
        rng.shuffle(decl)
        keys = sorted(rng.sample(["a", "d", "m", "x", "z", "0", "B"], len(decl)))
        if rng.random() < 0.5:
            keys.reverse()           # (document order of the members; the package may walk them in its own order)
        defs = []
        for key, nm in zip(keys, decl):
            defs.append((key, Obj([("$dynamicAnchor" if kinds[i][nm] == "dyn" else "$anchor", nm), ("const", "M%d%s" % (i, nm))])))
        if defs:
            b.set("$defs", Obj(defs))
        bodies[i] = b
    for a, bnext in zip(path, path[1:]):
        hop = rng.random()
        if hop < 0.5:
            bodies[a].set("$ref", res_name(bnext))
        elif hop < 0.8:
            bodies[a].set("allOf", [Obj([("$ref", res_name(bnext))])])
        else:
            bodies[a].set("$dynamicRef", res_name(bnext))
    use = list(names)
    rng.shuffle(use)
    bodies[f].set("properties", Obj([("p" + nm, Obj([("$dynamicRef", rng.choice(["#", "#", res_name(f) + "#"]) + nm)])) for nm in use]))
    root = bodies[0]
    defs = root.get("$defs") or Obj()
    docs = []
    for i in range(1, k + 1):
        if i in remote:
            docs.append(["http://x.test/dyn/" + res_name(i), bodies[i]])
        else:
            defs.kvs.append(("res%d" % i, bodies[i]))
    if defs.kvs:
        root.set("$defs", defs)
    resolvable = all(kinds[f][nm] != "none" for nm in names)
    exp = {}
    for nm in names:
        if kinds[f][nm] == "anchor":
            exp[nm] = f
        else:
            exp[nm] = next((r for r in path if kinds[r][nm] == "dyn"), f)
    insts, expv = [], []
    for nm in names:
        for i in path:
            insts.append(Obj([("p" + nm, "M%d%s" % (i, nm))]))
            expv.append(exp[nm] == i)
    insts.append(Obj([("p" + nm, "M%d%s" % (exp[nm], nm)) for nm in names]))
    expv.append(True)
    return {"op": "validate", "args": {"schema": root, "docs": docs, "base": BASE, "loader": True, "insts": insts},
            "meta": {"expect": expv if resolvable else None, "resources": k + 1, "multi_name": names, "path": path, "remote": sorted(remote)}}


def gen(rng, tier, n):
    ops = [o for o in suite.suite_ops("draft2020-12") if "dynamicRef" in o["meta"]["suite"] or "dynamic" in o["meta"]["suite"]]
    while len(ops) < n:
        r = rng.random()
        if r >= 0.92:
            ops.append(multi_name(rng))
            continue
        o = chain(rng) if r < 0.42 else fork(rng) if r < 0.55 else override_case(rng) if r < 0.62 else dag(rng) if r < 0.7 else topo(rng)
        if rng.random() < 0.12:
            o = respell(rng, o)
        ops.append(o)
    return ops


def nontrivial(o):
    me = o.get("meta") or {}
    return me.get("kind") == "suite" or me.get("resources", 0) >= 2


def judge(o, go, m):
    st, d = vjudge.judge_validate(o, go, m)
    if st == "violation:expected" and (o.get("meta") or {}).get("d9"):
        return "known:D9", d
    return st, d
