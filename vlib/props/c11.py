"""C11 — Equal is JSON value equality."""
import sys

from .. import gen_values as gv
from ..wire import canon

if hasattr(sys, "set_int_max_str_digits"):
    sys.set_int_max_str_digits(0)      # huge_number_case: the oracle (Fraction) reads integers of 10^4 digits

ID = "C11"
N_QUICK = 20000
N_THOROUGH = 400000
RULE = ("pairs (x, y) of Go representations of JSON values: same value in two independently chosen representations, "
        "a one-leaf mutation, or independent values; plus the exhaustive kind x kind table. Non-trivial: the two sides "
        "use different representation types or are containers; distinct = distinct operation text")
RULE += (". Widened: (~3%) y = the pointer to the FIRST ELEMENT of the Go array x points to (harness argument yFirstOfX: &arr and "
         "&arr[0], &arr[0][0] — one address under two pointer types; a container and its first member are different JSON values), at the "
         "top or both boxed in []any; (~2%) pointers to ZERO-SIZE values of different types (*[0]int, *[1][0]any, *[2][0]int, … — all "
         "zero-size allocations share one address) denoting [] / [[]] / [[],[]]; (~3%) byte sequences ([N]uint8 by value, []uint8, "
         "*[N]uint8, []any) of equal and of different length, alone and inside arrays / objects")
RULE += ("; a fixed handful (24 quick / 80 thorough) of json.Number pairs with decimal exponents around +-10^4 or 10^4 digits: one value in two "
         "spellings, zero with a huge exponent against 0 in other representations, one-step differences")
TRUSTED = ["harness realises descriptors with reflect (goval.go); python oracle canon() used as a third opinion"]
ASSUMPTIONS = ["nil slices / nil maps and non-JSON kinds are outside the property's domain and are not generated here",
               "strings are valid UTF-8"]


def kind_table(rng):
    """Every leaf kind against every leaf kind with equal and unequal values."""
    ops = []
    kinds = list(gv.INT_RANGES) + list(gv.FLOAT_BITS) + ["jnum", "string", "mystring", "bool", "*int", "*any",
                                                         "[]any", "[]int", "[1]int", "[1]any", "map[string]any",
                                                         "map[mystring]int", "[]float64", "*[]any", "nil"]
    vals = [gv.Num("1"), gv.Num("0"), "1", True, None, [gv.Num("1")], gv.Obj([("a", gv.Num("1"))]), [], gv.Obj()]
    for kx in kinds:
        for ky in kinds:
            for vx in vals:
                for vy in (vx, vals[(vals.index(vx) + 1) % len(vals)]):
                    dx = None if kx == "nil" and vx is None else gv.represent_as(rng, vx, kx) if kx != "nil" else "skip"
                    dy = None if ky == "nil" and vy is None else gv.represent_as(rng, vy, ky) if ky != "nil" else "skip"
                    if dx == "skip" or dy == "skip":
                        continue
                    if (dx is None and vx is not None) or (dy is None and vy is not None):
                        continue
                    ops.append({"op": "equal", "args": {"x": dx, "y": dy},
                                "meta": {"expect": canon(vx) == canon(vy), "table": True}})
    return ops


def boundary_table(rng):
    """Word boundaries: 2^63, 2^64, 2^31, 2^32, 2^53 and their neighbours in every representation that holds them exactly,
    against each other and against the values machine conversions alias them with (wrapped, saturated, negated)."""
    ops = []
    B = [2**63, -2**63, 2**63 - 1, 2**64, 2**64 - 1, 2**32, 2**31, -2**31, 2**53, 2**53 + 1, 2**63 - 1024, -2**63 - 1, 0, -1, 1]
    kinds = ["int64", "uint64", "int", "uint", "int32", "uint32", "float64", "float32", "jnum", "myint"]
    reps = []
    for b in B:
        for k in kinds:
            d = gv.represent_as(rng, gv.Num(str(b)), k)
            if d is not None:
                reps.append((b, d))
    for (bx, dx) in reps:
        for (by, dy) in reps:
            if dx["t"] == dy["t"] and bx != by and rng.random() < 0.5:
                continue
            if bx == by or abs(bx) >= 2**31 or abs(by) >= 2**31:
                wrap = rng.choice([0, 0, 1, 2])
                x, y = dx, dy
                for _ in range(wrap):
                    x, y = {"t": "[]any", "v": [x]}, {"t": "[]any", "v": [y]}
                ops.append({"op": "equal", "args": {"x": x, "y": y}, "meta": {"expect": bx == by, "table": True}})
    return ops


FIRST_ELEMS = ["any", "any", "any", "int", "float64", "jnum", "string", "*int", "[]any", "map[string]any", "uint8", "bool", "*any"]


def first_member_case(rng):
    """x = &arr, y = &arr[0] (or &arr[0][0]): the same address, a container and its first member."""
    for _ in range(6):
        deep = rng.random() < 0.35
        n = rng.choice([1, 1, 1, 2, 3])
        if deep:
            m = rng.choice([1, 1, 2])
            j = [[gv.gen_json(rng, 1) for _ in range(m)] for _ in range(n)]
        else:
            j = [gv.gen_json(rng, 2) for _ in range(n)]
        et = rng.choice(FIRST_ELEMS)
        if deep:
            T = "[%d][%d]%s" % (n, len(j[0]), et)
        else:
            T = "[%d]%s" % (n, et)
        d = gv.represent_as(rng, j, T)
        if d is None:
            # a homogeneous array of that element type
            leaf = lambda: gv.gen_json(rng, 1) if et in ("any", "*any") else {"int": gv.Num(str(rng.randint(-3, 3))), "*int": gv.Num("1"), "float64": gv.Num("0.5"), "jnum": gv.Num("1"),
                            "string": "a", "[]any": [gv.gen_json(rng, 0)], "map[string]any": gv.Obj([("a", gv.gen_json(rng, 0))]), "uint8": gv.Num("7"), "bool": True}[et]
            j = [[leaf() for _ in range(len(j[0]))] for _ in range(n)] if deep else [leaf() for _ in range(n)]
            d = gv.represent_as(rng, j, T)
            if d is None:
                continue
        k = rng.choice([1, 2]) if deep else 1
        first_d, first_j, ft = d, j, T
        for _ in range(k):
            first_d, first_j = first_d["v"][0], first_j[0]
            ft = ft[ft.index("]") + 1:]
        if first_d is None:
            first_d = {"t": "any", "v": None}       # an interface element holding nil: y points to that interface
        x = {"t": "*" + T, "v": d}
        y = {"t": "*" + ft, "v": first_d}
        o = {"op": "equal", "args": {"x": x, "y": y, "yFirstOfX": k}, "meta": {"expect": canon(j) == canon(first_j), "alias": True, "first": True}}
        if rng.random() < 0.3:
            o["args"]["wrapBoth"] = rng.choice([1, 1, 2])
        return o
    return None


ZERO_SIZE = [("[0]int", []), ("[0]any", []), ("[0]string", []), ("[1][0]int", [[]]), ("[1][0]any", [[]]), ("[2][0]int", [[], []]),
             ("[0][2]any", []), ("[1][1][0]any", [[[]]]), ("[3][0]uint8", [[], [], []]), ("[0]uint8", [])]


def zero_size_case(rng):
    """Pointers to zero-size Go values of (mostly) different types: every zero-size allocation has one and the same address."""
    (tx, jx), (ty, jy) = rng.choice(ZERO_SIZE), rng.choice(ZERO_SIZE)
    x = {"t": "*" + tx, "v": gv.represent_as(rng, jx, tx)}
    y = {"t": "*" + ty, "v": gv.represent_as(rng, jy, ty)}
    for _ in range(rng.choice([0, 0, 1])):
        x, y = {"t": "[]any", "v": [x]}, {"t": "[]any", "v": [y]}
    return {"op": "equal", "args": {"x": x, "y": y}, "meta": {"expect": canon(jx) == canon(jy), "zero": True}}


def same_type_numbers(rng):
    """Both sides of ONE Go type whose leaves are json.Number (kind String, yet a JSON number): []json.Number, [N]json.Number,
    map[string]json.Number, nested — equal values in different spellings (1 / 1.0 / 1e0 / 10e-1) and one-leaf differences."""
    k = rng.randint(1, 4)
    nums = [gv.gen_num(rng) for _ in range(k)]
    shape = rng.choice(["[]jnum", "[%d]jnum" % k, "map[string]jnum", "[][]jnum", "[]*jnum", "map[mystring][]jnum"])
    if shape.startswith("map[string]") or shape.startswith("map[mystring]"):
        keys = rng.sample(gv.NAMES, min(k, len(gv.NAMES)))
        j1 = gv.Obj([(kk, (nums[i] if "[]" not in shape else [nums[i]])) for i, kk in enumerate(keys)])
    elif shape == "[][]jnum":
        j1 = [[x] for x in nums]
    else:
        j1 = list(nums)
    j2 = j1 if rng.random() < 0.6 else gv.mutate_leaf(rng, j1)
    x, y = gv.represent_as(rng, j1, shape), gv.represent_as(rng, j2, shape)
    if x is None or y is None:
        return None
    return {"op": "equal", "args": {"x": x, "y": y}, "meta": {"expect": canon(j1) == canon(j2), "sametype": shape}}


HUGE_EXPS = [9998, 9999, 10000, 10000, 10000, 10001, 10003, 12345, 20000]


def huge_number_case(rng):
    """Two json.Numbers with a HUGE decimal exponent or very many digits (|exponent| around 10^4: far beyond every machine format, small
    for exact rational arithmetic): one value m * 10^(+-e) spelled in two ways (mantissa shifted against the exponent, a decimal point
    moved, the integer written out with all its 10^4 digits, upper-case E, explicit +), a zero with such an exponent against 0 / 0.0 / an
    int / a float64 zero, and one-step differences (exponent +-1, other sign of the exponent, mantissa +1). Equal is by mathematical
    value. A fixed handful per run (exact rationals of 10^4 digits: cheap for a few operations, not for thousands)."""
    e = rng.choice(HUGE_EXPS)
    neg = rng.random() < 0.35
    r = rng.random()
    if r < 0.2:
        # zero, whatever the exponent
        a = rng.choice(["0e%d", "0E-%d", "0.0e%d", "-0e%d", "0e+%d"]) % e
        y = rng.choice([{"t": "jnum", "v": "0"}, {"t": "jnum", "v": "0.0"}, {"t": "jnum", "v": "0e-%d" % (e + 1)}, {"t": "int", "v": "0"},
                        {"t": "float64", "v": "0"}, {"t": "jnum", "v": "-0"}, {"t": "jnum", "v": "1e-%d" % e}, {"t": "uint8", "v": "0"}])
        x = {"t": "jnum", "v": a}
        jy = gv.Num(y["v"])
    else:
        m = rng.choice(["1", "1", "25", "7", "120", "999", "1024"])
        sg = "-" if neg else ""
        E = rng.choice(["e", "E", "e+"]) if not neg else rng.choice(["e-", "E-"])
        if len(m) > 1 and rng.random() < 0.4:
            # 2.5E+12345 for 25e12344
            a = "%s.%s%s%d" % (m[0], m[1:], E, e + (len(m) - 1) * (-1 if neg else 1)) if not neg else "%s.%s%s%d" % (m[0], m[1:], E, e - (len(m) - 1))
        else:
            a = "%s%s%d" % (m, E, e)
        k = rng.choice([1, 1, 2, 3, 17])
        spell = rng.random()
        if neg:
            b = rng.choice(["%s0%s%d" % (m, "e-", e + 1), "0.%s%s%d" % (m, "E-", e - len(m)), "%s%s%d" % (m + "0" * k, "e-", e + k)])
        elif spell < 0.35:
            b = m + "0" * e                                  # all digits written out
        elif spell < 0.5:
            b = m + "0" * (e - k) + "e%d" % k                # very many digits AND an exponent
        else:
            b = rng.choice(["%s0e%d" % (m, e - 1), "%se%d" % (m + "0" * k, e - k), "0.%se%d" % (m, e + len(m)), "%s.0E%d" % (m, e)])
        if neg and a.count(".") and e - (len(m) - 1) < 0:
            return None
        if rng.random() < 0.35:
            # a one-step difference
            how = rng.choice(["exp", "exp", "sign", "digit", "short"])
            if how == "exp":
                b = "%se%s%d" % (m, "-" if neg else "", e + rng.choice([-1, 1]))
            elif how == "sign":
                b = "%se%s%d" % (m, "" if neg else "-", e)
            elif how == "digit":
                b = "%se%s%d" % (str(int(m) + 1), "-" if neg else "", e)
            elif not neg:
                b = m + "0" * (e - 1)
        x, y = {"t": "jnum", "v": a}, {"t": "jnum", "v": b}
        jy = gv.Num(b)
    jx = gv.Num(x["v"])
    if rng.random() < 0.5:
        x, y, jx, jy = y, x, jy, jx
    for _ in range(rng.choice([0, 0, 0, 1])):
        x, y = {"t": "[]any", "v": [x]}, {"t": "[]any", "v": [y]}
    return {"op": "equal", "args": {"x": x, "y": y}, "meta": {"expect": canon(jx) == canon(jy), "huge": True}}


def gen(rng, tier, n):
    ops = kind_table(rng) + boundary_table(rng)
    for _ in range(24 if tier == "quick" else 80):
        o = huge_number_case(rng)
        if o is not None:
            ops.append(o)
    for _ in range(n // 40):
        o = same_type_numbers(rng)
        if o is not None:
            ops.append(o)
    depth = 3 if tier == "quick" else 4
    while len(ops) < n:
        r0 = rng.random()
        if r0 < 0.03:
            o = first_member_case(rng)
            if o is not None:
                ops.append(o)
            continue
        if r0 < 0.05:
            ops.append(zero_size_case(rng))
            continue
        if r0 < 0.08:
            j1, j2 = gv.gen_bytes_pair(rng)
            x, y = gv.represent_bytes(rng, j1), gv.represent_bytes(rng, j2)
            ops.append({"op": "equal", "args": {"x": x, "y": y}, "meta": {"expect": canon(j1) == canon(j2), "bytes": True}})
            continue
        j1 = gv.gen_json(rng, depth)
        r = rng.random()
        if r < 0.45:
            j2 = j1
        elif r < 0.85:
            j2 = gv.mutate_leaf(rng, j1)
        else:
            j2 = gv.gen_json(rng, depth)
        if isinstance(j2, gv.Obj) and rng.random() < 0.5:
            kv = list(j2.kvs)
            rng.shuffle(kv)
            j2 = gv.Obj(kv)
        x, y = gv.represent(rng, j1), gv.represent(rng, j2)
        if isinstance(x, dict) and rng.random() < 0.3:
            # both sides of one and the same Go type (identical array / slice / map / pointer types take their own paths in equalValue)
            y2 = gv.represent_as(rng, j2, x["t"])
            if y2 is not None:
                y = y2
        if rng.random() < 0.5:
            x, y = y, x
            j1, j2 = j2, j1
        if isinstance(j1, list) and len(j1) >= 1 and isinstance(x, dict) and x["t"].startswith("[]") and rng.random() < 0.5:
            # y is x[:k]: the same backing array, another length, hence another JSON value (unless k = len)
            k = rng.randint(0, len(j1))
            yd = {"t": x["t"], "v": (x["v"] or [])[:k]}
            ops.append({"op": "equal", "args": {"x": x, "y": yd, "yPrefixOfX": k}, "meta": {"expect": k == len(j1), "alias": True}})
            continue
        ops.append({"op": "equal", "args": {"x": x, "y": y}, "meta": {"expect": canon(j1) == canon(j2)}})
    return ops


def nontrivial(o):
    x, y = o["args"].get("x"), o["args"].get("y")
    tx = x["t"] if isinstance(x, dict) else "nil"
    ty = y["t"] if isinstance(y, dict) else "nil"
    return tx != ty or tx[0] in "[m*"


def judge(o, go, m):
    if go is None:
        return "violation:harness", "no answer from harness"
    if go.get("outcome") == "harness-error":
        return "skip", go.get("detail")
    if m is None or "model" not in m:
        return "violation:driver", "driver gave no answer: %r" % (m,)
    mo = m["model"]
    if go.get("equal_rev") is not None and go.get("equal_rev") != go.get("equal"):
        return "violation", "Equal is not symmetric on the real code: Equal(x, y) = %r, Equal(y, x) = %r" % (go.get("equal"), go.get("equal_rev"))
    if go.get("outcome") != mo.get("outcome") or go.get("equal") != mo.get("equal"):
        return "violation", "Equal on the real code = %r, model (proved = JSON equality) = %r, spec = %r" % (go, mo, m.get("spec"))
    if m.get("spec") is not None and mo.get("outcome") == "ok" and m["spec"] != mo.get("equal"):
        return "violation:model-vs-spec", "model %r differs from spec %r (theorem equal_iff mis-stated?)" % (mo, m["spec"])
    exp = o.get("meta", {}).get("expect")
    if exp is not None and mo.get("outcome") == "ok" and exp != mo.get("equal"):
        return "violation:oracle", "python oracle says %r, model says %r" % (exp, mo)
    return "agree", ""
