"""C11 — Equal is JSON value equality."""
from .. import gen_values as gv
from ..wire import canon

ID = "C11"
N_QUICK = 20000
N_THOROUGH = 400000
RULE = ("pairs (x, y) of Go representations of JSON values: same value in two independently chosen representations, "
        "a one-leaf mutation, or independent values; plus the exhaustive kind x kind table. Non-trivial: the two sides "
        "use different representation types or are containers; distinct = distinct operation text")
TRUSTED = ["harness realises descriptors with reflect (goval.go); python oracle canon() used as a third opinion"]
ASSUMPTIONS = ["nil slices / nil maps and non-JSON kinds are outside the property's domain and are not generated here",
               "strings are valid UTF-8"]


def kind_table(rng):
    """Every leaf kind against every leaf kind with equal and unequal values."""
    ops = []
    kinds = list(gv.INT_RANGES) + list(gv.FLOAT_BITS) + ["jnum", "string", "mystring", "bool", "*int", "*any",
                                                         "[]any", "[]int", "[1]int", "[1]any", "map[string]any",
                                                         "map[mystring]int", "[]float64", "*[]any", "nil"]
    vals = [gv.Num("1"), gv.Num("0"), "1", True, None, [gv.Num("1")], gv.Obj([("a", gv.Num("1"))]), [], gv.Obj()]
    for kx in kinds:
        for ky in kinds:
            for vx in vals:
                for vy in (vx, vals[(vals.index(vx) + 1) % len(vals)]):
                    dx = None if kx == "nil" and vx is None else gv.represent_as(rng, vx, kx) if kx != "nil" else "skip"
                    dy = None if ky == "nil" and vy is None else gv.represent_as(rng, vy, ky) if ky != "nil" else "skip"
                    if dx == "skip" or dy == "skip":
                        continue
                    if (dx is None and vx is not None) or (dy is None and vy is not None):
                        continue
                    ops.append({"op": "equal", "args": {"x": dx, "y": dy},
                                "meta": {"expect": canon(vx) == canon(vy), "table": True}})
    return ops


def boundary_table(rng):
    """Word boundaries: 2^63, 2^64, 2^31, 2^32, 2^53 and their neighbours in every representation that holds them exactly,
    against each other and against the values machine conversions alias them with (wrapped, saturated, negated)."""
    ops = []
    B = [2**63, -2**63, 2**63 - 1, 2**64, 2**64 - 1, 2**32, 2**31, -2**31, 2**53, 2**53 + 1, 2**63 - 1024, -2**63 - 1, 0, -1, 1]
    kinds = ["int64", "uint64", "int", "uint", "int32", "uint32", "float64", "float32", "jnum", "myint"]
    reps = []
    for b in B:
        for k in kinds:
            d = gv.represent_as(rng, gv.Num(str(b)), k)
            if d is not None:
                reps.append((b, d))
    for (bx, dx) in reps:
        for (by, dy) in reps:
            if dx["t"] == dy["t"] and bx != by and rng.random() < 0.5:
                continue
            if bx == by or abs(bx) >= 2**31 or abs(by) >= 2**31:
                wrap = rng.choice([0, 0, 1, 2])
                x, y = dx, dy
                for _ in range(wrap):
                    x, y = {"t": "[]any", "v": [x]}, {"t": "[]any", "v": [y]}
                ops.append({"op": "equal", "args": {"x": x, "y": y}, "meta": {"expect": bx == by, "table": True}})
    return ops


def gen(rng, tier, n):
    ops = kind_table(rng) + boundary_table(rng)
    depth = 3 if tier == "quick" else 4
    while len(ops) < n:
        j1 = gv.gen_json(rng, depth)
        r = rng.random()
        if r < 0.45:
            j2 = j1
        elif r < 0.85:
            j2 = gv.mutate_leaf(rng, j1)
        else:
            j2 = gv.gen_json(rng, depth)
        if isinstance(j2, gv.Obj) and rng.random() < 0.5:
            kv = list(j2.kvs)
            rng.shuffle(kv)
            j2 = gv.Obj(kv)
        x, y = gv.represent(rng, j1), gv.represent(rng, j2)
        if isinstance(x, dict) and rng.random() < 0.3:
            # both sides of one and the same Go type (identical array / slice / map / pointer types take their own paths in equalValue)
            y2 = gv.represent_as(rng, j2, x["t"])
            if y2 is not None:
                y = y2
        if rng.random() < 0.5:
            x, y = y, x
            j1, j2 = j2, j1
        if isinstance(j1, list) and len(j1) >= 1 and isinstance(x, dict) and x["t"].startswith("[]") and rng.random() < 0.5:
            # y is x[:k]: the same backing array, another length, hence another JSON value (unless k = len)
            k = rng.randint(0, len(j1))
            yd = {"t": x["t"], "v": (x["v"] or [])[:k]}
            ops.append({"op": "equal", "args": {"x": x, "y": yd, "yPrefixOfX": k}, "meta": {"expect": k == len(j1), "alias": True}})
            continue
        ops.append({"op": "equal", "args": {"x": x, "y": y}, "meta": {"expect": canon(j1) == canon(j2)}})
    return ops


def nontrivial(o):
    x, y = o["args"].get("x"), o["args"].get("y")
    tx = x["t"] if isinstance(x, dict) else "nil"
    ty = y["t"] if isinstance(y, dict) else "nil"
    return tx != ty or tx[0] in "[m*"


def judge(o, go, m):
    if go is None:
        return "violation:harness", "no answer from harness"
    if go.get("outcome") == "harness-error":
        return "skip", go.get("detail")
    if m is None or "model" not in m:
        return "violation:driver", "driver gave no answer: %r" % (m,)
    mo = m["model"]
    if go.get("equal_rev") is not None and go.get("equal_rev") != go.get("equal"):
        return "violation", "Equal is not symmetric on the real code: Equal(x, y) = %r, Equal(y, x) = %r" % (go.get("equal"), go.get("equal_rev"))
    if go.get("outcome") != mo.get("outcome") or go.get("equal") != mo.get("equal"):
        return "violation", "Equal on the real code = %r, model (proved = JSON equality) = %r, spec = %r" % (go, mo, m.get("spec"))
    if m.get("spec") is not None and mo.get("outcome") == "ok" and m["spec"] != mo.get("equal"):
        return "violation:model-vs-spec", "model %r differs from spec %r (theorem equal_iff mis-stated?)" % (mo, m["spec"])
    exp = o.get("meta", {}).get("expect")
    if exp is not None and mo.get("outcome") == "ok" and exp != mo.get("equal"):
        return "violation:oracle", "python oracle says %r, model says %r" % (exp, mo)
    return "agree", ""
