"""C14 — Resolve, Validate and Marshal are pure and deterministic."""
import os
import subprocess

from .. import core
from .. import gen_refs
from .. import gen_schema as gs
from .. import vjudge, wire
from ..wire import Obj, Num

ID = "C14"
N_QUICK = 4000
N_THOROUGH = 60000
LEAN_MODULES = ["JSV.Props.C14"]
RULE = ("generated documents of both drafts (map-valued keywords with >= 2 entries favoured) and reference universes with a caching "
        "Loader (the same *Schema is returned for a URI every time); per op: Resolve 3 times on the same Schema object, every instance "
        "validated against each new Resolved and against the first one again, Marshal each round (Go re-randomises every map range); "
        "Schema values built in Go whose name lists (Required, DependentRequired) repeat a name, adjacently or apart; "
        "observed directly: verdict vectors and bytes identical across rounds, schema / instances / loaded documents DeepEqual to "
        "untouched twins; the first 300 ops are re-run in a second process (new hash seeds) and compared; verdicts = model. "
        "Non-trivial: >= 3 keywords; distinct = operation text")
PREFILTER = vjudge.prefilter


def gen(rng, tier, n):
    from .. import gen_schemaval as gsv
    from . import c06, c19
    fields = gsv.fetch_fields(core)
    ops = []
    while len(ops) < n:
        r0 = rng.random()
        if r0 < 0.14:
            # one Validate call that reaches one $dynamicRef through several dynamic scopes (sibling properties, ranged in random order)
            rr = rng.random()
            o = c06.fork(rng) if rr < 0.2 else c06.override_case(rng) if rr < 0.45 else c06.topo(rng, decoy_p=0.85)
            ops.append({"op": "purity", "args": {"schema": o["args"]["schema"], "docs": o["args"]["docs"], "base": o["args"]["base"],
                                                  "insts": rng.sample(o["args"]["insts"], min(10, len(o["args"]["insts"])))},
                        "meta": {"kw": 5, "dynamic": True}})
            continue
        if r0 < 0.26:
            # Marshal on Schema values (PropertyOrder with names that are not properties, nested schemas, Extra): bytes stable, value untouched
            if rng.random() < 0.25:
                o = c19.alias_case(rng, rng.sample(c19.NAMES, rng.randint(2, 4)))
                ops.append({"op": "marshal", "args": {"desc": o["args"]["desc"], "insts": []}, "meta": {"kw": 3, "marshal": True, "alias": True}})
                continue
            if rng.random() < 0.5:
                props = rng.sample(c19.NAMES, rng.randint(0, 4))
                order = [rng.choice(props + ["zz", "q", "stale", "gone"]) for _ in range(rng.randint(0, 6))]
                order = list(dict.fromkeys(order))
                desc = c19.mk(props, order, rng.choice(props) if props and rng.random() < 0.3 else None)
                if props and rng.random() < 0.5:
                    # required names as a Go program collects them: a name may be listed twice (next to each other or apart)
                    req = gsv._with_repeats(rng, rng.sample(props, rng.randint(1, len(props))))
                    desc["nodes"][rng.randrange(len(desc["nodes"]))]["Required"] = req
            else:
                # name lists (Required, DependentRequired / DependencyStrings values) with repeated names, adjacent or apart, in 40 % of them
                desc, _ = gsv.gen_desc(rng, fields, depth=2, big_int_p=0, dup_p=0.4 if rng.random() < 0.6 else 0.0)
            ops.append({"op": "marshal", "args": {"desc": desc, "insts": [gs.gen_instance(rng, 2) for _ in range(2)]}, "meta": {"kw": 3, "marshal": True}})
            continue
        if r0 < 0.31:
            # two (or three) schema resources of one document with ONE URI — an ill-formed but accepted document: which resource a
            # reference through that URI reaches may be anything fixed, but it must be the same at every Resolve and in every process
            d7 = rng.random() < 0.3
            dk = "definitions" if d7 else "$defs"
            k = rng.choice([2, 2, 3])
            names = rng.sample(["A", "B", "C", "a", "m", "z", "0", "é"], k)
            shape = rng.choice(["sibling", "root"])
            dup = "dup.json" if shape == "sibling" else "r.json"
            defs = Obj([(nm, Obj([("$id", dup), (dk, Obj([("T", Obj([("const", nm)]))]))])) for nm in names])
            defs.set("other", Obj([("$id", "other.json"), ("type", "string")]))
            root = Obj(([("$schema", rng.choice(gs.D7_URIS))] if d7 else []) + [("$id", "http://x.test/c14/r.json"), (dk, defs)])
            if shape == "root":
                root.get(dk).set("T", Obj([("const", "root")]))
            root.set("properties", Obj([("p", Obj([("$ref", dup + "#/" + dk + "/T")])), ("q", Obj([("$ref", "http://x.test/c14/" + dup)]))]))
            insts = [Obj([("p", nm)]) for nm in names + ["root", "nomark"]] + [Obj([("q", Obj([(dk, Num("1"))]))]), Obj([("q", "s")])]
            ops.append({"op": "purity", "args": {"schema": root, "insts": insts}, "meta": {"kw": 4, "dupuri": True}})
            continue
        if rng.random() < 0.7:
            draft = "2020" if rng.random() < 0.7 else "7"
            c = gs.Ctx(rng, draft, depth=rng.choice([2, 3]), meta=0.2)
            doc = gs.gen_document(c, rng.choice(gs.D7_URIS) if draft == "7" else None)
            if not isinstance(doc, Obj):
                continue
            insts = [gs.gen_instance(rng) for _ in range(5)]
            ops.append({"op": "purity", "args": {"schema": doc, "insts": insts}, "meta": {"kw": gs.count_keywords(doc)}})
        else:
            root, docs, base, loader, insts, expect, meta = gen_refs.gen_universe(rng, "2020" if rng.random() < 0.7 else "7", 3)
            docs = [d for d in docs if isinstance(d[1], Obj)]
            ops.append({"op": "purity", "args": {"schema": root, "docs": docs, "base": base, "insts": insts[:6]},
                        "meta": {"kw": 5, "universe": True}})
    return ops


def nontrivial(o):
    return (o.get("meta") or {}).get("kw", 0) >= 3


def judge(o, go, m):
    if go is None:
        return "violation:harness", "no answer"
    if go.get("outcome") == "harness-error":
        return "skip", go.get("detail")
    if go.get("outcome") in ("panic", "timeout", "crash"):
        return "violation", "the real package %s" % go.get("outcome")
    if o["op"] == "marshal":
        if go.get("untouched") is False:
            return "violation", "Marshal (or Resolve / Validate of the round trip) modified the Schema value"
        if go.get("outcome") == "ok" and go.get("stable") is False:
            return "violation", "repeated Marshal calls on one Schema value give different results"
        return "agree", ""
    for k, what in (("repeatable", "results differ between repetitions (verdict vector or marshaled bytes)"),
                    ("schema_untouched", "the Schema tree was modified"),
                    ("instances_untouched", "an instance was modified by Validate"),
                    ("loaded_untouched", "a Schema returned by the Loader was modified")):
        if go.get(k) is False:
            return "violation", what
    mo = (m or {}).get("model") or {}
    H = (m or {}).get("H") or []
    if go.get("outcome") != mo.get("outcome"):
        if H:
            return "known:" + H[0], ""
        return "violation", "outcome: real package %s, model %s" % (go.get("outcome"), mo.get("outcome"))
    if go.get("outcome") == "resolved" and (go.get("verdicts") or []) != (mo.get("verdicts") or []):
        if H:
            return "known:" + H[0], ""
        return "violation", "verdicts: real package %r, model %r" % (go.get("verdicts"), mo.get("verdicts"))
    return "agree", ""


def extra(ctx):
    """Second process: the same operations must give the same answers under other hash seeds."""
    rng = ctx["rng"]
    ops = gen(rng, "quick", 300)
    for i, o in enumerate(ops):
        o["id"] = i
    r1 = ctx["eval_ops"](ops, ctx["vh"], "go", env=ctx["goenv"])
    r2 = ctx["eval_ops"](ops, ctx["vh"], "go", env=ctx["goenv"])
    viol = []
    diff = 0
    for o in ops:
        a, b = r1.get(o["id"], {}).get("go"), r2.get(o["id"], {}).get("go")
        # error TEXTS are not compared (they may print addresses: `%+v` of a struct holding pointers)
        a, b = [({k: v for k, v in x.items() if k not in ("detail", "rt_detail")} if isinstance(x, dict) else x) for x in (a, b)]
        if a != b and not ((a or {}).get("outcome") in ("crash", "timeout")):
            diff += 1
            if len(viol) < 1:
                viol.append(ctx["write_replay"](0, {"property": ID, "op": {"op": o["op"], "args": o["args"]}, "go_process_1": a,
                                                    "go_process_2": b, "why": "results differ between two processes"}))
    return viol, {"cross_process_ops": len(ops), "cross_process_differences": diff}
