"""C15 — ApplyDefaults only adds declared defaults; ValidateDefaults checks them."""
from .. import gen_schema as gs
from .. import vjudge
from ..wire import Obj, Num, parse_ordered, from_tagged, canon

ID = "C15"
N_QUICK = 5000
N_THOROUGH = 100000
LEAN_MODULES = ["JSV.Props.C15"]
RULE = ("schemas with defaults of every JSON type at depth <= 4 of properties, with and without required, on object and non-object "
        "subschemas, with own defaults on intermediate objects; instances: objects holding any subset of the properties (recursively) and "
        "non-objects at any position; each instance gets ApplyDefaults twice. Observed on the real package directly, against the "
        "statement: idempotent; present values untouched; required never filled; every inserted value is the declared default completed "
        "by nested defaults, or a non-empty container of such; Resolve(ValidateDefaults) = 'every default validates against its schema' "
        "(Spec). And = model. Non-trivial: >= 1 default applied or withheld; distinct = operation text")
PREFILTER = vjudge.prefilter


def scalar_default(rng):
    return rng.choice([Num("1"), Num("0"), "s", "", True, False, None, [Num("1")], [], Num("2.5")])


def gen_obj_schema(rng, depth, bad_default_p=0.08, dk="$defs"):
    o = Obj([("type", "object")] if rng.random() < 0.5 else [])
    props = Obj()
    names = rng.sample(gs.NAMES, rng.randint(1, 3))
    for k in names:
        r = rng.random()
        if depth > 0 and r < 0.45:
            sub = gen_obj_schema(rng, depth - 1, bad_default_p, dk)
            if rng.random() < 0.3:
                # an own default on an intermediate object: partial object, completed by nested defaults
                dv = Obj([(kk, scalar_default(rng)) for kk in rng.sample(gs.NAMES, rng.randint(0, 2))])
                sub.set("default", dv if rng.random() < 0.85 else scalar_default(rng))
        elif r < 0.85:
            t = rng.choice(["number", "string", "boolean", "null", "array", None])
            sub = Obj([("type", t)] if t else [])
            d = {"number": Num(rng.choice(["1", "0", "2.5"])), "string": rng.choice(["s", ""]), "boolean": rng.random() < 0.5,
                 "null": None, "array": rng.choice([[], [Num("1")]]), None: scalar_default(rng)}[t]
            if rng.random() < bad_default_p:
                d = scalar_default(rng)      # possibly ill-typed: ValidateDefaults must notice
            sub.set("default", d)
        elif r < 0.93:
            sub = rng.choice([True, Obj(), Obj([("type", "number")])])
        else:
            sub = Obj([("$ref", "#/%s/leaf" % dk)])
            if rng.random() < 0.5:
                # a default beside $ref: it is declared by this subschema, whose only assertion (draft-07) or one of whose assertions
                # (2020-12) is the reference target; ApplyDefaults inserts it in both drafts
                sub.set("default", rng.choice([Num("1"), Num("2.5"), "s", None, Num("0"), True]))
        props.kvs.append((k, sub))
    o.set("properties", props)
    if rng.random() < 0.5:
        o.set("required", rng.sample(names + ["zz"], rng.randint(0, 2)))
    if rng.random() < 0.2:
        # a declared default is validated as it is declared, not as ApplyDefaults would complete it: keywords that count properties
        kw = rng.choice(["minProperties", "maxProperties", "dependentRequired", "anyOfRequired"])
        if kw == "minProperties":
            o.set(kw, Num(str(rng.randint(0, 2))))
        elif kw == "maxProperties":
            o.set(kw, Num(str(rng.randint(0, 2))))
        elif kw == "dependentRequired":
            o.set(kw, Obj([(rng.choice(names), [rng.choice(gs.NAMES)])]))
        else:
            o.set("anyOf", [Obj([("required", [rng.choice(names)])]), Obj([("maxProperties", Num("0"))])])
    return o


def gen_inst(rng, schema, depth=0):
    """An instance holding a random subset of the declared properties (recursively), or a non-object."""
    r = rng.random()
    if r < 0.12:
        return rng.choice([Num("1"), "s", None, [Obj()], []])
    kvs = []
    props = schema.get("properties") if isinstance(schema, Obj) else None
    if isinstance(props, Obj):
        for k, sub in props.kvs:
            if rng.random() < 0.45:
                if isinstance(sub, Obj) and sub.get("properties") is not None and rng.random() < 0.7:
                    kvs.append((k, gen_inst(rng, sub, depth + 1)))
                else:
                    kvs.append((k, rng.choice([Num("7"), "x", None, False, Obj(), []])))
    if rng.random() < 0.2:
        kvs.append(("extra", Num("9")))
    return Obj(kvs)


def gen(rng, tier, n):
    ops = []
    while len(ops) < n:
        d7 = rng.random() < 0.2
        dk = "definitions" if d7 else "$defs"
        root = gen_obj_schema(rng, rng.choice([1, 2, 3, 4 if tier == "thorough" else 3]), dk=dk)
        root.set(dk, Obj([("leaf", Obj([("default", Num("1")), ("type", "number")] + ([("minimum", Num("1"))] if rng.random() < 0.3 else [])))]))
        if d7:
            root.kvs.insert(0, ("$schema", rng.choice(gs.D7_URIS)))
            insts = [gen_inst(rng, root) for _ in range(5)] + [Obj()]
            ops.append({"op": "defaults", "args": {"schema": root, "insts": insts}, "meta": {"d7": True}})
            continue
        if rng.random() < 0.05:
            root.set("$dynamicAnchor", "n")
            root.get("$defs").kvs.append(("dyn", Obj([("$dynamicRef", "#n")])))
        insts = [gen_inst(rng, root) for _ in range(5)] + [Obj()]
        if rng.random() < 0.1:
            # a Loader document reached through a $ref of the root: ITS defaults (here: an ill-typed one in an unreferenced $defs entry,
            # and a well-typed one) are not "defaults in the root schema tree" — ValidateDefaults must not depend on them, and
            # ApplyDefaults only follows `properties` of the root tree
            uri = "http://x.test/dflt/ext.json"
            ext = Obj([("type", ["object", "number", "string", "null", "array", "boolean"]),
                       ("$defs", Obj([("unit", Obj([("type", "number"), ("default", "not a number")])), ("ok", Obj([("default", Num("1"))]))])),
                       ("properties", Obj([("zz", Obj([("default", Num("7"))]))]))])
            root.get("$defs").kvs.append(("ext", Obj([("$ref", uri)])))
            ops.append({"op": "defaults", "args": {"schema": root, "insts": insts, "docs": [[uri, ext]], "loader": True}, "meta": {"remote": True}})
            continue
        ops.append({"op": "defaults", "args": {"schema": root, "insts": insts}, "meta": {}})
    return ops


def nontrivial(o):
    return True


def extends(a, b):
    """b extends a: scalars and arrays equal, objects only gain keys."""
    if isinstance(a, Obj) and isinstance(b, Obj):
        for k, v in a.kvs:
            w = b.get(k, KeyError)
            if w is KeyError or not extends(v, w):
                return False
        return True
    return canon(a) == canon(b)


def check(schema, before, after, path="$"):
    """None if `after` is a legitimate result of applying the defaults of `schema` to `before`."""
    if not isinstance(before, Obj):
        return None if canon(before) == canon(after) else "%s: a non-object value was changed" % path
    if not isinstance(after, Obj):
        return "%s: an object became a non-object" % path
    props = schema.get("properties") if isinstance(schema, Obj) else None
    props = props if isinstance(props, Obj) else Obj()
    required = (schema.get("required") or []) if isinstance(schema, Obj) else []
    for k, v in before.kvs:
        if after.get(k, KeyError) is KeyError:
            return "%s.%s: a property was removed" % (path, k)
    for k, w in after.kvs:
        sub = props.get(k, KeyError)
        was = before.get(k, KeyError)
        if was is not KeyError:
            if sub is KeyError or k in required:
                if canon(was) != canon(w):
                    return "%s.%s: a present value without applicable subschema was changed" % (path, k)
            else:
                e = check(sub, was, w, path + "." + k)
                if e:
                    return e
            continue
        # inserted
        if sub is KeyError:
            return "%s.%s: inserted although the schema declares no such property" % (path, k)
        if k in required:
            return "%s.%s: a required property was filled" % (path, k)
        d = sub.get("default", KeyError) if isinstance(sub, Obj) else KeyError
        if d is not KeyError:
            if not extends(d, w):
                return "%s.%s: inserted value %r is not the declared default %r (completed)" % (path, k, w, d)
            e = check(sub, d, w, path + "." + k)
            if e:
                return e
        else:
            if not isinstance(w, Obj) or not w.kvs:
                return "%s.%s: inserted %r, which is neither a declared default nor a container holding one" % (path, k, w)
            e = check(sub, Obj(), w, path + "." + k)
            if e:
                return e
    return None


def judge(o, go, m):
    if go is None:
        return "violation:harness", "no answer"
    if go.get("outcome") == "harness-error":
        return "skip", go.get("detail")
    if m is None or "model" not in m:
        return "violation:driver", "driver: %r" % (m,)
    mo = m["model"]
    if go.get("outcome") != mo.get("outcome"):
        return "violation", "outcome: real package %s, model %s" % (go.get("outcome"), mo.get("outcome"))
    if go.get("outcome") != "resolved":
        return "agree", ""
    schema = o["args"]["schema"]
    for i, inst in enumerate(o["args"]["insts"]):
        g1, g2 = go["once"][i], go["twice"][i]
        m1 = mo["once"][i]
        if g1["r"] != m1["r"]:
            return "violation", "instance %d: ApplyDefaults returns %s, model %s" % (i, g1["r"], m1["r"])
        if g1["r"] != "ok":
            continue
        a1, a2 = parse_ordered(g1["text"]), parse_ordered(g2["text"])
        if g2["r"] != "ok" or canon(a1) != canon(a2):
            return "violation", "instance %d: ApplyDefaults is not idempotent: %s then %s" % (i, g1["text"], g2["text"])
        if not extends(inst, a1):
            return "violation", "instance %d: a value already present was changed: %s" % (i, g1["text"])
        e = check(schema, inst, a1)
        if e:
            return "violation", "instance %d: %s (result %s)" % (i, e, g1["text"])
        if canon(from_tagged(m1["value"])) != canon(a1):
            return "violation", "instance %d: real package %s, model %r" % (i, g1["text"], from_tagged(m1["value"]))
    if go.get("alias_free") is False:
        return "violation", "ApplyDefaults on one Resolved depends on what callers did to earlier results (a shared container): %s" % go.get("alias_detail")
    # ValidateDefaults
    if go.get("validateDefaults") != mo.get("validateDefaults"):
        return "violation", "ValidateDefaults: real package %s, model %s" % (go.get("validateDefaults"), mo.get("validateDefaults"))
    if go.get("validateDefaults") != mo.get("specValidateDefaults"):
        if mo.get("hasDynamicRef"):
            return "known:D19", "ValidateDefaults refuses a tree that contains $dynamicRef"
        return "violation", "ValidateDefaults %s but 'every default validates against its schema' is %s" % (
            go.get("validateDefaults"), mo.get("specValidateDefaults"))
    return "agree", ""
