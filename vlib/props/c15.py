"""C15 — ApplyDefaults only adds declared defaults; ValidateDefaults checks them."""
from .. import gen_schema as gs
from .. import gen_values as gv
from .. import vjudge
from ..wire import Obj, Num, parse_ordered, from_tagged, canon, to_text

ID = "C15"
N_QUICK = 5000
N_THOROUGH = 100000
LEAN_MODULES = ["JSV.Props.C15"]
RULE = ("schemas with defaults of every JSON type at depth <= 4 of properties, with and without required, on object and non-object "
        "subschemas, with own defaults on intermediate objects; instances: objects holding any subset of the properties (recursively) and "
        "non-objects at any position; each instance gets ApplyDefaults twice. Observed on the real package directly, against the "
        "statement: idempotent; present values untouched; required never filled; every inserted value is the declared default completed "
        "by nested defaults, or a non-empty container of such; Resolve(ValidateDefaults) = 'every default validates against its schema' "
        "(Spec). And = model. Non-trivial: >= 1 default applied or withheld; distinct = operation text")
RULE += (". Widened (~8% of the operations): the same laws for TYPED container instances (argument ginsts: Go value descriptors, "
         "ApplyDefaults gets a *T): map[string]map[string]any, map[string][]int / []float64 / []any / []json.Number, named key types, "
         "map[string]*map[string]any, map[string]*[]int, three-level typed maps, and map[string]any holding pointers — against schemas "
         "with 2..4 properties at one level that declare object / array defaults (some completed by nested defaults, some only nested, some "
         "required), with every subset of them present. Judged against the statement (present values untouched, inserted = declared default "
         "completed, idempotent) and, in the harness, no container of the result reachable twice (inserted defaults alias neither each "
         "other nor a present value); the untyped twin of every typed instance also runs against the model")
RULE += (". Widened (~6%): schemas BUILT IN GO whose Default fields (json.RawMessage, kept verbatim) spell their value with "
         "insignificant whitespace — text that starts on its own line, indented, blanks after ':' and ',', trailing newline (harness "
         "argument rawDefaults: after Unmarshal of the document the Default of the named subschemas is replaced by the given bytes, which "
         "must compact to the declared default) — for object, array and scalar defaults, with own defaults on intermediate objects more "
         "frequent (0.7 instead of 0.3); the document, which the model and the oracle read, is unchanged. And: `$ref` beside `properties` "
         "/ `required` / `default` on object subschemas at every depth incl. the root (draft-07 documents: ~30% of the object "
         "subschemas, where the siblings of $ref are ignored by validation but ApplyDefaults still walks `properties` and must still "
         "withhold required properties; 2020-12: ~8%), targets {} / {type: object} / a number leaf")
RULE += (". Widened (~6%): SCALAR defaults (numbers incl. 0.1 / 1e2 / 300, strings, booleans; half pinned by const / enum) with typed "
         "instances map[string]float32 / int8 / int / uint16 / json.Number / string / named string / bool (also one level down) and their "
         "untyped twins, and a HISTORY (harness argument history): one fresh Resolved serves 3..7 of these instances of different Go types "
         "in a drawn order; every step must equal — Go types included, reflect.DeepEqual — what a Resolved of its own gives for that "
         "instance, with the same Validate verdict of the completed instance")
PREFILTER = vjudge.prefilter


def scalar_default(rng):
    return rng.choice([Num("1"), Num("0"), "s", "", True, False, None, [Num("1")], [], Num("2.5")])


def gen_obj_schema(rng, depth, bad_default_p=0.08, dk="$defs", ref_p=0.0, own_default_p=0.3):
    o = Obj([("type", "object")] if rng.random() < 0.5 else [])
    if ref_p and rng.random() < ref_p:
        # `$ref` beside `properties` / `required`: in draft-07 validation looks at nothing but the reference; ApplyDefaults walks
        # `properties` all the same, and a required property stays unfilled all the same
        o.kvs.insert(rng.randint(0, len(o.kvs)), ("$ref", "#/%s/%s" % (dk, rng.choice(["any", "any", "obj", "leaf"]))))
    props = Obj()
    names = rng.sample(gs.NAMES, rng.randint(1, 3))
    for k in names:
        r = rng.random()
        if depth > 0 and r < 0.45:
            sub = gen_obj_schema(rng, depth - 1, bad_default_p, dk, ref_p, own_default_p)
            if rng.random() < own_default_p:
                # an own default on an intermediate object: partial object, completed by nested defaults
                dv = Obj([(kk, scalar_default(rng)) for kk in rng.sample(gs.NAMES, rng.randint(0, 2))])
                sub.set("default", dv if rng.random() < 0.85 else scalar_default(rng))
        elif r < 0.85:
            t = rng.choice(["number", "string", "boolean", "null", "array", None])
            sub = Obj([("type", t)] if t else [])
            d = {"number": Num(rng.choice(["1", "0", "2.5"])), "string": rng.choice(["s", ""]), "boolean": rng.random() < 0.5,
                 "null": None, "array": rng.choice([[], [Num("1")]]), None: scalar_default(rng)}[t]
            if rng.random() < bad_default_p:
                d = scalar_default(rng)      # possibly ill-typed: ValidateDefaults must notice
            sub.set("default", d)
        elif r < 0.93:
            sub = rng.choice([True, Obj(), Obj([("type", "number")])])
        else:
            sub = Obj([("$ref", "#/%s/leaf" % dk)])
            if rng.random() < 0.5:
                # a default beside $ref: it is declared by this subschema, whose only assertion (draft-07) or one of whose assertions
                # (2020-12) is the reference target; ApplyDefaults inserts it in both drafts
                sub.set("default", rng.choice([Num("1"), Num("2.5"), "s", None, Num("0"), True]))
        props.kvs.append((k, sub))
    o.set("properties", props)
    if rng.random() < 0.5:
        o.set("required", rng.sample(names + ["zz"], rng.randint(0, 2)))
    if rng.random() < 0.2:
        # a declared default is validated as it is declared, not as ApplyDefaults would complete it: keywords that count properties
        kw = rng.choice(["minProperties", "maxProperties", "dependentRequired", "anyOfRequired"])
        if kw == "minProperties":
            o.set(kw, Num(str(rng.randint(0, 2))))
        elif kw == "maxProperties":
            o.set(kw, Num(str(rng.randint(0, 2))))
        elif kw == "dependentRequired":
            o.set(kw, Obj([(rng.choice(names), [rng.choice(gs.NAMES)])]))
        else:
            o.set("anyOf", [Obj([("required", [rng.choice(names)])]), Obj([("maxProperties", Num("0"))])])
    return o


def gen_inst(rng, schema, depth=0):
    """An instance holding a random subset of the declared properties (recursively), or a non-object."""
    r = rng.random()
    if r < 0.12:
        return rng.choice([Num("1"), "s", None, [Obj()], []])
    kvs = []
    props = schema.get("properties") if isinstance(schema, Obj) else None
    if isinstance(props, Obj):
        for k, sub in props.kvs:
            if rng.random() < 0.45:
                if isinstance(sub, Obj) and sub.get("properties") is not None and rng.random() < 0.7:
                    kvs.append((k, gen_inst(rng, sub, depth + 1)))
                else:
                    kvs.append((k, rng.choice([Num("7"), "x", None, False, Obj(), []])))
    if rng.random() < 0.2:
        kvs.append(("extra", Num("9")))
    return Obj(kvs)


def typed_case(rng):
    """Container-valued defaults for several properties of one level, and instances whose Go type fixes the element type."""
    shape = rng.choice(["objs", "objs", "objs", "arrs", "arrs", "ptrobjs", "ptrarrs", "anyptr", "anyptr", "nested"])
    numeric = shape == "objs" and rng.random() < 0.2
    names = rng.sample(gs.NAMES + ["e", "f"], rng.randint(2, 4))
    inner = ["max", "env", "x", "y", "a"]

    def scalar():
        return Num(str(rng.randint(0, 12))) if numeric or rng.random() < 0.5 else rng.choice(["prod", "", True, None, Num("2.5")])

    def obj(lo=0):
        return Obj([(k, scalar()) for k in rng.sample(inner, rng.randint(lo, 2))])

    def arr():
        return [Num(str(rng.randint(0, 9))) for _ in range(rng.randint(0, 4))]

    objish = shape in ("objs", "ptrobjs", "nested") or (shape == "anyptr" and rng.random() < 0.6)
    cont = obj if objish else arr

    def level(depth):
        props = Obj()
        for k in (names if depth == 0 else rng.sample(inner, rng.randint(2, 3))):
            r = rng.random()
            sub = Obj([("type", "object" if objish else "array")] if rng.random() < 0.4 else [])
            if shape == "nested" and depth == 0:
                sub = level(1)
                if rng.random() < 0.3:
                    sub.set("default", Obj([(kk, obj(1)) for kk in rng.sample(inner, rng.randint(0, 1))]))
            elif r < 0.65:
                sub.set("default", cont())
                if objish and rng.random() < 0.35:
                    sub.set("properties", Obj([(kk, Obj([("default", scalar())])) for kk in rng.sample(inner, rng.randint(1, 2))]))
            elif r < 0.8 and objish:
                sub.set("properties", Obj([(kk, Obj([("default", scalar())])) for kk in rng.sample(inner, rng.randint(1, 2))]))
            elif r < 0.9 and objish:
                sub.set("properties", Obj([("name", Obj([("type", "string")]))]))
            props.kvs.append((k, sub))
        o = Obj([("type", "object")] if rng.random() < 0.5 else [])
        o.set("properties", props)
        if rng.random() < 0.2:
            o.set("required", rng.sample(props.keys(), 1))
        return o

    root = level(0)

    def inst():
        kvs = []
        for k, sub in root.get("properties").kvs:
            if rng.random() < 0.4:
                if shape == "nested":
                    kvs.append((k, Obj([(kk, obj()) for kk in (sub.get("properties") or Obj()).keys() if rng.random() < 0.4])))
                else:
                    kvs.append((k, cont()))
        if rng.random() < 0.15:
            kvs.append(("extra", cont() if shape != "nested" else Obj()))
        return Obj(kvs)

    T = {"objs": ["map[string]map[string]any"] * 3 + ["map[mystring]map[string]any", "map[string]map[mystring]any"],
         "arrs": ["map[string][]int", "map[string][]int", "map[string][]float64", "map[string][]any", "map[string][]jnum", "map[mystring][]int"],
         "ptrobjs": ["map[string]*map[string]any"], "ptrarrs": ["map[string]*[]int", "map[string]*[]any"],
         "nested": ["map[string]map[string]map[string]any"], "anyptr": ["map[string]any"]}[shape]
    T = rng.choice(T) if not numeric else "map[string]map[string]float64"
    jinsts, ginsts = [], []
    for i in range(3):
        j = inst() if i else Obj()
        if shape == "anyptr":
            items = []
            for k, v in j.kvs:
                c = gv.canonical_repr(v)
                items.append([k, {"t": "*" + c["t"], "v": c} if rng.random() < 0.7 else c])
            g = {"t": "map[string]any", "v": items}
        else:
            g = gv.represent_as(rng, j, T)
        if g is None:
            continue
        jinsts.append(j)
        ginsts.append(g)
    if not ginsts:
        return None
    return {"op": "defaults", "args": {"schema": root, "insts": jinsts, "ginsts": ginsts}, "meta": {"typed": T}}


def typed_history_case(rng):
    """SCALAR defaults and instances whose Go type fixes the element type of the scalars — map[string]float32, map[string]int8,
    map[string]string, a named string, json.Number, … next to map[string]any — with a HISTORY (harness argument `history`): one
    Resolved serves several of these instances, of different Go types, in a drawn order (typed first and untyped after it, and the other
    way round). Every insertion must be the declared default decoded for THAT element type: each step equals, Go type included, what a
    Resolved of its own gives, and the completed instance gets the same verdict (half of the properties pin their default with
    const / enum). Defaults an element type cannot hold (0.1 or 300 in an int8) make ApplyDefaults fail: the documented answer."""
    kind = rng.choice(["num", "num", "num", "str", "bool", "mixed"])
    pool = {"num": [Num("0.1"), Num("1"), Num("2.5"), Num("0"), Num("100"), Num("0.5"), Num("1e2"), Num("300"), Num("-3"), Num("0.3"), Num("1.0")],
            "str": ["prod", "", "x", "0.1"], "bool": [True, False]}
    pool["mixed"] = pool["num"][:4] + pool["str"][:2] + [True]      # (no null: a typed element cannot hold it; encoding/json skips it)
    types = {"num": ["map[string]float32", "map[string]float32", "map[string]int8", "map[string]int", "map[string]float64", "map[string]uint16",
                     "map[string]jnum", "map[mystring]float32", "map[string]int64"],
             "str": ["map[string]string", "map[string]mystring", "map[mystring]string"], "bool": ["map[string]bool"],
             "mixed": ["map[string]float32", "map[string]string", "map[string]int8"]}[kind]
    nested = rng.random() < 0.3
    names = rng.sample(gs.NAMES + ["e", "f"], rng.randint(1, 4))

    def leaf():
        d = rng.choice(pool[kind])
        kvs = [("default", d)]
        r = rng.random()
        if r < 0.3:
            kvs.append(("const", d))
        elif r < 0.5:
            kvs.append(("enum", [d] + rng.sample(pool[kind], 1)))
        elif r < 0.6 and isinstance(d, Num):
            kvs.append(("type", "number"))
        return Obj(kvs)

    def level(ns):
        o = Obj([("type", "object")] if rng.random() < 0.4 else [])
        o.set("properties", Obj([(k, leaf()) for k in ns]))
        return o
    if nested:
        inner = ["max", "env", "x", "y"]
        root = Obj([("properties", Obj([(k, level(rng.sample(inner, rng.randint(1, 3)))) for k in names]))])
    else:
        root = level(names)

    def present(sub):
        return Obj([(k, s.get("default")) for k, s in sub.get("properties").kvs if rng.random() < 0.3])

    def inst():
        if nested:
            return Obj([(k, present(sub)) for k, sub in root.get("properties").kvs if rng.random() < 0.7])
        return present(root)
    jinsts, ginsts = [], []
    for i in range(rng.randint(2, 3)):
        j = inst() if i else (Obj([(k, Obj()) for k in names]) if nested else Obj())
        T = rng.choice(types)
        if nested:
            T = "map[string]" + T
        g = gv.represent_as(rng, j, T)
        if g is None:
            j = Obj([(k, Obj()) for k in names]) if nested else Obj()
            g = gv.represent_as(rng, j, T)
        jinsts.append(j)
        ginsts.append(g)
    nj = len(jinsts)
    steps = [rng.randrange(nj, nj + len(ginsts))] if rng.random() < 0.6 else []          # a typed instance first …
    steps += [rng.randrange(nj + len(ginsts)) for _ in range(rng.randint(2, 5))]
    if rng.random() < 0.5:
        steps.append(rng.randrange(nj))                                                   # … an untyped one last
    return {"op": "defaults", "args": {"schema": root, "insts": jinsts, "ginsts": ginsts, "history": steps}, "meta": {"typed": "history:" + kind}}


WS = [" ", "\n", "\t", "\r\n", "\n  ", "  ", "\n\t", " \n "]


def spell(rng, v, p=0.5):
    """A JSON text of v with insignificant whitespace between its tokens (never inside a token)."""
    def ws():
        return rng.choice(WS) if rng.random() < p else ""
    if isinstance(v, list):
        return "[" + ws() + (ws() + "," + ws()).join(spell(rng, x, p) for x in v) + ws() + "]"
    if isinstance(v, Obj):
        return "{" + ws() + (ws() + "," + ws()).join(to_text(k) + ws() + ":" + ws() + spell(rng, x, p) for k, x in v.kvs) + ws() + "}"
    return to_text(v)


def raw_defaults(rng, root):
    """rawDefaults entries (see harness/ops_validate.go) for a share of the subschemas below `properties` that declare a default."""
    found = []

    def walk(s, path):
        if not isinstance(s, Obj):
            return
        if s.get("default", KeyError) is not KeyError:
            found.append((path, s.get("default")))
        props = s.get("properties")
        if isinstance(props, Obj):
            for k, sub in props.kvs:
                walk(sub, path + [k])
    walk(root, [])
    out = []
    for path, d in found:
        if rng.random() < 0.75:
            lead = rng.choice(WS) if rng.random() < 0.8 else ""
            trail = rng.choice(WS) if rng.random() < 0.5 else ""
            out.append({"path": path, "text": lead + spell(rng, d, rng.choice([0.0, 0.3, 0.6])) + trail})
    return out


def gen(rng, tier, n):
    ops = []
    while len(ops) < n:
        if rng.random() < 0.06:
            ops.append(typed_history_case(rng))
            continue
        if rng.random() < 0.08:
            o = typed_case(rng)
            if o is not None:
                ops.append(o)
            continue
        d7 = rng.random() < 0.2
        dk = "definitions" if d7 else "$defs"
        respell = rng.random() < 0.06
        root = gen_obj_schema(rng, rng.choice([1, 2, 3, 4 if tier == "thorough" else 3]), dk=dk, ref_p=0.3 if d7 else 0.08,
                              own_default_p=0.7 if respell else 0.3)
        root.set(dk, Obj([("leaf", Obj([("default", Num("1")), ("type", "number")] + ([("minimum", Num("1"))] if rng.random() < 0.3 else []))),
                          ("any", Obj()), ("obj", Obj([("type", "object")]))]))
        if respell:
            if rng.random() < 0.3:
                root.set("default", Obj([(kk, scalar_default(rng)) for kk in rng.sample(gs.NAMES, rng.randint(0, 2))]))
            if d7:
                root.kvs.insert(0, ("$schema", rng.choice(gs.D7_URIS)))
            insts = [gen_inst(rng, root) for _ in range(5)] + [Obj()]
            rds = raw_defaults(rng, root)
            ops.append({"op": "defaults", "args": {"schema": root, "insts": insts, "rawDefaults": rds}, "meta": {"respelled": len(rds), "d7": d7}})
            continue
        if d7:
            root.kvs.insert(0, ("$schema", rng.choice(gs.D7_URIS)))
            insts = [gen_inst(rng, root) for _ in range(5)] + [Obj()]
            ops.append({"op": "defaults", "args": {"schema": root, "insts": insts}, "meta": {"d7": True}})
            continue
        if rng.random() < 0.05:
            root.set("$dynamicAnchor", "n")
            root.get("$defs").kvs.append(("dyn", Obj([("$dynamicRef", "#n")])))
        insts = [gen_inst(rng, root) for _ in range(5)] + [Obj()]
        if rng.random() < 0.1:
            # a Loader document reached through a $ref of the root: ITS defaults (here: an ill-typed one in an unreferenced $defs entry,
            # and a well-typed one) are not "defaults in the root schema tree" — ValidateDefaults must not depend on them, and
            # ApplyDefaults only follows `properties` of the root tree
            uri = "http://x.test/dflt/ext.json"
            ext = Obj([("type", ["object", "number", "string", "null", "array", "boolean"]),
                       ("$defs", Obj([("unit", Obj([("type", "number"), ("default", "not a number")])), ("ok", Obj([("default", Num("1"))]))])),
                       ("properties", Obj([("zz", Obj([("default", Num("7"))]))]))])
            root.get("$defs").kvs.append(("ext", Obj([("$ref", uri)])))
            ops.append({"op": "defaults", "args": {"schema": root, "insts": insts, "docs": [[uri, ext]], "loader": True}, "meta": {"remote": True}})
            continue
        ops.append({"op": "defaults", "args": {"schema": root, "insts": insts}, "meta": {}})
    return ops


def nontrivial(o):
    return True


def extends(a, b):
    """b extends a: scalars and arrays equal, objects only gain keys."""
    if isinstance(a, Obj) and isinstance(b, Obj):
        for k, v in a.kvs:
            w = b.get(k, KeyError)
            if w is KeyError or not extends(v, w):
                return False
        return True
    return canon(a) == canon(b)


def check(schema, before, after, path="$"):
    """None if `after` is a legitimate result of applying the defaults of `schema` to `before`."""
    if not isinstance(before, Obj):
        return None if canon(before) == canon(after) else "%s: a non-object value was changed" % path
    if not isinstance(after, Obj):
        return "%s: an object became a non-object" % path
    props = schema.get("properties") if isinstance(schema, Obj) else None
    props = props if isinstance(props, Obj) else Obj()
    required = (schema.get("required") or []) if isinstance(schema, Obj) else []
    for k, v in before.kvs:
        if after.get(k, KeyError) is KeyError:
            return "%s.%s: a property was removed" % (path, k)
    for k, w in after.kvs:
        sub = props.get(k, KeyError)
        was = before.get(k, KeyError)
        if was is not KeyError:
            if sub is KeyError or k in required:
                if canon(was) != canon(w):
                    return "%s.%s: a present value without applicable subschema was changed" % (path, k)
            else:
                e = check(sub, was, w, path + "." + k)
                if e:
                    return e
            continue
        # inserted
        if sub is KeyError:
            return "%s.%s: inserted although the schema declares no such property" % (path, k)
        if k in required:
            return "%s.%s: a required property was filled" % (path, k)
        d = sub.get("default", KeyError) if isinstance(sub, Obj) else KeyError
        if d is not KeyError:
            if not extends(d, w):
                return "%s.%s: inserted value %r is not the declared default %r (completed)" % (path, k, w, d)
            e = check(sub, d, w, path + "." + k)
            if e:
                return e
        else:
            if not isinstance(w, Obj) or not w.kvs:
                return "%s.%s: inserted %r, which is neither a declared default nor a container holding one" % (path, k, w)
            e = check(sub, Obj(), w, path + "." + k)
            if e:
                return e
    return None


def judge(o, go, m):
    if go is None:
        return "violation:harness", "no answer"
    if go.get("outcome") == "harness-error":
        return "skip", go.get("detail")
    if m is None or "model" not in m:
        return "violation:driver", "driver: %r" % (m,)
    mo = m["model"]
    if go.get("outcome") != mo.get("outcome"):
        return "violation", "outcome: real package %s, model %s" % (go.get("outcome"), mo.get("outcome"))
    if go.get("outcome") != "resolved":
        return "agree", ""
    schema = o["args"]["schema"]
    for i, inst in enumerate(o["args"]["insts"]):
        g1, g2 = go["once"][i], go["twice"][i]
        m1 = mo["once"][i]
        if g1["r"] != m1["r"]:
            return "violation", "instance %d: ApplyDefaults returns %s, model %s" % (i, g1["r"], m1["r"])
        if g1["r"] != "ok":
            continue
        a1, a2 = parse_ordered(g1["text"]), parse_ordered(g2["text"])
        if g2["r"] != "ok" or canon(a1) != canon(a2):
            return "violation", "instance %d: ApplyDefaults is not idempotent: %s then %s" % (i, g1["text"], g2["text"])
        if not extends(inst, a1):
            return "violation", "instance %d: a value already present was changed: %s" % (i, g1["text"])
        e = check(schema, inst, a1)
        if e:
            return "violation", "instance %d: %s (result %s)" % (i, e, g1["text"])
        if canon(from_tagged(m1["value"])) != canon(a1):
            return "violation", "instance %d: real package %s, model %r" % (i, g1["text"], from_tagged(m1["value"]))
    # typed instances: judged against the statement (the model has no typed values; their untyped twins are judged above)
    for k, d in enumerate(o["args"].get("ginsts") or []):
        t = (go.get("typed") or [])[k] if k < len(go.get("typed") or []) else None
        if t is None:
            return "violation:harness", "no result for typed instance %d" % k
        if "panic" in (t["r"], t["r2"]):
            return "violation", "typed instance %d (%s): ApplyDefaults panics" % (k, d["t"] if d else None)
        if t["r"] != "ok":
            continue        # a default that the element type cannot hold: an error is the documented answer
        before = gv.denote(d)
        a1, a2 = parse_ordered(t["text"]), parse_ordered(t["text2"])
        if t["r2"] != "ok" or canon(a1) != canon(a2):
            return "violation", "typed instance %d (%s): ApplyDefaults is not idempotent: %s then %s" % (k, d["t"], t["text"], t["text2"])
        if not extends(before, a1):
            return "violation", "typed instance %d (%s): a value already present was changed: %s" % (k, d["t"], t["text"])
        e = check(schema, before, a1)
        if e:
            return "violation", "typed instance %d (%s): %s (result %s)" % (k, d["t"], e, t["text"])
        if t.get("shared"):
            return "violation", "typed instance %d (%s): %s after ApplyDefaults — an inserted default shares its container with another entry (result %s)" % (
                k, d["t"], t["shared"], t["text"])
    if go.get("history_free") is False:
        return "violation", "ApplyDefaults on one Resolved depends on the instances it served before (history %r over %r): %s" % (
            o["args"].get("history"), [None] * len(o["args"]["insts"]) + [g and g["t"] for g in o["args"].get("ginsts") or []], go.get("history_detail"))
    if go.get("alias_free") is False:
        return "violation", "ApplyDefaults on one Resolved depends on what callers did to earlier results (a shared container): %s" % go.get("alias_detail")
    # ValidateDefaults
    if go.get("validateDefaults") != mo.get("validateDefaults"):
        return "violation", "ValidateDefaults: real package %s, model %s" % (go.get("validateDefaults"), mo.get("validateDefaults"))
    if go.get("validateDefaults") != mo.get("specValidateDefaults"):
        if mo.get("hasDynamicRef"):
            return "known:D19", "ValidateDefaults refuses a tree that contains $dynamicRef"
        return "violation", "ValidateDefaults %s but 'every default validates against its schema' is %s" % (
            go.get("validateDefaults"), mo.get("specValidateDefaults"))
    return "agree", ""
