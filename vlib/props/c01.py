"""C01 — Validate decides exactly the draft 2020-12 validity relation."""
from .. import gen_schema as gs
from .. import suite, vjudge
from . import c07
from ..wire import Obj, Num

ID = "C01"
N_QUICK = 6000
N_THOROUGH = 120000
LEAN_MODULES = ["JSV.Props.C01"]
RULE = ("the 1099 official 2020-12 cases first (expected verdicts known), then generated 2020-12 documents over the whole "
        "vocabulary with interaction-biased keyword mixes, each with 6 instances from shared pools; an operation is one "
        "(document, instances) pair; 4 %: uniqueItems / const / enum over containers of strings that differ but concatenate to the same "
        "character stream (pair followed by a duplicate of either member); 3 %: $refs into 2..3 distinct resources (embedded / Loader) whose URIs "
        "differ only by a trailing slash, an empty path segment or one percent-encoded character, expected verdicts by construction; 4 %: enum with "
        "12..40 values (numbers, strings, arrays, objects) against members spelled differently (1.0, 10e-1, 1e1, -0.0; json.Number under UseNumber or float64) at the "
        "top and nested; non-trivial: the document has >= 2 keywords and the verdict vector is not constant or a "
        "reference is present; distinct = distinct operation text")
TRUSTED = ["regular expressions: a parameter of the model; the driver's matcher is compared with Go's regexp on the pattern pool",
           "float64 arithmetic of multipleOf: exact on the generated domain (short dyadics)"]
ASSUMPTIONS = ["schema recursion passes through an instance-descending keyword (model fuel filter)",
               "numbers are short dyadic rationals", "no duplicate anchors in one resource"]
PREFILTER = vjudge.prefilter


LOOK_WORDS = ["a", "b", "p", "q", "ab", "x", "é", "1", "k"]
# separators: nothing at all, the letters a serialisation might use as type tags or delimiters, bytes that could pass for a length or a
# terminator
LOOK_SEPS = ["", "", "s", "s", "a", "o", "n", "z", "b", "t", "\u0000", "\u0001", "\u0002", ",", "\"", ":", "\u0000s", "ss"]


def lookalike_case(rng):
    """uniqueItems (and const / enum) on containers of strings that are DIFFERENT values but CONCATENATE to the same character stream:
    the same words with the boundary between two adjacent strings moved across a separator, [w1+c+w2, w3] / [w1, w2+c+w3] as arrays, as
    object key/value ({w1+c+w2: w3} / {w1: w2+c+w3}), nested, and with a scalar spelled out inside a string ([w1+"z", w2, w3] /
    [w1, null, w2+c+w3]). Any digest of a value that writes its strings without length or terminator puts such look-alikes together; the
    arrays then hold the pair followed by a duplicate of the first, of the second, of neither, in every order and with fillers between."""
    w1, w2, w3 = (rng.choice(LOOK_WORDS) for _ in range(3))
    c = rng.choice(LOOK_SEPS)
    shape = rng.choice(["arr", "arr", "obj", "obj", "arr3", "nest", "objarr", "scalar"])
    if shape == "arr":
        X, Y = [w1 + c + w2, w3], [w1, w2 + c + w3]
    elif shape == "obj":
        X, Y = Obj([(w1 + c + w2, w3)]), Obj([(w1, w2 + c + w3)])
    elif shape == "arr3":
        X, Y = [w1, w2 + c + w3, w1], [w1 + c + w2, w3, w1]
        if rng.random() < 0.5:
            X, Y = [w3, w1 + c + w2, w3 + c + w1], [w3, w1, w2 + c + w3 + c + w1]
    elif shape == "nest":
        X, Y = [[w1 + c + w2, w3], "t"], [[w1, w2 + c + w3], "t"]
        if rng.random() < 0.5:
            X, Y = Obj([("k", [w1 + c + w2, w3])]), Obj([("k", [w1, w2 + c + w3])])
    elif shape == "objarr":
        X, Y = Obj([("k" + c + w1, [w2, w3])]), Obj([("k", [w1 + c + w2, w3])])
        if rng.random() < 0.5:
            X, Y = Obj([(w1, w2), (w1 + c + w3, "v")]), Obj([(w1, w2 + c + w1), (w1 + w3, "v")])
    else:
        sc, spelled = rng.choice([(None, "z"), (None, "\u0000"), (None, "null"), (False, "b\u0000"), (True, "b\u0001"), (False, "\u0000"),
                                  (False, "false"), ([], "a"), (Obj(), "o"), ([], "[]"), ("", "s"), ("", "")])
        X, Y = [w1 + spelled, w2, w3], [w1, sc, w2 + c + w3]
        if rng.random() < 0.5:
            X, Y = Y, X
    if rng.random() < 0.5:
        X, Y = Y, X
    fill = rng.choice([Num("7"), "t", None, [w1, w3], Obj([(w1, w3)])])
    insts = [[X, Y, Y], [X, Y, X], [Y, X, X], [X, Y], [X, fill, Y, fill], [X, Y, fill, Y], [fill, X, Y, Y, X], [X, Y, fill, [Y], Y],
             [[X, Y, Y]], Y]
    rng.shuffle(insts)
    doc = rng.choice([Obj([("uniqueItems", True)]), Obj([("uniqueItems", True)]), Obj([("uniqueItems", True)]),
                      Obj([("not", Obj([("uniqueItems", True)]))]),
                      Obj([("items", Obj([("uniqueItems", True)])), ("uniqueItems", True)]),
                      Obj([("uniqueItems", True), ("contains", Obj([("const", Y)])), ("maxContains", Num("1"))]),
                      Obj([("anyOf", [Obj([("uniqueItems", True)]), Obj([("const", [X, Y, Y])])])]),
                      Obj([("uniqueItems", True), ("items", Obj([("enum", [X, Y])]))]),
                      Obj([("if", Obj([("uniqueItems", True)])), ("then", Obj([("maxItems", Num("2"))]))])])
    return {"op": "validate", "args": {"schema": doc, "insts": insts, "usenumber": rng.random() < 0.3}, "meta": {"kw": 2, "lookalike": shape}}


# (schema spelling, other spellings of the same number)
ENUM_NUMS = [("0", ["-0", "-0.0", "0.0", "0e3", "0E-2"]), ("1", ["1.0", "10e-1", "1e0", "0.1E1", "1.00"]), ("10", ["1e1", "10.0", "100e-1", "1E+1"]),
             ("-3", ["-3.0", "-30e-1", "-0.3e1"]), ("0.5", ["5e-1", "0.50", "0.05e1"]), ("100", ["1e2", "100.0", "1.0E2"]), ("7", ["7.0", "70e-1"]),
             ("2.5", ["25e-1", "2.50"]), ("-1", ["-1.0", "-1e0"]), ("42", ["42.0", "4.2e1"]), ("1024", ["1.024e3", "1024.0"]),
             ("-0.25", ["-25e-2", "-0.250"])]


def long_enum_case(rng):
    """enum with MANY values (12..40, mostly 16 or more) mixing numbers, strings, arrays and objects (pairwise different), against
    instances equal to a member but spelled differently (1.0 / 10e-1 / 1e0, 1e1 for 10, -0 / -0.0 for 0 — as json.Number under UseNumber,
    as float64 otherwise), at the top and inside arrays / objects, next to members spelled alike, near-members and strings spelling
    numbers."""
    n = rng.choice([12, 15, 16, 16, 17, 20, 24, 32, 40])
    nums = rng.sample(ENUM_NUMS, rng.randint(2, 6))
    members = [Num(a) for a, _ in nums]
    wraps = [lambda x: [x], lambda x: Obj([("a", x)]), lambda x: [x, "s"], lambda x: Obj([("k", [x]), ("z", None)]), lambda x: [[x]]]
    cont = []  # (member, index into nums, wrap)
    for _ in range(rng.randint(1, 5)):
        i, w = rng.randrange(len(nums)), rng.choice(wraps)
        m = w(Num(nums[i][0]))
        if all(repr(m) != repr(c[0]) for c in cont):
            cont.append((m, i, w))
    members += [c[0] for c in cont]
    k = 0
    while len(members) < n:
        r = rng.random()
        members.append("s%d" % k if r < 0.5 else Num(str(5000 + k)) if r < 0.7 else [Num(str(2000 + k))] if r < 0.8 else ["t%d" % k, None] if r < 0.9
                       else Obj([("id", Num(str(3000 + k)))]))
        k += 1
    if rng.random() < 0.3:
        members.append(rng.choice([None, True, False, "", []]))
    rng.shuffle(members)
    insts = []
    for _ in range(8):
        r = rng.random()
        i = rng.randrange(len(nums))
        a, alts = nums[i]
        if r < 0.35:
            insts.append(Num(rng.choice(alts)))
        elif r < 0.6 and cont:
            m, i, w = rng.choice(cont)
            insts.append(w(Num(rng.choice(nums[i][1]))))
        elif r < 0.7:
            insts.append(rng.choice(members))
        elif r < 0.8:
            insts.append(rng.choice([a, rng.choice(alts), "s0", "s"]))  # the string spelling a number
        elif r < 0.9:
            insts.append(rng.choice(wraps)(Num(rng.choice(alts))))
        else:
            insts.append(Num(rng.choice(["5", "5.0", "11", "1.5", "-0.5", "5e3", "5001.0", "2000"])))
    en = Obj([("enum", members)])
    doc = rng.choice([en, en, en, Obj([("not", en)]), Obj([("items", en)]), Obj([("anyOf", [en, Obj([("type", "boolean")])])]),
                      Obj([("properties", Obj([("a", en)]))]), Obj([("if", en), ("then", Obj([("type", "number")]))])])
    if doc.get("items") is not None:
        insts = [insts[:3], insts[3:6]] + insts[6:]
    return {"op": "validate", "args": {"schema": doc, "insts": insts, "usenumber": rng.random() < 0.6},
            "meta": {"kw": 2, "longenum": len(members)}}


def anchored_literal_case(rng):
    """patternProperties / pattern whose regular expression is a literal anchored on both sides (`^id$`, `^a b$`), against names / strings
    that merely CONTAIN the literal (`idx`, `valid`, `grid`): only the exact name matches; what is matched decides what
    additionalProperties / unevaluatedProperties still see."""
    lit = rng.choice(["id", "a", "ab", "x", "name", "a b", "é", "0"])
    near = [lit, "x" + lit, lit + "x", "x" + lit + "x", lit + lit, lit.upper(), ""]
    pat = rng.choice(["^%s$", "^%s$", "^(%s)$", "^%s", "%s$", "%s"]) % lit
    sub = rng.choice([Obj([("type", "number")]), False, Obj([("const", Num("1"))]), True])
    closing = rng.choice([("additionalProperties", False), ("unevaluatedProperties", False), ("additionalProperties", Obj([("type", "string")])),
                          ("unevaluatedProperties", Obj([("type", "null")]))])
    form = rng.random()
    if form < 0.7:
        doc = Obj([("patternProperties", Obj([(pat, sub)])), closing])
        if rng.random() < 0.3:
            doc = Obj([("allOf", [Obj([("patternProperties", Obj([(pat, sub)]))])]), ("unevaluatedProperties", closing[1])])
        insts = [Obj([(k, rng.choice([Num("1"), "s", None]))]) for k in near] + [Obj([(near[0], Num("1")), (near[3], Num("1"))])]
    else:
        doc = Obj([("pattern", pat)]) if rng.random() < 0.6 else Obj([("propertyNames", Obj([("pattern", pat)]))])
        insts = list(near) if doc.get("pattern") is not None else [Obj([(k, None)]) for k in near]
    return {"op": "validate", "args": {"schema": doc, "insts": insts}, "meta": {"kw": 3, "anchored": pat}}


def gen(rng, tier, n):
    ops = suite.suite_ops("draft2020-12")
    depth = 3 if tier == "quick" else 4
    while len(ops) < n:
        r = rng.random()
        if r < 0.22:
            o = c07.gen_case(rng, tier)
            o["meta"]["kw"] = max(2, o["meta"].get("kw", 2))
            ops.append(o)
            continue
        if r < 0.32:
            # a flat schema of assertions against a batch of scalars drawn from the same pools
            c = gs.Ctx(rng, "2020", depth=0)
            doc = Obj()
            for _ in range(rng.randint(1, 3)):
                gs.add_keyword(c, doc, rng.choice(["type", "lengths", "bounds", "multipleOf", "enum", "const", "pattern", "type", "lengths"]), 0)
            pool = gs.NUMS + (gs.HUGE if doc.get("multipleOf") is None else [])
            insts = [rng.choice(gs.STRS) for _ in range(4)] + [Num(rng.choice(pool)) for _ in range(5)]
            ops.append({"op": "validate", "args": {"schema": doc, "insts": insts}, "meta": {"kw": gs.count_keywords(doc) + 1}})
            continue
        if r < 0.37:
            # equality-deciding keywords on values that are equal but spelled differently (0 / -0.0, 1 / 1.0 / 1e0, 100 / 1e2), at the
            # top and nested in otherwise equal containers
            a, b = rng.choice([("0", "-0.0"), ("0", "-0"), ("1", "1.0"), ("100", "1e2"), ("0.5", "5e-1"), ("-0.0", "0.0"),
                               ("9223372036854775808", "9.223372036854775808e18"), ("2", "3")])
            wrap = rng.choice([lambda x: x, lambda x: [x], lambda x: Obj([("a", x)]), lambda x: [[x], "s"]])
            x, y = wrap(Num(a)), wrap(Num(b))
            doc = rng.choice([Obj([("uniqueItems", True)]), Obj([("not", Obj([("uniqueItems", True)]))]),
                              Obj([("items", Obj([("const", x)]))]), Obj([("contains", Obj([("enum", [x, "zz"])])), ("minContains", Num("2"))]),
                              Obj([("uniqueItems", True), ("unevaluatedItems", False), ("prefixItems", [True, True, True])])])
            insts = [[x, y], [y, x], [x, "s", y], [x, x], [y], [x, Num("7"), y, None]]
            ops.append({"op": "validate", "args": {"schema": doc, "insts": insts}, "meta": {"kw": 2}})
            continue
        if 0.41 <= r < 0.435:
            ops.append(anchored_literal_case(rng))
            continue
        if r < 0.41:
            # strings that spell numbers next to the numbers themselves, under the equality-deciding keywords; the instances arrive as
            # float64 or, with UseNumber, as json.Number (whose Go kind is String)
            sp = rng.choice(["1", "100", "0.5", "42", "-0.0", "1e2", "443"])
            wrap = rng.choice([lambda x: x, lambda x: [x], lambda x: Obj([("id", x)]), lambda x: Obj([("a", [x, None])])])
            kw = rng.choice([Obj([("enum", [wrap(sp), "zz", wrap(Num("7"))])]), Obj([("const", wrap(sp))]), Obj([("not", Obj([("const", wrap(sp))]))]),
                             Obj([("enum", [wrap(Num(sp))])]), Obj([("if", Obj([("const", wrap(sp))])), ("then", False)]),
                             Obj([("uniqueItems", True)]), Obj([("oneOf", [Obj([("const", wrap(sp))]), Obj([("const", wrap(Num(sp)))])])])])
            insts = [wrap(sp), wrap(Num(sp)), wrap(Num("7")), wrap("7"), [wrap(sp), wrap(Num(sp))], [wrap(Num(sp)), wrap(Num(sp))], [sp, Num(sp), sp]]
            ops.append({"op": "validate", "args": {"schema": kw, "insts": insts, "usenumber": rng.random() < 0.6}, "meta": {"kw": 2}})
            continue
        if r < 0.45:
            ops.append(lookalike_case(rng))
            continue
        if r < 0.48:
            # references across resources whose URIs are near twins (trailing slash, empty segment, one character percent-encoded):
            # validity of an instance is decided by the resource each $ref designates (expected verdicts by construction)
            from .. import gen_refs
            args, meta = gen_refs.twin_universe(rng, "2020")
            ops.append({"op": "validate", "args": args, "meta": meta})
            continue
        if r < 0.52:
            ops.append(long_enum_case(rng))
            continue
        c = gs.Ctx(rng, "2020", depth=rng.choice([1, 2, depth]))
        doc = gs.gen_document(c, gs.D2020_URI if rng.random() < 0.3 else None)
        huge = not gs.has_key(doc, {"multipleOf"})
        insts = [gs.gen_instance(rng, huge=huge) for _ in range(6)]
        args = {"schema": doc, "insts": insts}
        if rng.random() < 0.2:
            args["usenumber"] = True
        ops.append({"op": "validate", "args": args, "meta": {"kw": gs.count_keywords(doc)}})
    return ops


def nontrivial(o):
    return (o.get("meta") or {}).get("kind") == "suite" or (o.get("meta") or {}).get("kw", 0) >= 2


def judge(o, go, m):
    return vjudge.judge_validate(o, go, m)
