"""C04 — the inferred schema accepts the JSON encoding of every value of the type."""
from .. import gen_types as gt

HARNESS_FILES = gt.harness_files
ID = "C04"
N_QUICK = 3000
N_THOROUGH = 40000
LEAN_MODULES = ["JSV.Props.C04"]
SHRINK = False
RULE = ("Go types of depth <= 4 over all documented kinds (composed with reflect in the harness, plus a bank of declared types for "
        "named types, embedding by value / pointer, shadowing, marshaler types); ~8% of the operations pass ForOptions.TypeSchemas with an "
        "entry whose multi-valued `type` accepts the encodings of the overridden type, which occurs several times (by value, behind "
        "pointers, in containers), after 0-2 earlier ForType calls with the same options object; per type 3 + n sampled values (zero with nil pointers "
        "and nil slices, the minima and the maxima of every sized kind, random) -> json.Marshal -> decode -> Validate against "
        "Resolve(ForType(T)) on the real package (the property observed directly); and ForType's schema = the model's. ~4% of types come "
        "from the classes of known findings D13-D16; ~7% are generated declared types at the corners of encoding/json's field selection "
        "(embedded structs with a name-less json tag, one JSON name for a tagged and an untagged field of equal depth, same-depth diamonds "
        "of embedded structs, and their neighbours). Non-trivial: composite type; distinct = operation text")
ASSUMPTIONS = ["nil maps, []byte, ',string', pointer-receiver marshalers held by value are outside the property's domain"]
OUTSIDE = {"bytes", "string-option", "ptr-marshaler-by-value", "badkey", "unsupported", "recursive"}
KNOWN_FEATURE = {"bigint": "D13", "bad-tag-name": "D15", "embedded-tagged": "D16", "embedded-nonstruct": "D16"}


def gen(rng, tier, n):
    ops = []
    while len(ops) < n:
        used = set()
        if rng.random() < 0.08:
            # TypeSchemas: entries that accept the encodings of the type they override (the hypothesis of infer_sound_table); the
            # overridden type occurs several times, also behind pointers, and the options object has been used by earlier calls
            t, warm, ts = gt.typeschemas_case(rng, used)
            ops.append({"op": "infer-accepts", "args": {"type": t, "seed": rng.randint(0, 10**6), "n": 4 if tier == "quick" else 12,
                                                        "opts": {"ignore": rng.random() < 0.2, "typeSchemas": ts}, "warm": warm},
                        "meta": {"used": sorted(used), "nt": True, "ts": True}})
            continue
        if rng.random() < 0.07:
            # declared types at the corners of encoding/json's field selection (gen_decls.gen_families): embedded structs with a
            # name-less json tag (still promoted), one JSON name for two fields of equal depth (the tagged one wins; tagged first
            # or optional: known finding D14), same-depth diamonds of embedded structs (ambiguous: dropped) and their neighbours
            t = gt.family_case(rng, used, {"inline": 8, "clash": 6, "clash_d14": 2, "diamond": 3, "diamond_near": 1})
            if t is not None:
                ops.append({"op": "infer-accepts", "args": {"type": t, "seed": rng.randint(0, 10**6), "n": 4 if tier == "quick" else 12},
                            "meta": {"used": sorted(used), "nt": True, "family": True}})
                continue
        t = gt.gen_type(rng, rng.choice([1, 2, 3, 4 if tier == "thorough" else 3]), used)
        ops.append({"op": "infer-accepts", "args": {"type": t, "seed": rng.randint(0, 10**6), "n": 4 if tier == "quick" else 12},
                    "meta": {"used": sorted(used), "nt": t["k"] in ("struct", "slice", "array", "map", "ptr", "named")}})
    return ops


def nontrivial(o):
    return (o.get("meta") or {}).get("nt", False)


def known_class(o, go):
    for n in (o.get("meta") or {}).get("used", []):
        if n in gt.BANK_KNOWN:
            return gt.BANK_KNOWN[n]
        if n in gt.GEN["known"]:
            return gt.GEN["known"][n]       # generated declarations of a known class (gen_decls.gen_families: clash_d14)
    for f in go.get("features") or []:
        if f in KNOWN_FEATURE:
            return KNOWN_FEATURE[f]
    return None


def judge(o, go, m):
    if go is None:
        return "violation:harness", "no answer"
    if go.get("outcome") == "harness-error":
        return "skip", go.get("detail")
    feats = set(go.get("features") or [])
    if feats & OUTSIDE:
        return "skip", "outside the domain: %s" % sorted(feats & OUTSIDE)
    k = known_class(o, go)
    if go.get("outcome") != "ok":
        if k:
            return "known:" + k, str(go.get("detail"))
        return "violation", "ForType/Resolve fails on a type of the domain: %s %s (%s)" % (go.get("outcome"), go.get("detail"), go.get("gotype"))
    if go.get("rejected"):
        if k:
            return "known:" + k, "rejected %r" % go["rejected"][:1]
        return "violation", "the schema inferred for %s rejects the encoding %s (schema %s)" % (go.get("gotype"), go["rejected"][0], go.get("schema"))
    return "agree", ""
