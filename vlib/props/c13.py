"""C13 — a Resolved and shared schemas are safe for concurrent use (partial: protocol proof + race-detector runs)."""
import json
import subprocess

from .. import core
from .. import gen_schema as gs
from .. import gen_types as gt
from .. import vjudge, wire
from ..wire import Obj, Num

ID = "C13"
N_QUICK = 150
N_THOROUGH = 1500
LEAN_MODULES = ["JSV.Props.C13"]
SHRINK = False
RULE = ("per op one Resolved / Schema tree shared by 8 goroutines x 6 rounds calling Validate on every instance, ApplyDefaults on "
        "distinct copies, Marshal, CloneSchemas, Resolve, For and Equal, compared with the sequential results; in ~20% of the ops also "
        "ForType on 1-4 types with one shared ForOptions.TypeSchemas (entries decoded from JSON), each result compared with the same "
        "call made alone and the shared entries compared with an untouched twin afterwards; schemas exercise every "
        "cached or lazily built structure (patterns, patternProperties, required sets, $dynamicRef stack, unevaluated* annotations, "
        "uniqueItems hashing); the harness is rebuilt with -race and any race report is a violation. Non-trivial: every op; distinct = "
        "operation text. The theorem is about the sharing protocol (JSV/Model/Conc.lean); the Go memory model itself is sampled only.")
RULE += (" Widened (~35% of the ops): the shared Resolved is made with ResolveOptions.ValidateDefaults (harness argument validateDefaults) "
         "from a document that carries 2..7 `default` keywords — under properties, nested properties, items, $defs, allOf branches — each "
         "valid against its own subschema by construction, and (known finding D19: ValidateDefaults refuses any tree with a $dynamicRef) "
         "no $dynamicRef; the goroutines start right after that Resolve, each with a burst of 4..16 back-to-back Validate passes over "
         "all instances (harness argument burst); before that, 8..32 times per op, a FRESH Resolved made the same way is hit by the 8 "
         "goroutines at once (harness argument freshRounds).")
RULE += (" Widened (~10% of the ops): 1..3 properties WITHOUT a default of their own whose defaults sit 2..4 or 10..24 levels of `properties` "
         "below them (1..3 default-free siblings per level), instances beginning with empty objects and objects holding some of the parents; in "
         "16..32 fresh rounds per op the goroutines' FIRST calls on the fresh Resolved are ApplyDefaults on their own copies of those instances "
         "(harness argument applyFirst), results compared with the sequential ApplyDefaults.")
TRUSTED = ["Go race detector (sampling, not proof)"]
PREFILTER = vjudge.prefilter


def _with_infer(rng, ops):
    """~20% of the operations: the goroutines also call ForType with ONE ForOptions (TypeSchemas entries decoded from JSON, multi-valued
    `type` lists of every length, the overridden type by value / behind pointers / in containers) on 1-4 types."""
    for o in ops:
        if rng.random() < 0.2:
            t, warm, ts = gt.typeschemas_case(rng, set())
            if not warm and rng.random() < 0.5:
                warm = [{"k": rng.choice(["ptr", "slice"]), "e": t}]
            o["args"]["infer"] = {"type": t, "warm": warm, "opts": {"ignore": rng.random() < 0.2, "typeSchemas": ts}}
    return ops


def gen(rng, tier, n):
    return _with_infer(rng, _with_nested_defaults(rng, _with_validate_defaults(rng, _gen(rng, tier, n))))


def _deep_defaults(rng, levels, width, dv):
    """A subschema WITHOUT a default of its own whose only default(s) sit `levels` levels of `properties` further down; every level
    also has `width` sibling properties without any default below them (some of them objects with properties of their own)."""
    s = Obj([("default", dv)]) if rng.random() < 0.7 else Obj([("type", ["number", "string", "array", "object", "boolean", "null"]), ("default", dv)])
    for lv in range(levels):
        sibs = []
        for w in range(width):
            r = rng.random()
            sibs.append(("s%d" % w, Obj([("type", "string")]) if r < 0.5 else Obj([("minimum", Num("0"))]) if r < 0.7 else
                         Obj([("properties", Obj([("t", Obj([("type", "number")])), ("u", Obj([("properties", Obj([("v", True)]))]))]))])))
        kvs = sibs + [("n", s)]
        rng.shuffle(kvs)
        s = Obj([("properties", Obj(kvs))])
        if rng.random() < 0.2:
            s.set("type", "object")
    return s


def _with_nested_defaults(rng, ops):
    """~10% of the operations: the document gets 1..3 properties that have NO default of their own but defaults two or more levels
    (2..4, one of them mostly 10..24) of `properties` below them, next to siblings without defaults; the instances begin with EMPTY objects (and objects in
    which some of the parents are present), for which ApplyDefaults creates the absent parents exactly when a nested default exists; in
    16..32 fresh rounds per op every goroutine's FIRST calls on the fresh Resolved are ApplyDefaults on its own copies of those instances
    (harness argument applyFirst), each result compared with the sequential one."""
    for o in ops:
        if rng.random() >= 0.1:
            continue
        doc = o["args"]["schema"]
        props = doc.get("properties") if isinstance(doc.get("properties"), Obj) else Obj()
        names = rng.sample(["p", "q", "r"], rng.randint(1, 3))
        for i, nm in enumerate(names):
            # one of them deep (the documents stay below ~5 kB), the others two to four levels
            levels = rng.randint(2, 4) if i > 0 or rng.random() < 0.25 else rng.randint(10, 24)
            props.set(nm, _deep_defaults(rng, levels, rng.randint(0, 2) if levels < 10 else rng.randint(1, 3),
                                         rng.choice([Num("1"), "x1", [Num("1"), "a"], Obj([("k", None)]), None, True])))
        if rng.random() < 0.3:
            props.set("w", Obj([("properties", Obj([("n", Obj([("properties", Obj([("n", Obj([("type", "string")]))]))]))]))]))   # no default below: never created
        doc.set("properties", props)
        first = [Obj(), Obj([("a", "x1")]), Obj([(names[0], Obj())]), Obj([(names[-1], Obj([("n", Obj([("s0", "v")]))])), ("zz", Obj())])]
        o["args"]["insts"] = first + o["args"]["insts"]
        o["args"]["applyFirst"] = rng.choice([[0], [0, 1], [0, 1, 2, 3], [0, 2], [1, 0, 3]])
        o["args"]["freshRounds"] = rng.choice([16, 24, 32])
        o["meta"]["nested_defaults"] = True
    return ops


def _strip(j, keys):
    """j without the given keywords, at every level."""
    if isinstance(j, Obj):
        return Obj([(k, _strip(v, keys)) for k, v in j.kvs if k not in keys])
    if isinstance(j, list):
        return [_strip(x, keys) for x in j]
    return j


# (subschema, a default that is valid against it)
DEFAULTED = [
    (lambda: Obj([("type", "integer"), ("minimum", Num("0"))]), lambda: Num("1")),
    (lambda: Obj([("pattern", "^x")]), lambda: "x1"),
    (lambda: Obj([("pattern", "^x")]), lambda: Num("7")),
    (lambda: Obj([("uniqueItems", True)]), lambda: [Num("1"), Num("2"), "1"]),
    (lambda: Obj([("type", ["array", "null"]), ("items", Obj([("type", "number")]))]), lambda: [Num("1"), Num("1.5")]),
    (lambda: Obj([("enum", ["a", "b", None])]), lambda: None),
    (lambda: Obj([("properties", Obj([("q", Obj([("type", "string")]))])), ("required", ["q"])]), lambda: Obj([("q", "s")])),
    (lambda: Obj([("patternProperties", Obj([("^k", Obj([("type", "boolean")]))])), ("additionalProperties", False)]), lambda: Obj([("k1", True)])),
    (lambda: Obj([("anyOf", [Obj([("type", "string")]), Obj([("minimum", Num("3"))])])]), lambda: Num("4")),
    (lambda: Obj([("not", Obj([("type", "null")]))]), lambda: False),
    (lambda: Obj(), lambda: Obj([("any", ["thing"])])),
    (lambda: Obj([("unevaluatedProperties", False), ("properties", Obj([("z", True)]))]), lambda: Obj([("z", Num("0"))])),
]


def _defaulted(rng):
    mk, dv = rng.choice(DEFAULTED)
    o = mk()
    o.set("default", dv())
    return o


def _with_validate_defaults(rng, ops):
    """~35% of the operations: Resolve with ValidateDefaults on a variant of the document with several valid defaults and no
    $dynamicRef (D19). Every Validate call of the goroutines then runs on a Resolved whose defaults were validated during Resolve."""
    for o in ops:
        if rng.random() >= 0.35:
            continue
        doc = _strip(o["args"]["schema"], {"default", "$dynamicRef"})
        props = doc.get("properties") if isinstance(doc.get("properties"), Obj) else Obj()
        a = props.get("a") if isinstance(props.get("a"), Obj) else Obj()
        if a.get("$ref") is None:
            # (in the draft-07 shape `a` is {"$ref": …}, whose siblings are ignored there: left alone)
            a.set("default", Num("1"))           # `a` has a pattern (strings only): 1 is valid
            props.set("a", a)
        for name in rng.sample(["b", "c", "e", "f", "g"], rng.randint(1, 3)):
            props.set(name, _defaulted(rng))
        if rng.random() < 0.7:
            # nested: defaults below a subschema that has a (valid) default itself
            inner = Obj([(k, _defaulted(rng)) for k in rng.sample(["m", "k", "j"], rng.randint(1, 2))])
            props.set("n", Obj([("properties", inner), ("default", Obj())]))
        doc.set("properties", props)
        if rng.random() < 0.4 and doc.get("items") is None and doc.get("prefixItems") is None:
            doc.set("items", _defaulted(rng))
        if rng.random() < 0.4:
            defs_kw = "definitions" if doc.get("definitions") is not None else "$defs"
            defs = doc.get(defs_kw) if isinstance(doc.get(defs_kw), Obj) else Obj()
            defs.set("vd%d" % rng.randint(0, 2), _defaulted(rng))
            doc.set(defs_kw, defs)
        if rng.random() < 0.3:
            al = doc.get("allOf") if isinstance(doc.get("allOf"), list) else []
            doc.set("allOf", al + [Obj([("properties", Obj([("h", _defaulted(rng))]))])])
        o["args"]["schema"] = doc
        o["args"]["validateDefaults"] = True
        o["args"]["burst"] = rng.choice([4, 8, 16])
        o["args"]["freshRounds"] = rng.choice([8, 16, 32])
        o["args"]["insts"] = o["args"]["insts"] + [Obj([("a", "x1"), ("b", Num("1")), ("n", Obj([("m", "x")]))]), [Num("1"), "x", None]]
        o["meta"]["vd"] = True
    return ops


def _gen(rng, tier, n):
    ops = []
    while len(ops) < n:
        d7 = rng.random() < 0.25
        c = gs.Ctx(rng, "7" if d7 else "2020", depth=3)
        doc = gs.gen_document(c, rng.choice(gs.D7_URIS) if d7 else None)
        if not isinstance(doc, Obj):
            continue
        if d7:
            # draft-07 shapes of the same structures: a fragment-only $id (a plain-name anchor there), definitions, dependencies
            doc.set("$id", "http://x.test/c13/root.json")
            defs = doc.get("definitions") if isinstance(doc.get("definitions"), Obj) else Obj()
            defs.set("fr", Obj([("$id", "#fr"), ("type", "number")]))
            defs.set("e", Obj([("$id", "sub/e.json"), ("minimum", Num("0"))]))
            doc.set("definitions", defs)
            doc.set("patternProperties", Obj([("^a", Obj([("type", "number")])), ("b$", True)]))
            doc.set("required", ["a"])
            doc.set("properties", Obj([("a", Obj([("default", Num("1")), ("$ref", "#fr")])), ("d", Obj([("uniqueItems", True)])),
                                       ("x-%d" % len(ops), Obj([("title", "t"), ("x-unknown", [Num("1")])]))]))
            doc.set("x-root-%d" % (len(ops) % 3), Obj([("k", "v")]))
            insts = [gs.gen_instance(rng) for _ in range(6)] + [Obj([("a", Num("1")), ("d", [Num("1"), Num("1.0")])])]
            ops.append({"op": "concurrent", "args": {"schema": doc, "insts": insts}, "meta": {}})
            continue
        # make sure the cached / lazily initialised structures are present
        doc.set("patternProperties", Obj([("^a", Obj([("type", "number")])), ("b$", True)]))
        doc.set("required", ["a"])
        doc.set("properties", Obj([("a", Obj([("default", Num("1")), ("pattern", "^x")])), ("d", Obj([("uniqueItems", True)]))]))
        doc.set("unevaluatedProperties", Obj([("$dynamicRef", "#n")]))
        doc.set("$dynamicAnchor", "n") if doc.get("$dynamicAnchor") is None else None
        if rng.random() < 0.6:
            doc.set("x-root-%d" % (len(ops) % 3), Obj([("k", "v")]))     # unknown keywords: the struct+map splice of Marshal
        insts = [gs.gen_instance(rng) for _ in range(6)] + [Obj([("a", "x1"), ("d", [Num("1"), Num("1.0")])])]
        ops.append({"op": "concurrent", "args": {"schema": doc, "insts": insts}, "meta": {}})
    return ops


def nontrivial(o):
    return True


def judge(o, go, m):
    if go is None:
        return "violation:harness", "no answer"
    if go.get("outcome") in ("panic", "timeout", "crash"):
        return "violation", "the real package %s under concurrency: %s" % (go.get("outcome"), str(go.get("detail"))[:300])
    if go.get("outcome") == "harness-error":
        return "skip", go.get("detail")
    if go.get("mismatches"):
        return "violation", "%d concurrent call(s) returned something else than the sequential run" % go["mismatches"]
    return "agree", ""


def extra(ctx):
    """The same workload under the race detector."""
    vh, txt = ctx["build_harness"](ctx["scratch"], race=True)
    if vh is None:
        return [], {"race_build": "failed: " + txt[-300:]}
    ops = gen(ctx["rng"], ctx["tier"], 40 if ctx["tier"] == "quick" else 400)
    for i, o in enumerate(ops):
        o["id"] = i
    mo = ctx["eval_ops"](ops, ctx["drv"], "model", shards=4)
    ops = [o for o in ops if PREFILTER(o, mo.get(o["id"]))]
    lines = "".join(wire.dumps({"id": o["id"], "op": o["op"], "args": o["args"]}) + "\n" for o in ops)
    env = dict(ctx["goenv"], GORACE="halt_on_error=0 exitcode=66")
    p = subprocess.run([vh], input=lines, capture_output=True, text=True, env=env, timeout=1500)
    races = p.stderr.count("WARNING: DATA RACE")
    viol = []
    if races or p.returncode == 66:
        viol.append(ctx["write_replay"](0, {"property": ID, "why": "the race detector reports %d data race(s)" % races,
                                            "report": p.stderr[:6000], "ops": len(ops)}))
    bad = 0
    for ln in p.stdout.splitlines():
        try:
            g = json.loads(ln).get("go") or {}
        except Exception:
            continue
        if g.get("mismatches") or g.get("outcome") in ("panic", "crash"):
            bad += 1
    if bad and not viol:
        viol.append(ctx["write_replay"](1, {"property": ID, "why": "%d op(s) with results differing from the sequential run under -race" % bad}))
    # cold starts: fresh processes whose very first calls into the package are concurrent (process-wide caches filled under contention)
    ncold = 10 if ctx["tier"] == "quick" else 60
    cold_bad, cold_races, first = 0, 0, set()
    for i in range(ncold):
        o = ops[i % len(ops)] if ops else None
        if o is None:
            break
        line = wire.dumps({"id": 0, "op": "cold", "args": {"text": wire.to_text(o["args"]["schema"]),
                                                         "insts": [wire.to_text(x) for x in o["args"]["insts"][:4]]}}) + "\n"
        try:
            cp = subprocess.run([vh], input=line, capture_output=True, text=True, env=env, timeout=120)
        except subprocess.TimeoutExpired:
            cold_bad += 1
            continue
        cold_races += cp.stderr.count("WARNING: DATA RACE")
        g = None
        for ln in cp.stdout.split("\n"):
            try:
                g = json.loads(ln).get("go") or g
            except Exception:
                pass
        if g is None or g.get("mismatches") or g.get("outcome") != "ok" or cp.returncode not in (0,):
            cold_bad += 1
            if len(viol) < 2:
                viol.append(ctx["write_replay"](2 + len(viol), {"property": ID, "op": {"op": "cold", "args": json.loads(line)["args"]},
                                                               "why": "a fresh process whose first calls into the package are concurrent: exit %r, result %r" % (cp.returncode, g),
                                                               "report": cp.stderr[:4000]}))
    if cold_races and not viol:
        viol.append(ctx["write_replay"](4, {"property": ID, "why": "the race detector reports %d data race(s) in cold-start processes" % cold_races}))
    return viol, {"race_ops": len(ops), "race_reports": races, "race_exit": p.returncode, "cold_processes": ncold,
                  "cold_failures": cold_bad, "cold_race_reports": cold_races}
