"""C09 — JSON accepted by an inferred schema decodes into the type."""
from .. import gen_types as gt
from . import c04

HARNESS_FILES = gt.harness_files
ID = "C09"
N_QUICK = 2000
N_THOROUGH = 30000
LEAN_MODULES = ["JSV.Props.C09"]
SHRINK = False
RULE = ("types as in C04 without standard-library marshaler types (tag names with letters and digits of any script; ~5% of the types hold "
        "two or three different declared struct types of the same name and package path); per type every valid encoding of 3 + n sampled values and every "
        "single-point mutation of it (drop a key, add a key, swap a value's JSON type incl. null, push an integer past each sized bound, "
        "a fraction, array length +-1; <= 400 per encoding): whenever Validate accepts, json.Decoder with DisallowUnknownFields must decode "
        "into *T (the property observed directly on the real package). Non-trivial: composite type; distinct = operation text")
OUTSIDE = (c04.OUTSIDE - {"bytes"}) | {"marshaler", "bigint"}      # byte slices: their schema must still only accept what decodes


def gen(rng, tier, n):
    ops = []
    while len(ops) < n:
        used = set()
        t = gt.same_name_case(rng, used) if rng.random() < 0.05 else gt.gen_type(rng, rng.choice([1, 2, 3]), used)
        args = {"type": t, "seed": rng.randint(0, 10**6), "n": 2 if tier == "quick" else 6}
        if rng.random() < 0.15:
            # history: the same type was inferred earlier in this process with a looser TypeSchemas override for a type inside it
            from ..wire import Obj
            nm = rng.choice(["Inner", "MyInt", "MyString", "MyFloat", "time.Time"] + gt.GEN["names"][:6])
            args["pre"] = [{"type": t, "opts": {"ignore": rng.random() < 0.3, "typeSchemas": [{"name": nm, "schema": rng.choice([Obj(), True, Obj([("type", ["string", "number", "object"])])])}]}}]
            if rng.random() < 0.6:
                args["type"] = t = {"k": "struct", "fields": [{"name": "P", "tag": 'json:"p"', "t": {"k": "named", "name": nm}}, {"name": "Q", "tag": 'json:"q"', "t": t}]}
                args["pre"][0]["type"] = t
        ops.append({"op": "infer-decodes", "args": args,
                    "meta": {"used": sorted(used), "nt": t["k"] in ("struct", "slice", "array", "map", "ptr", "named")}})
    return ops


nontrivial = c04.nontrivial


def judge(o, go, m):
    if go is None:
        return "violation:harness", "no answer"
    if go.get("outcome") == "harness-error":
        return "skip", go.get("detail")
    feats = set(go.get("features") or [])
    if feats & OUTSIDE:
        return "skip", "outside the domain: %s" % sorted(feats & OUTSIDE)
    k = c04.known_class(o, go)
    if go.get("outcome") != "ok":
        return ("known:" + k, "") if k else ("violation", "ForType fails: %r" % (go,))
    if go.get("undecodable"):
        if k:
            return "known:" + k, go["undecodable"][0]
        return "violation", "accepted by the schema inferred for %s but not decodable: %s (schema %s)" % (go.get("gotype"), go["undecodable"][0], go.get("schema"))
    return "agree", ""
