"""C09 — JSON accepted by an inferred schema decodes into the type."""
from .. import gen_types as gt
from . import c04

HARNESS_FILES = gt.harness_files
ID = "C09"
N_QUICK = 2000
N_THOROUGH = 30000
LEAN_MODULES = ["JSV.Props.C09"]
SHRINK = False
RULE = ("types as in C04 without standard-library marshaler types (tag names with letters and digits of any script; ~5% of the types hold "
        "two or three different declared struct types of the same name and package path); per type every valid encoding of 3 + n sampled values and every "
        "single-point mutation of it (drop a key, add a key, swap a value's JSON type incl. null, push an integer past each sized bound, "
        "a fraction, array length +-1; <= 400 per encoding): whenever Validate accepts, json.Decoder with DisallowUnknownFields must decode "
        "into *T (the property observed directly on the real package); 'add a key' also with every field / tag name of the type itself; null at "
        "every position whose Go type is a struct, array, boolean, number or string not behind a pointer must be REJECTED. ~5% of the types are "
        "generated declared types with same-depth diamonds of embedded structs (and neighbours, name-less tags on embedded structs, a tagged "
        "and an untagged field of one JSON name), ~6% hold one declared type several times through different wrappers (pointer first, "
        "by value later, ...). Non-trivial: composite type; distinct = operation text")
OUTSIDE = (c04.OUTSIDE - {"bytes"}) | {"marshaler", "bigint"}      # byte slices: their schema must still only accept what decodes


def gen(rng, tier, n):
    ops = []
    while len(ops) < n:
        used = set()
        r = rng.random()
        if r < 0.05:
            t = gt.same_name_case(rng, used)
        elif r < 0.10:
            # same-depth diamonds of embedded structs (their doubly promoted fields are ambiguous: not properties of the type), their
            # neighbours, embedded structs with a name-less json tag, one JSON name for a tagged and an untagged field of equal depth
            t = gt.family_case(rng, used, {"diamond": 10, "diamond_near": 2, "inline": 3, "clash": 3}) or gt.gen_type(rng, 2, used)
        elif r < 0.16:
            # one declared type several times in one type through different wrappers, in every order (pointer first, then by value ...)
            t = gt.repeated_named_case(rng, used, ["Inner", "Inner2", "Deep", "Empty", "Levels", "DescTag", "HoldsPtrs", "IDt", "BaseT", "Twice"] + gt.GEN["names"][:8])
        else:
            t = gt.gen_type(rng, rng.choice([1, 2, 3]), used)
        args = {"type": t, "seed": rng.randint(0, 10**6), "n": 2 if tier == "quick" else 6}
        if rng.random() < 0.15:
            # history: the same type was inferred earlier in this process with a looser TypeSchemas override for a type inside it
            from ..wire import Obj
            nm = rng.choice(["Inner", "MyInt", "MyString", "MyFloat", "time.Time"] + gt.GEN["names"][:6])
            args["pre"] = [{"type": t, "opts": {"ignore": rng.random() < 0.3, "typeSchemas": [{"name": nm, "schema": rng.choice([Obj(), True, Obj([("type", ["string", "number", "object"])])])}]}}]
            if rng.random() < 0.6:
                args["type"] = t = {"k": "struct", "fields": [{"name": "P", "tag": 'json:"p"', "t": {"k": "named", "name": nm}}, {"name": "Q", "tag": 'json:"q"', "t": t}]}
                args["pre"][0]["type"] = t
        ops.append({"op": "infer-decodes", "args": args,
                    "meta": {"used": sorted(used), "nt": t["k"] in ("struct", "slice", "array", "map", "ptr", "named")}})
    return ops


nontrivial = c04.nontrivial


def judge(o, go, m):
    if go is None:
        return "violation:harness", "no answer"
    if go.get("outcome") == "harness-error":
        return "skip", go.get("detail")
    feats = set(go.get("features") or [])
    if feats & OUTSIDE:
        return "skip", "outside the domain: %s" % sorted(feats & OUTSIDE)
    if go.get("outcome") == "timeout":
        # one infer-decodes operation is hundreds of Validate + Decode calls (every mutation of several encodings): the harness deadline
        # on a loaded machine says nothing about C09 (a ForType that does not return is C10's / C16's business, observed on small operations)
        return "skip", "deadline reached while checking the mutations"
    k = c04.known_class(o, go)
    if go.get("outcome") != "ok":
        return ("known:" + k, "") if k else ("violation", "ForType fails: %r" % (go,))
    if go.get("undecodable"):
        if k:
            return "known:" + k, go["undecodable"][0]
        return "violation", "accepted by the schema inferred for %s but not decodable: %s (schema %s)" % (go.get("gotype"), go["undecodable"][0], go.get("schema"))
    if go.get("null_accepted"):
        # the statement's second form, observed directly: null where the Go type is a struct / array / boolean / number / string not
        # behind a pointer must be rejected (encoding/json skips a null silently, so "accepted => decodes" cannot see this class)
        if k:
            return "known:" + k, go["null_accepted"][0]
        return "violation", "the schema inferred for %s accepts null in a non-nullable position: %s (schema %s)" % (go.get("gotype"), go["null_accepted"][0], go.get("schema"))
    return "agree", ""
