"""C10 — every entry point returns a value or an error: never a panic or a hang."""
from .. import core
from .. import gen_refs
from .. import gen_schema as gs
from .. import gen_schemaval as gsv
from .. import gen_values as gv
from .. import gen_types as gt
from .. import vjudge, wire
from ..wire import Obj, Num, to_text

HARNESS_FILES = gt.harness_files
ID = "C10"
N_QUICK = 6000
N_THOROUGH = 100000
LEAN_MODULES = ["JSV.Props.C10"]
SHRINK = True
RULE = ("adversarial stream, every call under recover and a deadline: (a) mutated bytes of generated documents and ill-typed documents into "
        "Unmarshal, then Resolve / Validate / ApplyDefaults / Marshal on whatever was accepted; (b) Schema graphs built by pointer surgery "
        "(shared and cyclic subschema pointers, nil children in every container field, nil root, malformed URIs and patterns, conflicting "
        "fields) into Resolve under every loader behaviour (none, error, nil, wrong document, self-referential universe, a node of the graph "
        "itself, ValidateDefaults); (c) instances in every representation of C08 plus non-JSON kinds at the top against schemas with type; "
        "(d) reference universes with loader faults, incl. cycles between Loader documents that name each other by absolute URIs with a "
        "userinfo part (op validate-go: net/url's userinfo is not in the model, so the model is not consulted; the Loader gives up after "
        "8k+16 requests for k documents and an overrun counts as not returning); (e) ForType on recursive / unsupported types, incl. "
        "recursive declared ARRAY types (type Quad [4]*Quad, type Trie [2][]Trie, mutual, and holders of one): a fatal stack overflow of the "
        "harness process is isolated per operation and reported as outcome crash. Violation = panic, crash or deadline on the "
        "real package; where the model covers the call its outcome is compared too. Non-trivial: every op; distinct = operation text")
RULE += (". Widened (~5%): BYTE SEQUENCES — JSON arrays of integers 0..255 held as Go arrays [N]uint8 BY VALUE (top level, interface "
         "element, map value, element of an outer Go array: not addressable), as []uint8, *[N]uint8, elements of [][N]uint8, or []any — "
         "in pairs of equal length (equal, or differing in one byte) and of different length: Equal(x, y) both ways; arrays / objects of "
         "them with planted duplicates under uniqueItems; and as the values LISTED by enum / const of a schema built in Go (resolve-desc "
         "argument govals) against instances in every such representation")
RULE += ("; ~2%: ForType with a TypeSchemas override for a struct embedded (1..3 levels down) in a generated declared type, incl. the layouts "
         "where the overridden struct is the last field of its embedder and a shallower field follows")
RULE += ("; ~2%: a Loader that answers with a *Schema the referring Resolved already holds as an INTERIOR subschema (of the root or of a "
         "document loaded earlier; harness aliases with a JSON-Pointer target), referenced with no / empty / pointer / plain-name fragments "
         "that exist or not")
ASSUMPTIONS = ["schema recursion passes through an instance-descending keyword (otherwise the Go stack overflows: outside the proviso)",
               "encoding/json's byte scanner is the standard library's (not modelled)"]


def mutate_bytes(rng, text):
    b = bytearray(text.encode("utf-8"))
    for _ in range(rng.randint(1, 4)):
        r = rng.random()
        if not b:
            break
        i = rng.randrange(len(b))
        if r < 0.3:
            del b[i]
        elif r < 0.6:
            b.insert(i, rng.choice(b'{}[]",:0123456789.-eEtfn\\ \x00\xff'))
        elif r < 0.8:
            b[i] = rng.randrange(256)
        else:
            b = b[:i]
    return b.decode("utf-8", "replace")


ILLTYPED = [("type", Num("5")), ("type", [Num("1")]), ("type", None), ("items", None), ("items", Num("3")), ("properties", []),
            ("properties", Obj([("a", Num("1"))])), ("allOf", Obj()), ("allOf", [None]), ("allOf", [Num("1")]), ("required", "a"),
            ("required", [Num("1")]), ("minLength", "3"), ("minLength", Num("1.5")), ("minLength", Num("1e2")), ("minLength", Num("99999999999")),
            ("minimum", "1"), ("enum", Obj()), ("const", None), ("dependencies", [None]), ("dependencies", Obj([("a", None)])),
            ("dependencies", Obj([("a", Num("1"))])), ("$ref", Num("1")), ("$ref", "::bad"), ("$ref", "#%zz"), ("$id", "#frag"), ("$id", "::"),
            ("pattern", "("), ("patternProperties", Obj([("[", True)])), ("$defs", Obj([("x", None)])), ("not", None), ("if", []),
            ("uniqueItems", "yes"), ("$vocabulary", Obj([("v", Num("1"))])), ("dependentRequired", Obj([("a", "b")])),
            ("$dynamicRef", "#nosuch"), ("$dynamicRef", "#/properties"), ("$dynamicRef+defs", "definitions"), ("$dynamicRef+defs", "$defs"), ("maxLength", Num("4294967296.0")), ("minItems", Num("2147483648.0")), ("minLength", Num("1e10")), ("$schema", Num("7")), ("additionalProperties", None), ("prefixItems", Obj()), ("default", None)]


def _has_big_number(v):
    from fractions import Fraction
    acc = []
    vjudge._nums(v, acc)
    for t in acc:
        try:
            if abs(Fraction(t)) >= 2**50:
                return True
        except Exception:
            pass
    return False


def graph(rng, fields):
    """A Schema graph with pointer surgery."""
    desc, facts = gsv.gen_desc(rng, fields, depth=2, nfields=(1, 5), rules_ok=0.6, big_int_p=0.05, empty_p=0.2)
    nodes = desc["nodes"]
    n = len(nodes)
    ftype = {f["name"]: f["type"] for f in fields}
    for _ in range(rng.randint(1, 3)):
        i = rng.randrange(n)
        name = rng.choice([f["name"] for f in fields if "Schema" in f["type"]])
        t = ftype[name]
        target = rng.choice([rng.randrange(n), i, 0, None, 10**6])
        if t == "*jsonschema.Schema":
            nodes[i][name] = target
        elif t == "[]*jsonschema.Schema":
            nodes[i][name] = [target, rng.choice([rng.randrange(n), None])]
        else:
            nodes[i][name] = [["k", target], ["", rng.choice([rng.randrange(n), None])]]
    if rng.random() < 0.3:
        i = rng.randrange(n)
        nodes[i][rng.choice(["Ref", "ID", "DynamicRef", "Pattern", "Schema"])] = rng.choice(
            ["::", "#%zz", "http://[::1", "(", "\\", "#/a/~2", "http://x.test/a#b#c", " ", "%", "urn:", "#"])
    root = rng.choice([0, 0, 0, rng.randrange(n)])     # a nil *receiver* is not a Schema value: outside the domain
    return {"nodes": nodes, "root": root}


def bytes_case(rng):
    """Byte sequences in every Go spelling through Equal, uniqueItems and Go-built enum / const."""
    k = rng.random()
    if k < 0.35:
        j1, j2 = gv.gen_bytes_pair(rng)
        x, y = gv.represent_bytes(rng, j1), gv.represent_bytes(rng, j2)
        if rng.random() < 0.5:
            x, y = y, x
        return {"op": "equal", "args": {"x": x, "y": y}, "meta": {"equal": True, "bytes": True}}
    if k < 0.65:
        n = rng.choice([0, 1, 2, 2, 3, 4])
        items, seen = [], set()
        for _ in range(rng.randint(1, 5)):
            b = gv.gen_bytes_json(rng, n if rng.random() < 0.85 else None)
            if wire.canon(b) not in seen:
                seen.add(wire.canon(b))
                items.append(b)
        if rng.random() < 0.6:
            i = rng.randrange(len(items))
            items.insert(rng.randrange(len(items) + 1), items[i])
        doc, j = Obj([("uniqueItems", True)]), items
        c = rng.random()
        if c < 0.2:
            doc, j = Obj([("properties", Obj([("a", doc)]))]), Obj([("a", items)])
        elif c < 0.35:
            doc, j = Obj([("items", doc)]), [items]
        elif c < 0.45:
            doc = Obj([("not", doc)])
        return {"op": "validate", "args": {"schema": doc, "ginsts": [gv.represent_bytes(rng, j) for _ in range(3)]},
                "meta": {"nonjson": True, "bytes": True}}
    j1, j2 = gv.gen_bytes_pair(rng)
    others = [gv.gen_bytes_json(rng) for _ in range(rng.randint(0, 2))]
    kw = rng.choice(["Enum", "Enum", "Const"])
    if kw == "Const":
        vals, node = [j1], {"Const": {"v": j1}}
    else:
        vals = others + [j1]
        rng.shuffle(vals)
        node = {"Enum": vals}
    govals = [[1, kw, i, gv.represent_bytes(rng, v)] for i, v in enumerate(vals) if rng.random() < 0.8]
    where = rng.choice(["allOf", "prop", "items"])
    if where == "allOf":
        nodes, insts = [{"AllOf": [1]}, node], [j2, j1]
    elif where == "prop":
        nodes, insts = [{"Properties": [["p", 1]]}, node], [Obj([("p", j2)]), Obj([("p", j1)])]
    else:
        nodes, insts = [{"Items": 1}, node], [[j2, j1], [j1]]
    return {"op": "resolve-desc", "args": {"desc": {"nodes": nodes, "root": 0, "govals": govals}, "loader": "", "base": "",
                                           "ginsts": [gv.represent_bytes(rng, x) for x in insts]},
            "meta": {"graph": True, "bytes": True}}


def interior_loader(rng):
    """A Loader that answers a URL with a *Schema the referring Resolved ALREADY HOLDS as an interior subschema (harness `aliases` with
    a JSON-Pointer target): a node of the root document, or of a Loader document that was asked for earlier — with or without `$id`,
    with or without an anchor of its own —, referenced without fragment, with an empty fragment, a JSON Pointer (existing / dangling)
    or a plain-name fragment (an anchor the node declares itself, one its enclosing document declares elsewhere, one that exists
    nowhere). Whatever Resolve makes of such a Loader, it must return (a value or an error). The served nodes hold no references, so
    no reference cycle arises; op validate-go: shared objects are outside the model."""
    draft = rng.choice(["2020", "2020", "7"])
    dk = "$defs" if draft == "2020" else "definitions"
    base = rng.choice(["http://x.test/app/root.json", "http://x.test/r.json", "https://reg.test/a/b/n"])
    dirn = base.rsplit("/", 1)[0] + "/"

    def leaf(i):
        o = Obj(rng.choice([[("type", "integer")], [("const", "R%d" % i)], [("properties", Obj([("q", Obj([("type", "string")]))]))], [],
                            [(dk, Obj([("q", Obj([("type", "null")]))]))]]))
        r = rng.random()
        if r < 0.3:
            o.set("$anchor" if draft == "2020" else "$id", "tgt%d" % i if draft == "2020" else "#tgt%d" % i)
        elif r < 0.4:
            o.set("$id", "sub%d.json" % i)               # neighbour: the served node is a resource root of its own
        return o
    n = rng.randint(1, 3)
    holders = [("#root", None)]
    docs = []
    if rng.random() < 0.4:
        durl = dirn + "lib.json"
        holders.append((durl, "lib.json"))
    interiors = []          # (holder, pointer)
    bodies = {h: Obj() for h, _ in holders}
    for i in range(n):
        h, _ = rng.choice(holders)
        where = rng.choice([dk, dk, "properties"])
        nm = "n%d" % i
        sub = bodies[h].get(where)
        if sub is None:
            sub = Obj()
            bodies[h].set(where, sub)
        sub.kvs.append((nm, leaf(i)))
        interiors.append((h, "/%s/%s" % (where, nm)))
    aliases, props = [], Obj()
    if len(holders) > 1:
        props.kvs.append(("lib", Obj([("$ref", "lib.json")])))          # the other document is asked for first
        bodies[holders[1][0]].set("$anchor" if draft == "2020" else "title", "libanchor")
        docs.append([holders[1][0], bodies[holders[1][0]]])
    for k in range(rng.randint(1, 3)):
        h, ptr = rng.choice(interiors)
        url = "other%d.json" % k
        aliases.append([dirn + url, h + "#" + ptr])
        frag = rng.choice(["#nosuch", "#nosuch", "#nosuch", "#tgt%d" % rng.randrange(n), "#libanchor", "", "#", "#/properties/q", "#/%s/q" % dk,
                           "#/nosuch/ptr", "#rootanchor"])
        kw = "$ref" if draft == "7" or rng.random() < 0.85 else "$dynamicRef"
        props.kvs.append(("p%d" % k, Obj([(kw, rng.choice([url, dirn + url]) + frag)])))
    rng.shuffle(props.kvs) if rng.random() < 0.3 else None
    root = bodies["#root"]
    if rng.random() < 0.5:
        root.set("$anchor" if draft == "2020" else "title", "rootanchor")
    if root.get("properties") is None:
        root.set("properties", props)
    else:
        root.get("properties").kvs += props.kvs
    if draft == "7":
        root.kvs.insert(0, ("$schema", "http://json-schema.org/draft-07/schema#"))
    insts = [Obj(), Obj([("p0", Num("1"))]), Obj([("p0", "R0"), ("p1", Obj([("q", "s")]))])]
    args = {"schema": root, "docs": docs, "base": base, "loader": True, "insts": insts, "aliases": aliases, "maxLoads": 8 * (len(docs) + len(aliases)) + 16}
    return args, {"universe": True, "interior": True, "ndocs": len(docs) + len(aliases)}


def gen(rng, tier, n):
    fields = gsv.fetch_fields(core)
    ops = []
    while len(ops) < n:
        if rng.random() < 0.05:
            ops.append(bytes_case(rng))
            continue
        r = rng.random()
        if r < 0.2:
            c = gs.Ctx(rng, rng.choice(["2020", "7"]), depth=2, refs=False)
            c.wild_ints = True
            doc = gs.gen_document(c, rng.choice(gs.D7_URIS) if c.draft == "7" and rng.random() < 0.8 else None)
            text = to_text(doc)
            ops.append({"op": "unmarshal-bytes", "args": {"text": mutate_bytes(rng, text) if rng.random() < 0.8 else text}, "meta": {}})
        elif r < 0.35:
            c = gs.Ctx(rng, rng.choice(["2020", "7"]), depth=1, refs=False)
            doc = gs.gen_document(c, rng.choice(gs.D7_URIS) if c.draft == "7" and rng.random() < 0.8 else None)
            if not isinstance(doc, Obj):
                doc = Obj()
            pos = []
            from .c18 import positions
            positions(doc, pos)
            for _ in range(rng.randint(1, 2)):
                k, v = rng.choice(ILLTYPED)
                if k == "$dynamicRef+defs":
                    # a $dynamicRef that does resolve (to a sibling definition, never to itself), in either draft
                    doc.set(v, Obj([("zd0", Obj([("type", "integer")]))]))
                    doc.set("$dynamicRef", "#/" + v + "/zd0")
                    continue
                rng.choice(pos).set(k, v)
            ops.append({"op": "unmarshal-bytes", "args": {"text": to_text(doc)}, "meta": {"illtyped": True}})
        elif r < 0.6:
            g = graph(rng, fields)
            ginsts = [gv.represent(rng, gv.gen_json(rng, 2)) for _ in range(3)]
            if any("MultipleOf" in nd for nd in g["nodes"]):
                # multipleOf is evaluated with a float64 quotient, exact only below 2^53: instances with a number of magnitude >= 2^50
                # against a graph that uses multipleOf are outside the domain (vjudge.outside_multipleOf_domain says the same for documents)
                ginsts = [x for x in ginsts if not _has_big_number(x)]
            ld = rng.choice(["", "", "error", "nil", "self", "wrong", "node", "validate-defaults"])
            if ld not in ("", "error", "nil"):
                # the model does not cover these loader behaviours, so it cannot tell whether the graph recurses without descending
                # into the instance (e.g. {"$ref":"#"}; outside the proviso, it overflows the Go stack): Resolve only
                ginsts = []
            ops.append({"op": "resolve-desc", "args": {"desc": g, "loader": ld,
                                                        "base": rng.choice(["", "", "http://x.test/r.json", "::", "http://x.test/r#frag", "rel/ative"]),
                                                        "ginsts": ginsts}, "meta": {"graph": True}})
        elif r < 0.64:
            # Equal on two representations (often of one and the same Go type: identical array / slice / map types have their own paths)
            j1 = gv.gen_json(rng, 3)
            j2 = j1 if rng.random() < 0.6 else gv.mutate_leaf(rng, j1)
            x, y = gv.represent(rng, j1), gv.represent(rng, j2)
            if isinstance(x, dict) and rng.random() < 0.5:
                y = gv.represent_as(rng, j2, x["t"]) or y
            if rng.random() < 0.15:
                tt = rng.choice(["struct", "func", "chan", "complex128", "map[int]any", "[]struct", "*struct"])
                y = {"t": tt, "v": None if tt.startswith("*") else []}
            ops.append({"op": "equal", "args": {"x": x, "y": y}, "meta": {"equal": True}})
        elif r < 0.8:
            j = gv.gen_json(rng, 3)
            doc = gs.gen_document(gs.Ctx(rng, rng.choice(["2020", "7"]), depth=2))
            reprs = [gv.represent(rng, j) for _ in range(3)]
            tt = rng.choice(["struct", "func", "chan", "complex128", "map[int]any", "[]struct", "map[string]func", "*struct"])
            reprs.append({"t": tt, "v": None if tt.startswith("*") else []})
            ops.append({"op": "validate", "args": {"schema": doc, "ginsts": reprs}, "meta": {"nonjson": True}})
        elif r < 0.93:
            root, docs, base, loader, insts, expect, meta = gen_refs.gen_universe(rng, rng.choice(["2020", "7"]), 3)
            # more faults: every document may fail / be nil / be ill-typed
            for d in docs:
                rr = rng.random()
                if rr < 0.2:
                    d[1] = {"fail": 1}
                elif rr < 0.35:
                    d[1] = {"nil": 1}
                elif rr < 0.45 and isinstance(d[1], Obj):
                    k, v = rng.choice(ILLTYPED)
                    d[1].set(k, v)
            ops.append({"op": "validate", "args": {"schema": root, "docs": docs, "base": rng.choice([base, base, "::", "http://x.test/r#f"]),
                                                    "loader": loader, "insts": insts[:4]}, "meta": {"universe": True}})
        elif rng.random() < 0.12:
            from .. import gen_refs as _gr
            ops.append({"op": "validate", "args": _gr.mixed_cycle(rng), "meta": {"universe": True, "mixed": True}})
        elif rng.random() < 0.3:
            args, meta = interior_loader(rng)
            ops.append({"op": "validate-go", "args": args, "meta": meta})
        elif rng.random() < 0.25:
            # cycles between Loader documents named by absolute URIs WITH userinfo: outside the model of net/url, so op validate-go
            # (not sent to the model); judged by "returns" and by the Loader's request count
            args, meta = gen_refs.userinfo_cycle(rng)
            ops.append({"op": "validate-go", "args": args, "meta": meta})
        elif rng.random() < 0.4 and gt.GEN["embedding"]:
            # ForType with a TypeSchemas override for a struct type EMBEDDED in the type under inference — directly, or two and more
            # levels down (generated declared types: gen_decls, incl. its tail layouts where the overridden struct is the last field of
            # its embedder and a shallower field follows) —, the type plain or inside a container; well-formed entries (type object +
            # properties) and ill-formed ones (For must answer with an error)
            from .c16 import TS_EMBED_POOL
            cands = sorted(gt.GEN["embedding"])
            outer = rng.choice(cands)
            clos = gt.embeds_closure(outer)
            deep = [x for x in clos if x not in gt.GEN["embeds"].get(outer, [])]
            if not deep:
                for cand in rng.sample(cands, min(6, len(cands))):
                    cc = gt.embeds_closure(cand)
                    dd = [x for x in cc if x not in gt.GEN["embeds"].get(cand, [])]
                    if dd:
                        outer, clos, deep = cand, cc, dd
                        break
            inner = rng.choice(deep) if deep and rng.random() < 0.7 else rng.choice(clos)
            N = {"k": "named", "name": outer}
            t = rng.choice([N, N, N, {"k": "slice", "e": N}, {"k": "ptr", "e": N}, {"k": "map", "key": "string", "e": N},
                            {"k": "struct", "fields": [{"name": "P", "tag": 'json:"p"', "t": N}, {"name": "Q", "tag": "", "t": {"k": "int"}}]}])
            ts = [{"name": inner, "schema": rng.choice(TS_EMBED_POOL)}]
            if rng.random() < 0.2 and len(clos) > 1:
                ts.append({"name": rng.choice([x for x in clos if x != inner]), "schema": rng.choice(TS_EMBED_POOL)})
            ops.append({"op": "infer-accepts", "args": {"type": t, "seed": 1, "n": 1, "opts": {"ignore": rng.random() < 0.3, "typeSchemas": ts}},
                        "meta": {"embedded_override": True}})
        else:
            used = set()
            t = gt.gen_type(rng, 3, used, allow_known=0.1, allow_rec=0.3, allow_bad=0.3)
            ops.append({"op": "infer-accepts", "args": {"type": t, "seed": 1, "n": 1, "opts": {"ignore": rng.random() < 0.5}}, "meta": {}})
    return ops


def PREFILTER(o, m):
    if o["op"] in ("validate", "resolve-desc"):
        return vjudge.prefilter(o, m) and ((m or {}).get("model") or {}).get("outcome") != "fuel"
    return True


def nontrivial(o):
    return True


def bad(go):
    if go is None:
        return "no answer"
    if go.get("outcome") in ("panic", "timeout", "crash"):
        return "%s: %s" % (go.get("outcome"), str(go.get("detail"))[:300])
    for v in go.get("verdicts") or []:
        if v in ("panic", "apply-panic", "timeout"):
            return "Validate/ApplyDefaults: %s" % v
    return None


def judge(o, go, m):
    if go is not None and go.get("outcome") == "harness-error":
        return "skip", go.get("detail")
    if o["op"] == "resolve-desc":
        d = o["args"].get("desc") or {}
        if d.get("root") is None or not d.get("nodes"):
            return "skip", "nil root: not a Schema value"
    b = bad(go)
    if b:
        return "violation", "the real package does not return: " + b
    if go is not None and go.get("overrun"):
        return "violation", ("the real package does not return on its own: Resolve asked the Loader %d times for a universe of %s documents and "
                             "stopped only because the harness Loader gave up (unbounded load/resolve recursion): %r" % (
                                 len(go.get("log") or []), (o.get("meta") or {}).get("ndocs"), (go.get("log") or [])[:6]))
    mo = (m or {}).get("model") or {}
    me = o.get("meta") or {}
    # where the model covers the call, its outcome class must agree (panic is never predicted inside the domain)
    if o["op"] in ("validate", "resolve-desc") and mo.get("outcome") not in (None, "n/a") and not me.get("illtyped"):
        if me.get("universe") and any(isinstance(d[1], Obj) is False for d in o["args"].get("docs", [])):
            pass
        if mo.get("outcome") == "panic":
            return "violation:model", "the model predicts a panic (model defect or a panic the stream did not trigger): %r" % (o["op"],)
        if o["op"] == "resolve-desc" and go.get("outcome") != mo.get("outcome"):
            return "violation", "Resolve on a graph: real package %s, model %s" % (go.get("outcome"), mo.get("outcome"))
        if o["op"] == "resolve-desc" and go.get("outcome") == "resolved":
            gv_, mv = go.get("verdicts") or [], mo.get("verdicts") or []
            if [v for v in gv_ if v != "apply-panic"] != mv:
                return "violation", "verdicts on a graph: real package %r, model %r" % (gv_, mv)
    return "agree", ""
