"""C20 — CloneSchemas yields an equal and fully independent schema tree."""
from .. import core
from .. import gen_schemaval as gsv
from ..ordered import same_ordered
from ..wire import parse_ordered, from_tagged

ID = "C20"
N_QUICK = 4000
N_THOROUGH = 60000
LEAN_MODULES = ["JSV.Props.C20"]
RULE = ("Schema trees built by reflection over the real field table with subschemas under every schema-valued, schema-array-valued and "
        "schema-map-valued field (incl. the draft-07 ones), depth <= 3, nil and empty containers. Observed on the real package directly: "
        "clone marshals identically, shares no *Schema with the original (reflect walk), {allOf:[s, clone]} resolves iff {allOf:[s]} does, "
        "and after mutating every Schema object of the clone the original still marshals as before; and = model's clone. "
        "Non-trivial: >= 3 Schema objects; distinct = operation text")


def gen(rng, tier, n):
    fields = gsv.fetch_fields(core)
    schemaish = [f for f in fields if "Schema" in f["type"]]
    ops = []
    single = [f["name"] for f in fields if f["type"] == "*jsonschema.Schema"]
    many = [f["name"] for f in fields if f["type"] == "[]*jsonschema.Schema"]
    maps = [f["name"] for f in fields if f["type"] == "map[string]*jsonschema.Schema"]
    for depth in ([40, 63, 64, 65, 66, 100, 130, 200] if single else []):
        # one long chain of nested subschemas (every kind of schema-holding field on the way)
        nodes = [{"Type": "string"}]
        for d in range(depth):
            r = rng.random()
            child = len(nodes) - 1
            if r < 0.6 or not many:
                nodes.append({rng.choice(single): child})
            elif r < 0.8 or not maps:
                nodes.append({rng.choice(many): [child]})
            else:
                nodes.append({rng.choice(maps): [["k", child]]})
        ops.append({"op": "clone", "args": {"desc": {"nodes": nodes, "root": len(nodes) - 1}}, "meta": {"facts": {"n": depth + 1}, "nt": True}})
    while len(ops) < n:
        # bias towards schema-bearing fields
        fl = schemaish * 3 + fields if rng.random() < 0.7 else fields
        seen, fl2 = set(), []
        for f in fl:
            fl2.append(f)
        desc, facts = gsv.gen_desc(rng, _dedup(fl2, rng), depth=rng.choice([1, 2, 3 if tier == "thorough" else 2]), nfields=(1, 6),
                                   big_int_p=0)
        ops.append({"op": "clone", "args": {"desc": desc}, "meta": {"facts": facts, "nt": facts["n"] >= 3}})
    return ops


def _dedup(fl, rng):
    # gen_desc samples without replacement from names; emulate a bias by dropping random non-schema fields
    names, out = set(), []
    for f in fl:
        if f["name"] not in names:
            if "Schema" in f["type"] or rng.random() < 0.4:
                names.add(f["name"])
                out.append(f)
    return out or fl[:5]


def nontrivial(o):
    return (o.get("meta") or {}).get("nt", False)


def judge(o, go, m):
    if go is None:
        return "violation:harness", "no answer"
    if go.get("outcome") == "harness-error":
        return "skip", go.get("detail")
    if m is None or "model" not in m:
        return "violation:driver", "driver: %r" % (m,)
    mo = m["model"]
    if go.get("outcome") != "ok" or mo.get("outcome") != "ok":
        return "violation", "outcome: real package %r, model %r" % (go.get("outcome"), mo.get("outcome"))
    if go.get("shared") != 0:
        return "violation", "the clone shares %d Schema object(s) with the original" % go.get("shared")
    if go["count"][0] != go["count"][1]:
        return "violation", "the clone has %d Schema objects, the original %d" % (go["count"][1], go["count"][0])
    if go.get("marshal") != mo.get("marshal"):
        return "violation", "marshal outcome: real %r model %r" % (go.get("marshal"), mo.get("marshal"))
    if go.get("marshal") == "ok":
        if go["text"] != go["clone_text"]:
            return "violation", "the clone marshals differently: %s vs %s" % (go["text"][:200], go["clone_text"][:200])
        if not same_ordered(parse_ordered(go["clone_text"]), from_tagged(mo["clone_value"])):
            return "violation", "clone value: real package %s, model %r" % (go["clone_text"][:200], from_tagged(mo["clone_value"]))
        if go.get("frame") is not True:
            return "violation", "mutating the clone changed the original"
        if go.get("frame_inplace") is False:
            return "violation", "growing the clone's schema slices / maps in place changed the original (a shared map or backing array)"
    elif not go.get("same_error"):
        return "violation", "only one of original / clone fails to marshal"
    if go.get("alone_resolves") and not go.get("both_resolve"):
        return "violation", "{allOf:[s, s.CloneSchemas()]} does not resolve although {allOf:[s]} does"
    if mo.get("shared") != 0 or mo["count"] != go["count"]:
        return "violation", "model clone: shared=%r count=%r, real count=%r" % (mo.get("shared"), mo.get("count"), go["count"])
    return "agree", ""
