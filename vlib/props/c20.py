"""C20 — CloneSchemas yields an equal and fully independent schema tree."""
from .. import core
from .. import gen_schemaval as gsv
from .. import gen_values as gv
from ..ordered import same_ordered
from ..wire import parse_ordered, from_tagged

ID = "C20"
N_QUICK = 4000
N_THOROUGH = 60000
LEAN_MODULES = ["JSV.Props.C20"]
RULE = ("Schema trees built by reflection over the real field table with subschemas under every schema-valued, schema-array-valued and "
        "schema-map-valued field (incl. the draft-07 ones), depth <= 3, nil and empty containers. Observed on the real package directly: "
        "clone marshals identically, shares no *Schema with the original (reflect walk), {allOf:[s, clone]} resolves iff {allOf:[s]} does, "
        "and after mutating every Schema object of the clone the original still marshals as before; and = model's clone. "
        "In ~8% of the trees 1..3 Extra entries hold Go values that json decoding never produces (declared structs and pointers to them, "
        "json.RawMessage, *Schema, typed maps / slices, json.Number, sized integers; descriptor member `goextra`): Extra is shared by "
        "the clone, so both marshal to the same bytes whatever it holds. "
        "Non-trivial: >= 3 Schema objects; distinct = operation text")
RULE += (". Widened (3 operations per run, op clone-go with `tail`): trees built in memory that are nested deeper than any JSON document "
         "encoding/json reads or writes (its limit is 10 000 levels) — one chain of 1 500..4 000, one of 10 001..10 900 and one of "
         "11 000..12 500 Schema objects through every kind of schema-holding field, with a small bushy subtree at the bottom. Marshal of "
         "such a tree is refused by encoding/json (and quadratic in the depth), and the driver's model of Marshal has no nesting limit, so "
         "these are NOT sent to the model: they are judged by the direct oracle of the statement alone — no Schema object shared at any "
         "depth (reflect walk of both trees), same number of objects and same shape, {allOf:[s, clone]} resolves iff {allOf:[s]} does, the "
         "subtrees rooted in the deepest 40 levels marshal to the same bytes in both, and keep doing so in the original after every "
         "Schema object of the clone was assigned to")


def gen(rng, tier, n):
    fields = gsv.fetch_fields(core)
    schemaish = [f for f in fields if "Schema" in f["type"]]
    ops = []
    single = [f["name"] for f in fields if f["type"] == "*jsonschema.Schema"]
    many = [f["name"] for f in fields if f["type"] == "[]*jsonschema.Schema"]
    maps = [f["name"] for f in fields if f["type"] == "map[string]*jsonschema.Schema"]
    for depth in ([40, 63, 64, 65, 66, 100, 130, 200] if single else []):
        # one long chain of nested subschemas (every kind of schema-holding field on the way)
        nodes = [{"Type": "string"}]
        for d in range(depth):
            r = rng.random()
            child = len(nodes) - 1
            if r < 0.6 or not many:
                nodes.append({rng.choice(single): child})
            elif r < 0.8 or not maps:
                nodes.append({rng.choice(many): [child]})
            else:
                nodes.append({rng.choice(maps): [["k", child]]})
        ops.append({"op": "clone", "args": {"desc": {"nodes": nodes, "root": len(nodes) - 1}}, "meta": {"facts": {"n": depth + 1}, "nt": True}})
    for lo, hi in ([(1500, 3000), (10001, 10600)] if single else []):
        # deeper than JSON goes: only a tree built in Go can be like this (see RULE); Go only, direct oracle
        depth = rng.randint(lo, hi)
        nodes = [{"Type": "string"}, {"Title": "t"}, {"Properties": [["p", 0], ["q", 1]], "Required": ["p"]}, {"Type": "number"},
                 {"AnyOf": [2, 3]}]
        for d in range(depth):
            r = rng.random()
            child = len(nodes) - 1
            if r < 0.7 or not many:
                nodes.append({rng.choice(single): child})
            elif r < 0.85 or not maps:
                nodes.append({rng.choice(many): [child]})
            else:
                nodes.append({rng.choice(maps): [[rng.choice(["k", "a b", "x"]), child]]})
        ops.append({"op": "clone-go", "args": {"desc": {"nodes": nodes, "root": len(nodes) - 1}, "tail": 40},
                    "meta": {"facts": {"n": len(nodes)}, "nt": True, "oracle": True, "deep": depth}})
    while len(ops) < n:
        # bias towards schema-bearing fields
        fl = schemaish * 3 + fields if rng.random() < 0.7 else fields
        seen, fl2 = set(), []
        for f in fl:
            fl2.append(f)
        desc, facts = gsv.gen_desc(rng, _dedup(fl2, rng), depth=rng.choice([1, 2, 3 if tier == "thorough" else 2]), nfields=(1, 6),
                                   big_int_p=0)
        if rng.random() < 0.08:
            go_extra(rng, desc)
        ops.append({"op": "clone", "args": {"desc": desc}, "meta": {"facts": facts, "nt": facts["n"] >= 3}})
    return ops


def go_extra(rng, desc):
    """Extra values built in Go: the node table gets the JSON value each one marshals to (what the model sees), `goextra` the Go value."""
    ge = []
    for _ in range(rng.randint(1, 3)):
        i = rng.randrange(len(desc["nodes"]))
        nd = desc["nodes"][i]
        k = rng.choice(["x-go-type", "x-order", "x-raw", "x-meta", "vendor"])
        if nd.get("Extra") is None:
            nd["Extra"] = []
        if k in [e[0] for e in nd["Extra"]]:
            continue
        g = gv.gen_govalue(rng)
        nd["Extra"].append([k, gv.denote(g)])
        ge.append([i, k, g])
    if ge:
        desc["goextra"] = ge


def _dedup(fl, rng):
    # gen_desc samples without replacement from names; emulate a bias by dropping random non-schema fields
    names, out = set(), []
    for f in fl:
        if f["name"] not in names:
            if "Schema" in f["type"] or rng.random() < 0.4:
                names.add(f["name"])
                out.append(f)
    return out or fl[:5]


def _sort_under(v, keys, inside=False):
    """The model keeps Extra values as decoded JSON (objects with ascending keys, which is what Marshal writes for maps); a Go struct or
    a json.RawMessage under an Extra key writes its members in its own order. Below the keys of `goextra` entries — and only there —
    member order is therefore not compared with the model (original and clone are still compared byte for byte)."""
    from ..wire import Obj
    if isinstance(v, Obj):
        kvs = [(k, _sort_under(x, keys, inside or k in keys)) for k, x in v.kvs]
        return Obj(sorted(kvs, key=lambda kv: kv[0]) if inside else kvs)
    if isinstance(v, list):
        return [_sort_under(x, keys, inside) for x in v]
    return v


def nontrivial(o):
    return (o.get("meta") or {}).get("nt", False)


def judge_oracle(o, go):
    """op clone-go with `tail` (trees nested deeper than encoding/json goes): the real package against the statement, never the model."""
    if go is None:
        return "violation:harness", "no answer"
    if go.get("outcome") == "harness-error":
        return "violation:harness", str(go.get("detail"))
    if go.get("outcome") == "timeout":
        # the harness deadline (10 s) on a slow machine: a matter of speed, not of C20's statement (hangs are C10's business and these
        # operations are finite by construction) — a false alarm of `vp check` 7 on a sandbox about ten times slower than the build machine
        return "skip", "deadline reached on a deep chain"
    if go.get("outcome") != "ok":
        return "violation", "CloneSchemas of a tree of %d Schema objects: %s %s" % (
            len(o["args"]["desc"]["nodes"]), go.get("outcome"), str(go.get("detail"))[:300])
    if go.get("shared") != 0:
        return "violation", "the clone shares %d Schema object(s) with the original (tree of depth %s)" % (go.get("shared"), go.get("depth"))
    if go["count"][0] != go["count"][1] or not go.get("shape"):
        return "violation", "the clone has %d Schema objects, the original %d (same shape: %s)" % (go["count"][1], go["count"][0], go.get("shape"))
    if go["count"][0] != len(o["args"]["desc"]["nodes"]):
        return "violation:harness", "the tree has %d Schema objects, the descriptor %d nodes" % (go["count"][0], len(o["args"]["desc"]["nodes"]))
    if not go.get("tail_n"):
        return "violation:harness", "no deep subtree was observed"
    if go.get("tail_equal") is not True:
        return "violation", "a subtree of the deepest levels marshals differently in the clone"
    if go.get("tail_frame") is not True:
        return "violation", "assigning to the Schema objects of the clone changed a subtree of the deepest levels of the original"
    if go.get("alone_resolves") and not go.get("both_resolve"):
        return "violation", "{allOf:[s, s.CloneSchemas()]} does not resolve although {allOf:[s]} does"
    return "agree", ""


def judge(o, go, m):
    if o["op"] == "clone-go":
        return judge_oracle(o, go)
    if go is None:
        return "violation:harness", "no answer"
    if go.get("outcome") == "harness-error":
        return "skip", go.get("detail")
    if m is None or "model" not in m:
        return "violation:driver", "driver: %r" % (m,)
    mo = m["model"]
    if go.get("outcome") != "ok" or mo.get("outcome") != "ok":
        return "violation", "outcome: real package %r, model %r" % (go.get("outcome"), mo.get("outcome"))
    if go.get("shared") != 0:
        return "violation", "the clone shares %d Schema object(s) with the original" % go.get("shared")
    if go["count"][0] != go["count"][1]:
        return "violation", "the clone has %d Schema objects, the original %d" % (go["count"][1], go["count"][0])
    if go.get("marshal") != mo.get("marshal"):
        return "violation", "marshal outcome: real %r model %r" % (go.get("marshal"), mo.get("marshal"))
    if go.get("marshal") == "ok":
        if go["text"] != go["clone_text"]:
            return "violation", "the clone marshals differently: %s vs %s" % (go["text"][:200], go["clone_text"][:200])
        gkeys = {e[1] for e in (o["args"]["desc"].get("goextra") or [])}
        if not same_ordered(_sort_under(parse_ordered(go["clone_text"]), gkeys), _sort_under(from_tagged(mo["clone_value"]), gkeys)):
            return "violation", "clone value: real package %s, model %r" % (go["clone_text"][:200], from_tagged(mo["clone_value"]))
        if go.get("frame") is not True:
            return "violation", "mutating the clone changed the original"
        if go.get("frame_inplace") is False:
            return "violation", "growing the clone's schema slices / maps in place changed the original (a shared map or backing array)"
    elif not go.get("same_error"):
        return "violation", "only one of original / clone fails to marshal"
    if go.get("alone_resolves") and not go.get("both_resolve"):
        return "violation", "{allOf:[s, s.CloneSchemas()]} does not resolve although {allOf:[s]} does"
    if mo.get("shared") != 0 or mo["count"] != go["count"]:
        return "violation", "model clone: shared=%r count=%r, real count=%r" % (mo.get("shared"), mo.get("count"), go["count"])
    return "agree", ""
