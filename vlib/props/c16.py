"""C16 — For is a deterministic, isolating function of type and options."""
from .. import core
from .. import gen_types as gt
from ..ordered import same_ordered
from ..wire import parse_ordered, from_tagged, Obj
from . import c04

ID = "C16"
N_QUICK = 3000
N_THOROUGH = 40000
LEAN_MODULES = ["JSV.Props.C16"]
SHRINK = False
RULE = ("types as in C04 plus recursive and mutually recursive declared types, unsupported kinds at any depth (func, chan, complex, "
        "non-string map keys), types occurring several times; options: IgnoreInvalidTypes on/off, TypeSchemas overriding named types. "
        "Observed on the real package directly: two calls marshal identically and share no *Schema with each other nor with TypeSchemas; "
        "Resolve accepts the result; for struct types the property names / order = the keys json.Marshal emits for a fully populated value "
        "and required fields are always emitted for the zero value; recursive types give an error (no hang); unsupported kinds give an "
        "error or are dropped. The marshaled schema = the model's forType (types with embedded fields: real package only). "
        "Non-trivial: composite type; distinct = operation text")
ASSUMPTIONS = ["JSONSCHEMAGODEBUG unset (the typeschemasnull=1 setting is exercised by the thorough tier in a child process)"]


def gen(rng, tier, n):
    raw = []
    while len(raw) < n:
        used = set()
        t = gt.gen_type(rng, rng.choice([1, 2, 3, 4 if tier == "thorough" else 3]), used, allow_rec=0.06, allow_bad=0.06)
        opts = {"ignore": rng.random() < 0.3}
        if rng.random() < 0.15:
            nm = rng.choice(["Inner", "MyInt", "time.Time", "Twice"])
            sch = rng.choice([Obj([("type", "string"), ("format", "x")]), Obj([("type", ["integer", "null"])]), Obj([("enum", ["a"])]),
                              Obj([("type", "object"), ("properties", Obj([("q", Obj([("type", "boolean")]))]))])])
            opts["typeSchemas"] = [{"name": nm, "schema": sch}]
        raw.append((t, opts, used))
    # the structure of every type as reflect shows it (input of the model)
    tops = [{"id": i, "op": "typeinfo", "args": {"type": t}} for i, (t, _, _) in enumerate(raw)]
    names = sorted({ts["name"] for _, o, _ in raw for ts in o.get("typeSchemas", [])})
    nops = [{"id": len(tops) + i, "op": "typeinfo", "args": {"type": {"k": "named", "name": nm}}} for i, nm in enumerate(names)]
    info = core.eval_ops(tops + nops, core.CTX["vh"], "go", shards=4, env=core.GOENV)
    tname = {nm: info[len(tops) + i]["go"]["structure"].get("name") for i, nm in enumerate(names)}
    ops = []
    for i, (t, opts, used) in enumerate(raw):
        st = info[i]["go"].get("structure")
        for ts in opts.get("typeSchemas", []):
            ts["tname"] = tname[ts["name"]]
        ops.append({"op": "infer", "args": {"type": t, "structure": st, "opts": opts},
                    "meta": {"used": sorted(used), "nt": t["k"] in ("struct", "slice", "array", "map", "ptr", "named")}})
    return ops


nontrivial = c04.nontrivial


def judge(o, go, m):
    if go is None:
        return "violation:harness", "no answer"
    if go.get("outcome") == "harness-error":
        return "skip", go.get("detail")
    if go.get("outcome") in ("timeout", "panic", "crash"):
        return "violation", "ForType %s on %s" % (go.get("outcome"), go.get("gotype"))
    feats = set(go.get("features") or [])
    used = set((o.get("meta") or {}).get("used", []))
    opts = o["args"].get("opts") or {}
    k = c04.known_class(o, go)
    mo = (m or {}).get("model") or {}
    def _core(t):
        while t.get("k") in ("ptr", "slice", "array", "map"):
            t = t["e"]
        return t
    top = _core(o["args"]["type"])
    if top.get("k") == "named" and top.get("name") in gt.BANK_REC and go.get("outcome") == "ok" and not opts.get("typeSchemas"):
        return "violation", "a recursive type did not produce an error: %s" % go.get("gotype")
    if o["args"]["type"].get("k") in ("func", "chan", "complex128") or (o["args"]["type"].get("k") == "map" and o["args"]["type"].get("key") == "int"):
        if go.get("outcome") == "ok":
            return "violation", "an unsupported kind was accepted: %s -> %s" % (go.get("gotype"), go.get("schema"))
    if go.get("outcome") == "ok":
        if not go.get("determ"):
            return "violation", "two calls of ForType(%s) marshal differently" % go.get("gotype")
        if go.get("shared"):
            return "violation", "results of ForType(%s) share %d Schema object(s) with each other or with TypeSchemas" % (go.get("gotype"), go["shared"])
        if not go.get("resolves") and not opts.get("typeSchemas"):
            if k:
                return "known:" + k, str(go.get("resolve_detail"))
            return "violation", "Resolve refuses the schema inferred for %s: %s" % (go.get("gotype"), go.get("resolve_detail"))
        if go.get("full_keys") is not None and not (feats & {"string-option", "ptr-marshaler-by-value", "bigint", "unsupported", "badkey"}):
            order, full = go.get("order") or [], go.get("full_keys") or []
            bad = None
            if order != full:
                bad = "property order %r, encoding/json emits %r" % (order, full)
            elif sorted(order) != go.get("properties"):
                bad = "properties %r vs PropertyOrder %r" % (go.get("properties"), order)
            elif not set(go.get("required") or []) <= set(go.get("zero_keys") or []) or len(set(go.get("required") or [])) != len(go.get("required") or []):
                bad = "required %r, but the zero value is emitted with keys %r" % (go.get("required"), go.get("zero_keys"))
            if bad:
                if k:
                    return "known:" + k, bad
                return "violation", "%s: %s" % (go.get("gotype"), bad)
    # correspondence with the model
    if mo.get("outcome") in (None, "unmodelled"):
        return "agree", ""
    gout = {"ok": "ok", "error": "error", "nil": "nil"}.get(go.get("outcome"))
    if gout != mo.get("outcome"):
        if k:
            return "known:" + k, ""
        return "violation", "ForType(%s): real package %s (%s), model %s" % (go.get("gotype"), go.get("outcome"), go.get("detail"), mo.get("outcome"))
    if gout == "ok" and not same_ordered(parse_ordered(go["schema"]), from_tagged(mo["value"])):
        if k:
            return "known:" + k, ""
        return "violation", "inferred schema for %s: real package %s, model %r" % (go.get("gotype"), go["schema"][:400], from_tagged(mo["value"]))
    return "agree", ""
