"""C16 — For is a deterministic, isolating function of type and options."""
from .. import core
from .. import gen_types as gt
from ..ordered import same_ordered
from ..wire import parse_ordered, from_tagged, Obj
from . import c04

HARNESS_FILES = gt.harness_files
ID = "C16"
N_QUICK = 3000
N_THOROUGH = 40000
LEAN_MODULES = ["JSV.Props.C16"]
SHRINK = False
RULE = ("types as in C04 plus recursive and mutually recursive declared types, unsupported kinds at any depth (func, chan, complex, "
        "non-string map keys), types occurring several times; options: IgnoreInvalidTypes on/off, TypeSchemas overriding named types. "
        "Observed on the real package directly: two calls marshal identically and share no *Schema with each other nor with TypeSchemas; "
        "Resolve accepts the result and no Schema object occurs twice in it, also when a TypeSchemas entry uses one subschema object at "
        "several positions (~5% of the operations: entries from a grammar over the subschema-bearing keywords, made DAGs in the harness); for struct types the property names / order = the keys json.Marshal emits for a fully populated value "
        "and required fields are always emitted for the zero value; recursive types give an error (no hang); unsupported kinds give an "
        "error or are dropped. The marshaled schema = the model's forType (types with embedded fields: real package only). "
        "Non-trivial: composite type; distinct = operation text")
ASSUMPTIONS = ["JSONSCHEMAGODEBUG unset (the typeschemasnull=1 setting is exercised by the thorough tier in a child process)"]


TS_POOL = [Obj([("type", "string"), ("format", "x")]), Obj([("type", ["integer", "null"])]), Obj([("enum", ["a"])]),
           Obj([("type", ["string", "integer", "boolean"])]), Obj([("type", ["string", "integer", "boolean"])]), Obj([("type", ["array", "object", "number"]), ("minItems", 1)]),
           Obj([("type", "object"), ("properties", Obj([("q", Obj([("type", "boolean")]))]))]),
           # nested schemas under keywords other than properties / items / additionalProperties
           Obj([("oneOf", [Obj([("type", "string")]), Obj([("type", "integer")])])]),
           Obj([("$defs", Obj([("d", Obj([("type", "null")]))])), ("type", "string")]),
           Obj([("not", Obj([("const", "no")]))]), Obj([("anyOf", [Obj([("minimum", 0)]), True])]),
           Obj([("if", Obj([("type", "string")])), ("then", Obj([("minLength", 1)]))]),
           Obj([("type", "array"), ("prefixItems", [Obj([("type", "string")])]), ("contains", Obj())]),
           Obj([("allOf", [Obj([("patternProperties", Obj([("^x", Obj([("type", "integer")]))]))])])]), Obj()]
# an override for an embedded struct may only have type object and properties
TS_EMBED_POOL = [Obj([("type", "object"), ("properties", Obj([("q", Obj([("type", "boolean")]))]))]),
                 Obj([("type", "object"), ("properties", Obj([("ov2", Obj([("type", "string")])), ("ov1", Obj([("oneOf", [True, Obj([("type", "null")])])]))]))]),
                 Obj([("type", "object")]), Obj([("type", "string")]),
                 Obj([("type", "object"), ("properties", Obj([("q", True)])), ("required", ["q"])])]


def _to_obj(x):
    if isinstance(x, dict):
        return Obj([(k, _to_obj(v)) for k, v in x.items()])
    if isinstance(x, list):
        return [_to_obj(v) for v in x]
    return x


def dag_entry(rng):
    """(schema, share): a reference-free TypeSchemas entry drawn from a small grammar over the subschema-bearing keywords (properties,
    prefixItems, items, additionalProperties, allOf / anyOf / oneOf, not, if / then, contains, $defs, patternProperties), in which one
    subschema OBJECT sits at two (rarely three) positions: `share` lists pairs of JSON Pointers [a, b]; the harness makes the position
    b hold the same *Schema as the position a (what an entry written in Go with one leaf variable used twice looks like). The JSON text
    at b is a copy of the text at a, so the entry reads the same with and without sharing; neither position lies inside the other."""
    import copy
    leaves = [{"type": "number"}, {"type": "string"}, {"type": "integer", "minimum": 0}, {}, {"type": "boolean"}, {"type": ["string", "null"]}]
    pos = []        # (pointer segments, container, key) of every proper subschema

    def sub(container, key, path, depth):
        container[key] = tree(path, depth)
        pos.append((path, container, key))

    def tree(path, depth):
        if depth <= 0 or rng.random() < 0.25:
            return copy.deepcopy(rng.choice(leaves))
        form = rng.choice(["props", "props", "prefix", "comb", "addl", "items", "not", "ifthen", "contains", "defs", "pattern"])
        s = {}
        if form == "props":
            s["type"] = "object"
            s["properties"] = {}
            for k in rng.sample(["Lo", "Hi", "q", "a/b", "x~y"], rng.randint(2, 3)):
                sub(s["properties"], k, path + ["properties", k.replace("~", "~0").replace("/", "~1")], depth - 1)
        elif form == "prefix":
            s["type"] = "array"
            s["prefixItems"] = [None, None]
            for i in range(2):
                sub(s["prefixItems"], i, path + ["prefixItems", str(i)], depth - 1)
            if rng.random() < 0.5:
                sub(s, "items", path + ["items"], depth - 1)
        elif form == "comb":
            kw = rng.choice(["allOf", "anyOf", "oneOf"])
            s[kw] = [None, None]
            for i in range(2):
                sub(s[kw], i, path + [kw, str(i)], depth - 1)
        elif form == "addl":
            s["type"] = "object"
            sub(s, "additionalProperties", path + ["additionalProperties"], depth - 1)
        elif form == "items":
            s["type"] = "array"
            sub(s, "items", path + ["items"], depth - 1)
        elif form == "not":
            sub(s, "not", path + ["not"], depth - 1)
        elif form == "ifthen":
            sub(s, "if", path + ["if"], depth - 1)
            kw = rng.choice(["then", "else"])
            sub(s, kw, path + [kw], 0)
        elif form == "contains":
            s["type"] = "array"
            sub(s, "contains", path + ["contains"], depth - 1)
        elif form == "defs":
            s["$defs"] = {}
            sub(s["$defs"], "d", path + ["$defs", "d"], depth - 1)
            sub(s, "not", path + ["not"], 0)
        else:
            s["patternProperties"] = {}
            sub(s["patternProperties"], "^x", path + ["patternProperties", "^x"], depth - 1)
            sub(s, "additionalProperties", path + ["additionalProperties"], 0)
        return s

    def related(a, b):
        n = min(len(a), len(b))
        return a[:n] == b[:n]

    for _ in range(50):
        pos.clear()
        root = tree([], rng.choice([2, 2, 3]))
        if not isinstance(root, dict) or len(pos) < 2:
            continue
        share, gone = [], []
        for _ in range(rng.choice([1, 1, 1, 2])):
            live = [p for p in pos if not any(p[0][:len(g)] == g for g in gone)]
            # b outside a (no cycle, no self-reference) and unrelated to the positions of an earlier pair (they stay what they are)
            pairs = [(a, b) for a in live for b in live if not related(a[0], b[0])
                     and not any(related(b[0], q) for pr in share for q in pr)]
            if not pairs:
                break
            a, b = rng.choice(pairs)
            b[1][b[2]] = copy.deepcopy(a[1][a[2]])
            share.append((a[0], b[0]))
            gone.append(b[0])
        if share:
            return _to_obj(root), [["/" + "/".join(x), "/" + "/".join(y)] for x, y in share]
    return Obj([("type", "object"), ("properties", Obj([("Lo", Obj([("type", "number")])), ("Hi", Obj([("type", "number")]))]))]), [["/properties/Lo", "/properties/Hi"]]


def gen(rng, tier, n):
    raw = []
    while len(raw) < n:
        used = set()
        t = gt.gen_type(rng, rng.choice([1, 2, 3, 4 if tier == "thorough" else 3]), used, allow_rec=0.06, allow_bad=0.06)
        opts = {"ignore": rng.random() < 0.3}
        pre = []
        r = rng.random()
        if r < 0.15:
            nm = rng.choice(["Inner", "MyInt", "time.Time", "Twice"] + gt.GEN["names"][:6])
            opts["typeSchemas"] = [{"name": nm, "schema": rng.choice(TS_POOL)}]
            if rng.random() < 0.5:
                # make sure the overridden type occurs, preferably more than once
                t = rng.choice([{"k": "struct", "fields": [{"name": "P", "tag": 'json:"p"', "t": {"k": "named", "name": nm}},
                                                             {"name": "Q", "tag": 'json:"q"', "t": {"k": "slice", "e": {"k": "named", "name": nm}}}]},
                                {"k": "struct", "fields": [{"name": "R", "tag": 'json:"r"', "t": {"k": "ptr", "e": {"k": "named", "name": nm}}},
                                                             {"name": "P", "tag": 'json:"p"', "t": {"k": "named", "name": nm}},
                                                             {"name": "S", "tag": 'json:"s,omitempty"', "t": {"k": "slice", "e": {"k": "ptr", "e": {"k": "named", "name": nm}}}}]},
                                {"k": "map", "key": "string", "e": {"k": "named", "name": nm}}, {"k": "named", "name": "Twice"}])
        elif r < 0.18:
            # the declared two-level embedding of the bank: an override for the innermost (or the middle) embedded type
            # (also: the embedded type's NAME is unexported, the embedded field is tagged json:"-")
            outer, inners = rng.choice([("DocT", ["IDt", "BaseT"]), ("DocP", ["IDt", "BaseT"]), ("BaseT", ["IDt"]), ("TwoEmb", ["IDt", "Inner"]),
                                        ("TwoEmbDeep", ["IDt", "TwoEmb", "Inner"]), ("EmbedUnexported", ["unexportedInner"]),
                                        ("EmbedDash", ["Inner"]), ("EmbedVal", ["Inner"]), ("Shadow", ["Inner"])])
            t = {"k": "named", "name": outer}
            if rng.random() < 0.3:
                t = {"k": rng.choice(["slice", "ptr"]), "e": t}
            opts["typeSchemas"] = [{"name": rng.choice(inners), "schema": rng.choice(TS_EMBED_POOL)}]
        elif r < 0.3 and gt.GEN["embedding"]:
            # a TypeSchemas override for a type that is embedded (directly or two levels down) in the type under inference
            outer = rng.choice(sorted(gt.GEN["embedding"]))
            clos = gt.embeds_closure(outer)
            deep = [x for x in clos if x not in gt.GEN["embeds"].get(outer, [])]     # embedded two or more levels down
            if not deep:
                # look for an outer type that does have a two-level embedding
                for cand in rng.sample(sorted(gt.GEN["embedding"]), min(6, len(gt.GEN["embedding"]))):
                    cc = gt.embeds_closure(cand)
                    dd = [x for x in cc if x not in gt.GEN["embeds"].get(cand, [])]
                    if dd:
                        outer, clos, deep = cand, cc, dd
                        break
            inner = rng.choice(deep) if deep and rng.random() < 0.7 else rng.choice(clos)
            t = {"k": "named", "name": outer} if rng.random() < 0.7 else {"k": "slice", "e": {"k": "named", "name": outer}}
            used.add(outer)
            opts["typeSchemas"] = [{"name": inner, "schema": rng.choice(TS_EMBED_POOL)}]
        elif r < 0.4:
            # history: the same type was inferred earlier under other options (TypeSchemas, IgnoreInvalidTypes)
            nm = rng.choice(["Inner", "MyInt", "MyString", "time.Time"] + gt.GEN["names"][:6])
            pre = [{"type": t, "opts": {"ignore": rng.random() < 0.5, "typeSchemas": [{"name": nm, "schema": rng.choice(TS_POOL)}]}}]
        elif r < 0.48:
            # one declared type several times in one type, through different wrappers, in every order (what is learnt about a type at
            # its first occurrence must not colour the later ones)
            t = gt.repeated_named_case(rng, used, ["Inner", "Inner2", "Deep", "Empty", "MyInt", "MyInts", "Levels", "DescTag", "HoldsPtrs"] + gt.GEN["names"][:8])
        elif r < 0.53:
            # a TypeSchemas entry that is a DAG: one subschema object at several positions inside the entry (harness option `share`);
            # the overridden type occurs several times; the result must still be a tree that shares nothing with the entry
            nm = rng.choice(["Inner", "MyInt", "Twice", "Levels", "Empty", "MyString"] + gt.GEN["names"][:4])
            sch, share = dag_entry(rng)
            opts["typeSchemas"] = [{"name": nm, "schema": sch, "share": share}]
            N = {"k": "named", "name": nm}
            t = rng.choice([{"k": "struct", "fields": [{"name": "P", "tag": 'json:"p"', "t": N}, {"name": "Q", "tag": 'json:"q"', "t": {"k": "slice", "e": N}}]},
                            {"k": "struct", "fields": [{"name": "R", "tag": 'json:"r"', "t": {"k": "ptr", "e": N}}, {"name": "P", "tag": 'json:"p"', "t": N},
                                                         {"name": "Z", "tag": 'json:"z,omitempty"', "t": t}]},
                            {"k": "map", "key": "string", "e": N}, {"k": "struct", "fields": [{"name": "A", "tag": "", "t": N}]}, N])
        raw.append((t, opts, used, pre))
    # the structure of every type as reflect shows it (input of the model)
    tops = [{"id": i, "op": "typeinfo", "args": {"type": t}} for i, (t, _, _, _) in enumerate(raw)]
    names = sorted({ts["name"] for _, o, _, _ in raw for ts in o.get("typeSchemas", [])})
    nops = [{"id": len(tops) + i, "op": "typeinfo", "args": {"type": {"k": "named", "name": nm}}} for i, nm in enumerate(names)]
    info = core.eval_ops(tops + nops, core.CTX["vh"], "go", shards=4, env=core.GOENV)
    tname = {nm: info[len(tops) + i]["go"]["structure"].get("name") for i, nm in enumerate(names)}
    ops = []
    for i, (t, opts, used, pre) in enumerate(raw):
        st = info[i]["go"].get("structure")
        for ts in opts.get("typeSchemas", []):
            ts["tname"] = tname[ts["name"]]
        ops.append({"op": "infer", "args": dict({"type": t, "structure": st, "opts": opts}, **({"pre": pre} if pre else {})),
                    "meta": {"used": sorted(used), "nt": t["k"] in ("struct", "slice", "array", "map", "ptr", "named")}})
    return ops


nontrivial = c04.nontrivial


def judge(o, go, m):
    if go is None:
        return "violation:harness", "no answer"
    if go.get("outcome") == "harness-error":
        return "skip", go.get("detail")
    if go.get("outcome") in ("timeout", "panic", "crash"):
        return "violation", "ForType %s on %s" % (go.get("outcome"), go.get("gotype"))
    feats = set(go.get("features") or [])
    used = set((o.get("meta") or {}).get("used", []))
    opts = o["args"].get("opts") or {}
    k = c04.known_class(o, go)
    mo = (m or {}).get("model") or {}
    def _core(t):
        while t.get("k") in ("ptr", "slice", "array", "map"):
            t = t["e"]
        return t
    top = _core(o["args"]["type"])
    if top.get("k") == "named" and top.get("name") in gt.BANK_REC and go.get("outcome") == "ok" and not opts.get("typeSchemas"):
        return "violation", "a recursive type did not produce an error: %s" % go.get("gotype")
    if o["args"]["type"].get("k") in ("func", "chan", "complex128") or (o["args"]["type"].get("k") == "map" and o["args"]["type"].get("key") == "int"):
        if go.get("outcome") == "ok":
            return "violation", "an unsupported kind was accepted: %s -> %s" % (go.get("gotype"), go.get("schema"))
    if go.get("ts_untouched") is False:
        return "violation", "ForType(%s) modified the TypeSchemas it was given" % go.get("gotype")
    if go.get("history_free") is False:
        return "violation", "ForType(%s) with plain options gives another schema after earlier calls with other options (not a function of its arguments)" % go.get("gotype")
    if go.get("outcome") == "ok":
        if not go.get("determ"):
            return "violation", "two calls of ForType(%s) marshal differently" % go.get("gotype")
        if go.get("shared"):
            return "violation", "results of ForType(%s) share %d Schema object(s) with each other or with TypeSchemas" % (go.get("gotype"), go["shared"])
        if go.get("dag"):
            return "violation", "the result of ForType(%s) is not a tree: %d Schema object(s) occur at more than one position (TypeSchemas %s)" \
                                % (go.get("gotype"), go["dag"], [(x.get("name"), x.get("share")) for x in opts.get("typeSchemas", [])])
        if not go.get("resolves") and (not opts.get("typeSchemas") or "not form a tree" in str(go.get("resolve_detail"))):
            if k:
                return "known:" + k, str(go.get("resolve_detail"))
            return "violation", "Resolve refuses the schema inferred for %s: %s" % (go.get("gotype"), go.get("resolve_detail"))
        if go.get("full_keys") is not None and not (feats & {"string-option", "ptr-marshaler-by-value", "bigint", "unsupported", "badkey"}):
            never = set(go.get("never_emitted") or [])      # omitempty on [0]T: listed by For (optional), never emitted by encoding/json
            order, full = [x for x in (go.get("order") or []) if x not in never], go.get("full_keys") or []
            if never:
                go = dict(go, properties=[x for x in (go.get("properties") or []) if x not in never])
            bad = None
            if order != full:
                bad = "property order %r, encoding/json emits %r" % (order, full)
            elif sorted(order) != go.get("properties"):
                bad = "properties %r vs PropertyOrder %r" % (go.get("properties"), order)
            elif not set(go.get("required") or []) <= set(go.get("zero_keys") or []) or len(set(go.get("required") or [])) != len(go.get("required") or []):
                bad = "required %r, but the zero value is emitted with keys %r" % (go.get("required"), go.get("zero_keys"))
            if bad:
                if bad.startswith("required") and set(used) & gt.GEN["redeclared"] and order == full and sorted(order) == go.get("properties") \
                        and set(go.get("required") or []) <= set(go.get("zero_keys") or []):
                    return "known:D14", bad      # the duplicate entry in `required` of a redeclared JSON name: the listed symptom, nothing else
                if k:
                    return "known:" + k, bad
                return "violation", "%s: %s" % (go.get("gotype"), bad)
        if go.get("rest_keys") is not None and not (feats & {"string-option", "ptr-marshaler-by-value", "bigint", "unsupported", "badkey"}) and not k:
            order, rest = go.get("order") or [], go.get("rest_keys") or []
            if [x for x in order if x in rest] != rest or not set(rest) <= set(go.get("properties") or []):
                return "violation", "%s with a TypeSchemas override of an embedded type: properties %r (order %r) lose fields that are not promoted " \
                                    "through the overridden type: %r" % (go.get("gotype"), go.get("properties"), order, rest)
            if go.get("override_missing") or go.get("override_leaked"):
                return "violation", "%s: the TypeSchemas entry of an embedded type is not substituted: its properties %r are missing, the fields " \
                                    "it replaces %r are listed (properties %r)" % (go.get("gotype"), go.get("override_missing"),
                                                                                  go.get("override_leaked"), go.get("properties"))
    # correspondence with the model
    if mo.get("outcome") in (None, "unmodelled"):
        return "agree", ""
    gout = {"ok": "ok", "error": "error", "nil": "nil"}.get(go.get("outcome"))
    if gout != mo.get("outcome"):
        if k:
            return "known:" + k, ""
        return "violation", "ForType(%s): real package %s (%s), model %s" % (go.get("gotype"), go.get("outcome"), go.get("detail"), mo.get("outcome"))
    if gout == "ok" and not same_ordered(parse_ordered(go["schema"]), from_tagged(mo["value"])):
        if k:
            return "known:" + k, ""
        return "violation", "inferred schema for %s: real package %s, model %r" % (go.get("gotype"), go["schema"][:400], from_tagged(mo["value"]))
    return "agree", ""
