"""C07 — unevaluated* see exactly what adjacent and in-place keywords evaluated."""
import re

from .. import gen_schema as gs
from .. import suite, vjudge
from ..wire import Obj, Num

ID = "C07"
N_QUICK = 6000
N_THOROUGH = 150000
LEAN_MODULES = ["JSV.Props.C07"]
PREFILTER = vjudge.prefilter
RULE = ("schemas whose root carries unevaluatedProperties / unevaluatedItems next to any nesting (depth <= 4) of the in-place "
        "applicators allOf, anyOf, oneOf, not, if/then/else, dependentSchemas, $ref, $dynamicRef around properties, patternProperties, "
        "additionalProperties, prefixItems, items, contains and nested unevaluated*; instances: every subset of 4 names / arrays of "
        "0..4 items from a pool of 3 values, so that an extra property / item is the only possible cause of failure. The official "
        "unevaluated* cases run first. Also: deep evaluation (producers 25..45 single-branch in-place applications / $ref hops below the "
        "unevaluated* keyword; the closed recursive tree on chains of 10..22 nodes; 3 %) and dynamic extension points ($dynamicRef to a "
        "$dynamicAnchor overridden by 1..2 extension resources, each embedded or Loader-supplied, the override an anyOf / oneOf with "
        "overlapping branches; an extension resource is entered at its root or (35 %) by a JSON Pointer to an interior subschema that holds its "
        "hop — usually a bare $ref, sometimes with a title / $comment — so that the resource is on the dynamic scope through that subschema only; 6 %); "
        "anyOf / oneOf with overlapping `properties` branches reached only through dependentSchemas (behind 0..2 annotation-preserving wrappers) under "
        "unevaluatedProperties, trigger mostly present (5 %, and half of the dependentSchemas entries of the general generator); wide objects: 8..14 "
        "properties from a pool of 16 names, usually 9..13 distinct names evaluated by several properties / patternProperties contributors, some "
        "names evaluated repeatedly, zero to two names unevaluated (6 %). Non-trivial: >= 1 in-place applicator; distinct = operation text")
ITEMS = [Num("1"), "a", True]


def leaf_obj(rng):
    r = rng.random()
    if r < 0.4:
        ks = rng.sample(gs.NAMES, rng.randint(1, 2))
        return Obj([("properties", Obj([(k, rng.choice([True, True, Obj([("const", Num("1"))]), False])) for k in ks]))])
    if r < 0.55:
        return Obj([("patternProperties", Obj([(rng.choice(["^a", "^[ab]$", "c|d", "."]), rng.choice([True, Obj([("type", "number")])]))]))])
    if r < 0.65:
        return Obj([("additionalProperties", rng.choice([True, Obj([("type", "number")])]))])
    if r < 0.75:
        return Obj([("required", rng.sample(gs.NAMES, 1))])
    if r < 0.85:
        return Obj([("unevaluatedProperties", rng.choice([True, False, Obj([("type", "string")])]))])
    return rng.choice([True, True, False])


def leaf_arr(rng):
    r = rng.random()
    if r < 0.35:
        return Obj([("prefixItems", [rng.choice([True, Obj([("const", Num("1"))]), Obj([("type", "string")])]) for _ in range(rng.randint(1, 3))])])
    if r < 0.5:
        return Obj([("items", rng.choice([True, Obj([("type", "number")]), False]))])
    if r < 0.7:
        o = Obj([("contains", rng.choice([Obj([("const", "a")]), Obj([("type", "number")]), Obj([("const", True)]), True, Obj(), Obj([("title", "t")])]))])
        if rng.random() < 0.3:
            o.set("minContains", Num(str(rng.randint(0, 2))))
        if rng.random() < 0.2:
            o.set("maxContains", Num(str(rng.randint(1, 3))))
        return o
    if r < 0.8:
        return Obj([("unevaluatedItems", rng.choice([True, False, Obj([("type", "string")])]))])
    if r < 0.9:
        return Obj([("minItems", Num(str(rng.randint(0, 3))))])
    return rng.choice([True, True, False])


def inplace(rng, depth, kind, defs):
    leaf = leaf_obj if kind == "obj" else leaf_arr
    if depth <= 0 or rng.random() < 0.3:
        return leaf(rng)
    r = rng.random()
    sub = lambda: inplace(rng, depth - 1, kind, defs)
    if r < 0.2:
        return Obj([("allOf", [sub() for _ in range(rng.randint(1, 3))])])
    if r < 0.4:
        return Obj([("anyOf", [sub() for _ in range(rng.randint(1, 3))])])
    if r < 0.52:
        return Obj([("oneOf", [sub() for _ in range(rng.randint(1, 3))])])
    if r < 0.6:
        return Obj([("not", sub())])
    if r < 0.75:
        o = Obj([("if", sub())])
        if rng.random() < 0.8:
            o.set("then", sub())
        if rng.random() < 0.6:
            o.set("else", sub())
        return o
    if r < 0.83 and kind == "obj":
        if rng.random() < 0.5:
            # an anyOf / oneOf of overlapping `properties` branches reached only through dependentSchemas (possibly one allOf further down)
            return Obj([("dependentSchemas", Obj([(rng.choice(gs.NAMES), _overlap(rng, defs))]))])
        return Obj([("dependentSchemas", Obj([(rng.choice(gs.NAMES), sub())]))])
    if r < 0.93:
        body = sub()
        name = "d%d" % len(defs)
        defs.append((name, body))
        return Obj([("$ref", "#/$defs/" + name)])
    # a combination of a leaf with an applicator in one schema object
    a, b = leaf(rng), sub()
    if isinstance(a, Obj) and isinstance(b, Obj):
        return Obj(a.kvs + [kv for kv in b.kvs if kv[0] not in a.keys()])
    return b


def _prop_branch(rng, names=None):
    """A branch that succeeds on most objects and evaluates a few names."""
    names = names or gs.NAMES
    r = rng.random()
    if r < 0.75:
        ks = rng.sample(names, rng.randint(1, min(3, len(names))))
        return Obj([("properties", Obj([(k, rng.choice([True, True, True, True, Obj([("const", Num("1"))]), Obj([("type", ["number", "string"])])])) for k in ks]))])
    if r < 0.9:
        return Obj([("patternProperties", Obj([(rng.choice(["^a", "^[ab]", "c|d", "^[^a]"]), True)]))])
    return leaf_obj(rng)


def _overlap(rng, defs):
    """anyOf / oneOf whose branches overlap (a LATER successful branch is the only one evaluating some name), behind 0..2 in-place
    wrappers that hand annotations on."""
    K = rng.choice(["anyOf", "anyOf", "anyOf", "oneOf"])
    s = Obj([(K, [_prop_branch(rng) for _ in range(rng.randint(2, 3))])])
    if rng.random() < 0.2:
        s.set("properties", Obj([(rng.choice(gs.NAMES), True)]))
    for _ in range(rng.choice([0, 0, 1, 1, 2])):
        s = keep(rng, s, defs)
    return s


def dep_case(rng):
    """In-place applicators reached ONLY through dependentSchemas below an enclosing unevaluatedProperties: the entry of a trigger name
    holds (behind 0..2 annotation-preserving wrappers) an anyOf / oneOf of overlapping `properties` branches; the trigger is usually
    present in the instance and evaluated by an adjacent `properties`; the dependentSchemas keyword sits in the unevaluated* schema itself
    or one in-place application below it. No Loader documents, no dynamic references."""
    defs = []
    trig = rng.choice(gs.NAMES)
    entries = [(trig, _overlap(rng, defs))]
    if rng.random() < 0.25:
        t2 = rng.choice([n for n in gs.NAMES if n != trig])
        entries.append((t2, rng.choice([_overlap(rng, defs), _prop_branch(rng), True])))
        rng.shuffle(entries)
    dep = Obj([("dependentSchemas", Obj(entries))])
    if rng.random() < 0.75:
        dep.set("properties", Obj([(trig, True)]))
    if rng.random() < 0.35:
        dep = keep(rng, dep, defs)
    root = Obj(list(dep.kvs))
    root.set("unevaluatedProperties", rng.choice([False, False, False, Obj([("type", "string")]), Obj([("const", "a")])]))
    if defs:
        root.set("$defs", Obj(defs))
    insts = []
    for _ in range(8):
        ks = [k for k in gs.NAMES if k == trig and rng.random() < 0.8 or k != trig and rng.random() < 0.5]
        rng.shuffle(ks)
        insts.append(Obj([(k, rng.choice([Num("1"), Num("1"), "a", None])) for k in ks]))
    insts.append(rng.choice([Num("1"), "a", None]))
    return {"op": "validate", "args": {"schema": root, "insts": insts}, "meta": {"kw": gs.count_keywords(root), "kind7": "obj", "dep": True}}


WIDE = [x + y for x in "abcd" for y in "1234"]
WIDE_PATS = ["^a", "^b", "^[cd]", "1$", "[12]$", "^a[34]$", "^d"]


def wide_case(rng):
    """WIDE objects: instances with 8..14 properties from a pool of 16 names against schemas in which many (usually 9 or more) distinct
    names are evaluated by several contributors — `properties` / `patternProperties` in allOf / anyOf / $ref / dependentSchemas branches
    and in the root, names evaluated twice or more by different contributors — under unevaluatedProperties false / a schema; instances
    hold all, all but one or two, or a random part of the evaluated names plus zero to two names nobody evaluates."""
    defs = []
    parts, union = [], set()

    def contributor():
        if rng.random() < 0.8:
            ks = rng.sample(WIDE, rng.randint(2, 6))
            union.update(ks)
            return Obj([("properties", Obj([(k, rng.choice([True] * 6 + [Obj([("type", ["number", "string", "null"])])])) for k in ks]))])
        pat = rng.choice(WIDE_PATS)
        union.update(k for k in WIDE if re.search(pat, k))
        return Obj([("patternProperties", Obj([(pat, True)]))])

    target = rng.choice([6, 9, 9, 10, 11, 12, 13])
    while len(union) < target and len(parts) < 8:
        c = contributor()
        r = rng.random()
        if r < 0.15:
            c = keep(rng, c, defs)
        elif r < 0.25:
            c = Obj([("anyOf", [c, contributor()])])
        elif r < 0.3:
            c = Obj([("dependentSchemas", Obj([(rng.choice(WIDE), c)]))])
        parts.append(c)
    # names evaluated once more by a later contributor
    for _ in range(rng.choice([0, 1, 1, 2])):
        if union:
            ks = rng.sample(sorted(union), min(len(union), rng.randint(1, 4)))
            parts.append(Obj([("properties", Obj([(k, True) for k in ks]))]))
    root = Obj([(rng.choice(["allOf", "allOf", "allOf", "anyOf"]), parts)])
    if rng.random() < 0.5 and union:
        ks = rng.sample(sorted(union), min(len(union), rng.randint(1, 5))) + rng.sample(WIDE, rng.randint(0, 2))
        ks = list(dict.fromkeys(ks))
        union.update(ks)
        root.set("properties", Obj([(k, True) for k in ks]))
    root.set("unevaluatedProperties", rng.choice([False, False, False, Obj([("type", "string")]), Obj([("const", "a")])]))
    if defs:
        root.set("$defs", Obj(defs))
    ev, un = sorted(union), [k for k in WIDE if k not in union]
    insts = []
    for _ in range(7):
        if rng.random() < 0.7:
            ks = rng.sample(ev, max(0, len(ev) - rng.choice([0, 0, 1, 2, 3]))) + rng.sample(un, min(len(un), rng.choice([0, 1, 1, 2])))
        else:
            ks = rng.sample(WIDE, rng.randint(8, 14))
        rng.shuffle(ks)
        insts.append(Obj([(k, rng.choice([Num("1"), Num("1"), "a", None])) for k in ks]))
    return {"op": "validate", "args": {"schema": root, "insts": insts},
            "meta": {"kw": gs.count_keywords(root), "kind7": "obj", "wide": len(union)}}


def long_case(rng):
    """Several successful in-place contributors of `contains` annotations on arrays longer than a machine word, each matching in
    another region of the array (only below index 64 / only from 64 on / both), in every order."""
    vals = list(ITEMS)
    rng.shuffle(vals)
    cs = [Obj([("contains", Obj([("const", v)]))]) for v in vals[:rng.choice([2, 2, 3])]]
    for c in cs:
        if rng.random() < 0.2:
            c.set("minContains", Num("0"))
    K = rng.choice(["allOf", "allOf", "anyOf"])
    root = Obj([(K, cs), ("unevaluatedItems", rng.choice([False, False, Obj([("type", "boolean")])]))])
    if rng.random() < 0.3:
        root = Obj([("$ref", "#/$defs/r"), ("unevaluatedItems", root.get("unevaluatedItems")), ("$defs", Obj([("r", Obj([(K, cs)]))]))])
    if rng.random() < 0.3:
        root.set("prefixItems", [True] * rng.choice([1, 2, 63, 64]))
    insts = []
    for _ in range(6):
        n = rng.choice([64, 65, 65, 66, 70, 128, 129])
        regions = [rng.choice(["low", "high", "both", "none"]) for _ in vals]
        arr = []
        for i in range(n):
            ok = [v for v, rg in zip(vals, regions) if rg == "both" or (rg == "low" and i < 64) or (rg == "high" and i >= 64)]
            arr.append(rng.choice(ok) if ok else vals[0])
        insts.append(arr)
    return {"op": "validate", "args": {"schema": root, "insts": insts}, "meta": {"kw": 4, "kind7": "arr", "long": True}}


def _insts(rng, kind, n=8):
    insts = []
    for _ in range(n):
        if kind == "obj":
            ks = rng.sample(gs.NAMES, rng.randint(0, 4))
            insts.append(Obj([(k, rng.choice([Num("1"), "a", None])) for k in ks]))
        else:
            insts.append([rng.choice(ITEMS) for _ in range(rng.randint(0, 4))])
    insts.append(rng.choice([Num("1"), "a", None]))
    return insts


def keep(rng, sch, defs):
    """sch behind ONE in-place application that hands all annotations of sch on (verdict and evaluated sets unchanged)."""
    r = rng.random()
    if r < 0.55:
        return Obj([("allOf", [sch])])
    if r < 0.63:
        return Obj([("allOf", [True, sch])])
    if r < 0.71:
        return Obj([("anyOf", [sch])])
    if r < 0.77:
        return Obj([("oneOf", [sch])])
    if r < 0.84:
        return Obj([("if", True), ("then", sch)])
    if r < 0.9:
        return Obj([("if", False), ("else", sch)])
    name = "k%d" % len(defs)
    defs.append((name, sch))
    return Obj([("$ref", "#/$defs/" + name)])


def deep_case(rng):
    """DEEP evaluation at one instance location: the annotation producers sit 25..45 in-place applications below the unevaluated*
    keyword that must see them — (nest) a tower of single-branch allOf / anyOf / oneOf / if-then / $ref wrappers, with a second
    producer half-way up; (chain) a chain of 30..45 $defs entries each a $ref to the next; (tree) the closed recursive tree node
    {allOf:[$ref base], properties:{child: $ref node}, unevaluatedProperties:false} (or its array twin) on a chain of 10..22 nested nodes,
    where instance nesting and schema nesting add up. Width stays 1, so the cost is linear in the depth."""
    shape = rng.choice(["nest", "nest", "chain", "tree", "tree"])
    kind = "obj" if rng.random() < 0.55 else "arr"
    kw = "unevaluatedProperties" if kind == "obj" else "unevaluatedItems"
    uv = rng.choice([False, False, False, Obj([("type", "string")]), Obj([("const", "a")])])
    leaf = leaf_obj if kind == "obj" else leaf_arr
    defs = []

    def producer():
        for _ in range(5):
            p = leaf(rng)
            if isinstance(p, Obj) and p.get(kw) is None:
                return p
        return Obj([("properties", Obj([("a", True)]))]) if kind == "obj" else Obj([("prefixItems", [True])])

    if shape == "nest":
        depth = rng.randint(25, 45)
        mid = rng.randint(1, depth - 1)
        s = producer()
        for lv in range(depth):
            s = keep(rng, s, defs)
            if lv == mid and isinstance(s, Obj):
                # a second producer part-way up, in the same schema object as the wrapper
                s = Obj(s.kvs + [kv for kv in producer().kvs if kv[0] not in s.keys()])
        root = Obj(list(s.kvs))
        root.set(kw, uv)
        if defs:
            root.set("$defs", Obj(defs))
        return {"op": "validate", "args": {"schema": root, "insts": _insts(rng, kind)},
                "meta": {"kw": 4, "kind7": kind, "deep": shape, "depth": depth}}
    if shape == "chain":
        n = rng.randint(30, 45)
        extra = rng.randint(1, n - 1)
        for i in range(n):
            d = Obj([("$ref", "#/$defs/d%d" % (i + 1))])
            if i == extra:
                d = Obj(d.kvs + [kv for kv in producer().kvs])
            defs.append(("d%d" % i, d))
        defs.append(("d%d" % n, producer()))
        rng.shuffle(defs)
        root = Obj([("$ref", "#/$defs/d0"), (kw, uv), ("$defs", Obj(defs))])
        if rng.random() < 0.3:
            root = Obj([("allOf", [Obj([("$ref", "#/$defs/d0")])]), (kw, uv), ("$defs", Obj(defs))])
        return {"op": "validate", "args": {"schema": root, "insts": _insts(rng, kind)},
                "meta": {"kw": 4, "kind7": kind, "deep": shape, "depth": n}}
    # tree
    base_ref = Obj([("$ref", "#/$defs/base")])
    via = rng.choice([Obj([("allOf", [base_ref])]), Obj([("allOf", [base_ref])]), base_ref, Obj([("anyOf", [base_ref])]),
                      Obj([("allOf", [Obj([("allOf", [base_ref])])])])])
    if kind == "obj":
        base = Obj([("properties", Obj([("name", Obj([("type", "string")]))]))])
        node = Obj(via.kvs + [("properties", Obj([("child", Obj([("$ref", "#/$defs/node")]))])), (kw, False)])

        def mk(depth, bad):
            t = None
            for i in range(depth):
                nd = Obj([("name", "n")])
                if i == bad:
                    nd.kvs.append(("zz", Num("1")))
                if t is not None:
                    nd.kvs.append(("child", t))
                t = nd
            return t
    else:
        base = Obj([("prefixItems", [Obj([("type", "string")])])])
        node = Obj(via.kvs + [("items", Obj([("$ref", "#/$defs/node")])), (kw, False)])
        if rng.random() < 0.5:
            # the child is evaluated by the base too: nothing is left to items
            base = Obj([("prefixItems", [Obj([("type", "string")]), Obj([("$ref", "#/$defs/node")])])])
            node = Obj(via.kvs + [(kw, False)])

        def mk(depth, bad):
            t = None
            for i in range(depth):
                nd = ["n"]
                if t is not None:
                    nd.append(t)
                if i == bad:
                    if t is None:
                        nd.append(["n"])
                    nd.append(Num("1"))
                t = nd
            return t
    root = Obj([("$ref", "#/$defs/node"), ("$defs", Obj([("base", base), ("node", node)]))])
    insts = []
    for _ in range(4):
        d = rng.randint(10, 22)
        insts.append(mk(d, -1))
        if rng.random() < 0.5:
            insts.append(mk(d, rng.randrange(d)))
    return {"op": "validate", "args": {"schema": root, "insts": insts}, "meta": {"kw": 4, "kind7": kind, "deep": shape}}


U = "http://x.test/u/"


def ext_case(rng, tier):
    """A dynamic EXTENSION POINT across resources: a base resource B applies {"$dynamicRef": "#ext"} in place (its own $defs/ext is the
    default), one or two extension resources E1 (E2) each `$ref` the next one in place and override $defs/ext with a body of in-place
    applicators (biased to anyOf / oneOf whose branches overlap, so that a LATER matching branch is the only one evaluating some
    property / item); unevaluated* encloses the whole thing from B, from an extension or from the root. Every resource is embedded in the
    root document or supplied by the Loader (the outer k of the chain embedded, the rest Loader documents; B possibly embedded in E1's
    document; the outermost extension possibly the root document itself) — a Loader document only refers to Loader documents."""
    kind = "obj" if rng.random() < 0.6 else "arr"
    kw = "unevaluatedProperties" if kind == "obj" else "unevaluatedItems"
    leaf = leaf_obj if kind == "obj" else leaf_arr
    uv = rng.choice([False, False, False, Obj([("type", "string")]), Obj([("const", "a")])])
    n_ext = rng.choice([1, 1, 2])
    depth = rng.choice([1, 1, 2, 3 if tier == "thorough" else 2])

    def anchored(body, dyn=True):
        if not isinstance(body, Obj):
            body = Obj([("allOf", [body])])
        return Obj([("$dynamicAnchor" if dyn else "$anchor", "ext")] + [kv for kv in body.kvs if kv[0] not in ("$dynamicAnchor", "$anchor")])

    def ext_body(defs):
        r = rng.random()
        if r < 0.55:
            return Obj([("anyOf", [inplace(rng, rng.choice([0, 0, depth - 1]), kind, defs) for _ in range(rng.randint(2, 3))])])
        if r < 0.65:
            return Obj([("oneOf", [inplace(rng, rng.choice([0, depth - 1]), kind, defs) for _ in range(rng.randint(2, 3))])])
        if r < 0.75:
            return Obj([("allOf", [Obj([("anyOf", [inplace(rng, 0, kind, defs) for _ in range(rng.randint(2, 3))])]), inplace(rng, depth - 1, kind, defs)])])
        return inplace(rng, depth, kind, defs)

    where = rng.choice(["B", "B", "top", "E", "root"])
    # chain[0] is the outermost extension, chain[-1] is B
    names = ["ext%d.json" % i for i in range(n_ext, 0, -1)] + ["base.json"]
    # an extension resource may be ENTERED IN THE MIDDLE: its hop to the next resource is not at its root but at $defs/hop, and whoever
    # refers to the resource does so by pointer (ext1.json#/$defs/hop). The resource root is then never evaluated: the resource is in the
    # dynamic scope only through that interior subschema — very often a bare {"$ref": ...} —, and its $defs/ext must still override
    mids = [nm != "base.json" and rng.random() < 0.35 for nm in names]

    def enter(i):
        return U + names[i] + ("#/$defs/hop" if mids[i] else "")

    bodies = []
    for i, nm in enumerate(names):
        defs = []
        if nm == "base.json":
            d = Obj([("$dynamicRef", rng.choice(["#ext", "#ext", "#ext", U + nm + "#ext"]))])
            for _ in range(rng.choice([0, 0, 1, 2])):
                d = keep(rng, d, defs)
            b = Obj(list(d.kvs))
            ext = anchored(rng.choice([leaf(rng), leaf(rng), True, Obj()]), dyn=rng.random() < 0.9)
        else:
            hop = Obj([("$ref", enter(i + 1))])
            if mids[i] and rng.random() < 0.3:
                hop.set(rng.choice(["title", "description", "$comment"]), "t")
            for _ in range(rng.choice([0, 0, 1])):
                hop = keep(rng, hop, defs)
            b = Obj(list(hop.kvs))
            ext = anchored(ext_body(defs), dyn=rng.random() < 0.9)
        if (where == "B" and nm == "base.json") or (where == "top" and i == 0) or (where == "E" and i == len(names) - 2):
            b.set(kw, uv)
        if mids[i]:
            defs = [("hop", b)] + defs
            b = Obj()
        b.set("$defs", Obj([("ext", ext)] + defs))
        bodies.append(b)
    root_is_top = where != "root" and rng.random() < 0.25 and not mids[0]
    # the first `cut` resources of the chain live in the root document, the others are Loader documents
    lo = 1 if root_is_top else 0
    cut = lo if rng.random() < 0.5 else rng.randint(lo, len(names))
    docs, embedded = [], []
    b_in_e1 = cut <= len(names) - 2 and rng.random() < 0.2
    for i, (nm, b) in enumerate(zip(names, bodies)):
        if i == 0 and root_is_top:
            continue
        if i < cut or (b_in_e1 and nm == "base.json"):
            embedded.append((i, Obj([("$id", U + nm)] + b.kvs)))
        else:
            docs.append([U + nm, Obj(([("$id", U + nm)] if rng.random() < 0.5 else []) + b.kvs)])
    if root_is_top:
        root = bodies[0]
    else:
        top = Obj([("$ref", enter(0))])
        root = Obj(list((top if rng.random() < 0.6 else Obj([("allOf", [top])])).kvs))
        if where == "root" or rng.random() < 0.1:
            root.set(kw, uv)
    for i, eb in embedded:
        host = root
        if i >= cut:
            # B inside the Loader document of E1
            host = [dd[1] for dd in docs if dd[0] == U + names[-2]][0]
        hd = host.get("$defs") or Obj()
        hd.kvs.append(("r_" + names[i].split(".")[0], eb))
        host.set("$defs", hd)
    rng.shuffle(docs)
    return {"op": "validate", "args": {"schema": root, "docs": docs, "insts": _insts(rng, kind), "loader": True},
            "meta": {"kw": 4 + sum(gs.count_keywords(b) for b in bodies), "kind7": kind, "ext": True, "cut": cut, "n_ext": n_ext,
                     "where": where, "remote": bool(docs), "mids": sum(mids)}}


def gen_case(rng, tier):
    r0 = rng.random()
    if r0 < 0.05:
        return long_case(rng)
    if r0 < 0.08:
        return deep_case(rng)
    if r0 < 0.14:
        return ext_case(rng, tier)
    if r0 < 0.19:
        return dep_case(rng)
    if r0 < 0.25:
        return wide_case(rng)
    kind = "obj" if rng.random() < 0.55 else "arr"
    defs = []
    depth = rng.choice([1, 2, 3, 4 if tier == "thorough" else 3])
    body = inplace(rng, depth, kind, defs)
    if not isinstance(body, Obj):
        body = Obj([("allOf", [body])])
    root = Obj(list(body.kvs))
    kw = "unevaluatedProperties" if kind == "obj" else "unevaluatedItems"
    if root.get(kw) is None:
        root.set(kw, rng.choice([False, False, Obj([("type", "string")]), Obj([("const", "a")]), True]))
    if rng.random() < 0.15:
        # the recursive "tree" shape of the official suite: a dynamic extension point
        root.set("$dynamicAnchor", "node")
        defs.append(("rec", Obj([("$dynamicRef", "#node")])))
    if defs:
        root.set("$defs", Obj(defs))
    insts = []
    if kind == "obj":
        for _ in range(8):
            ks = rng.sample(gs.NAMES, rng.randint(0, 4))
            insts.append(Obj([(k, rng.choice([Num("1"), "a", None])) for k in ks]))
    else:
        for _ in range(8):
            insts.append([rng.choice(ITEMS) for _ in range(rng.randint(0, 4))])
    insts.append(rng.choice([Num("1"), "a", None]))
    if kind == "arr" and rng.random() < 0.25:
        # long arrays (machine-word sized index sets end at 64): one value only below index 64, another only from 64 on
        for _ in range(3):
            lo, hi, fill = rng.sample(ITEMS, 3)
            if rng.random() < 0.5:
                fill = lo if rng.random() < 0.5 else hi
            n = rng.choice([64, 65, 66, 70, 129])
            insts.append([rng.choice([lo, fill, fill]) for _ in range(min(n, 64))] + [rng.choice([hi, fill]) for _ in range(max(0, n - 64))])
    r = rng.random()
    if r < 0.12:
        # the whole case lives in a Loader document; the root only refers to it (annotations and unevaluated* cross the document border)
        uri = "http://x.test/u/closed.json"
        top = Obj([("$ref", uri)]) if rng.random() < 0.6 else Obj([("allOf", [Obj([("$ref", uri)])]), ("title", "t")])
        return {"op": "validate", "args": {"schema": top, "docs": [[uri, root]], "insts": insts, "loader": True},
                "meta": {"kw": gs.count_keywords(root), "kind7": kind, "remote": True}}
    if r < 0.2 and root.get(kw) is not None:
        # unevaluated* stays in the root; everything it has to see comes from a Loader document
        uri = "http://x.test/u/part.json"
        rest = Obj([kv for kv in root.kvs if kv[0] not in (kw, "$defs", "$dynamicAnchor")] + ([("$defs", root.get("$defs"))] if root.get("$defs") is not None else []))
        if not any(isinstance(v, str) and v.startswith("#") for _, v in _walk(rest)):
            top = Obj([("$ref", uri), (kw, root.get(kw))])
            return {"op": "validate", "args": {"schema": top, "docs": [[uri, rest]], "insts": insts, "loader": True},
                    "meta": {"kw": gs.count_keywords(root), "kind7": kind, "remote": True}}
    return {"op": "validate", "args": {"schema": root, "insts": insts}, "meta": {"kw": gs.count_keywords(root), "kind7": kind}}


def _walk(v):
    if isinstance(v, Obj):
        for k, x in v.kvs:
            yield k, x
            yield from _walk(x)
    elif isinstance(v, list):
        for x in v:
            yield from _walk(x)


def gen(rng, tier, n):
    ops = [o for o in suite.suite_ops("draft2020-12") if "unevaluated" in o["meta"]["suite"]]
    while len(ops) < n:
        ops.append(gen_case(rng, tier))
    return ops


def nontrivial(o):
    me = o.get("meta") or {}
    return me.get("kind") == "suite" or me.get("kw", 0) >= 3


def judge(o, go, m):
    return vjudge.judge_validate(o, go, m)
