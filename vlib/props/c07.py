"""C07 — unevaluated* see exactly what adjacent and in-place keywords evaluated."""
from .. import gen_schema as gs
from .. import suite, vjudge
from ..wire import Obj, Num

ID = "C07"
N_QUICK = 6000
N_THOROUGH = 150000
LEAN_MODULES = ["JSV.Props.C07"]
PREFILTER = vjudge.prefilter
RULE = ("schemas whose root carries unevaluatedProperties / unevaluatedItems next to any nesting (depth <= 4) of the in-place "
        "applicators allOf, anyOf, oneOf, not, if/then/else, dependentSchemas, $ref, $dynamicRef around properties, patternProperties, "
        "additionalProperties, prefixItems, items, contains and nested unevaluated*; instances: every subset of 4 names / arrays of "
        "0..4 items from a pool of 3 values, so that an extra property / item is the only possible cause of failure. The official "
        "unevaluated* cases run first. Non-trivial: >= 1 in-place applicator; distinct = operation text")
ITEMS = [Num("1"), "a", True]


def leaf_obj(rng):
    r = rng.random()
    if r < 0.4:
        ks = rng.sample(gs.NAMES, rng.randint(1, 2))
        return Obj([("properties", Obj([(k, rng.choice([True, True, Obj([("const", Num("1"))]), False])) for k in ks]))])
    if r < 0.55:
        return Obj([("patternProperties", Obj([(rng.choice(["^a", "^[ab]$", "c|d", "."]), rng.choice([True, Obj([("type", "number")])]))]))])
    if r < 0.65:
        return Obj([("additionalProperties", rng.choice([True, Obj([("type", "number")])]))])
    if r < 0.75:
        return Obj([("required", rng.sample(gs.NAMES, 1))])
    if r < 0.85:
        return Obj([("unevaluatedProperties", rng.choice([True, False, Obj([("type", "string")])]))])
    return rng.choice([True, True, False])


def leaf_arr(rng):
    r = rng.random()
    if r < 0.35:
        return Obj([("prefixItems", [rng.choice([True, Obj([("const", Num("1"))]), Obj([("type", "string")])]) for _ in range(rng.randint(1, 3))])])
    if r < 0.5:
        return Obj([("items", rng.choice([True, Obj([("type", "number")]), False]))])
    if r < 0.7:
        o = Obj([("contains", rng.choice([Obj([("const", "a")]), Obj([("type", "number")]), Obj([("const", True)]), True, Obj(), Obj([("title", "t")])]))])
        if rng.random() < 0.3:
            o.set("minContains", Num(str(rng.randint(0, 2))))
        if rng.random() < 0.2:
            o.set("maxContains", Num(str(rng.randint(1, 3))))
        return o
    if r < 0.8:
        return Obj([("unevaluatedItems", rng.choice([True, False, Obj([("type", "string")])]))])
    if r < 0.9:
        return Obj([("minItems", Num(str(rng.randint(0, 3))))])
    return rng.choice([True, True, False])


def inplace(rng, depth, kind, defs):
    leaf = leaf_obj if kind == "obj" else leaf_arr
    if depth <= 0 or rng.random() < 0.3:
        return leaf(rng)
    r = rng.random()
    sub = lambda: inplace(rng, depth - 1, kind, defs)
    if r < 0.2:
        return Obj([("allOf", [sub() for _ in range(rng.randint(1, 3))])])
    if r < 0.4:
        return Obj([("anyOf", [sub() for _ in range(rng.randint(1, 3))])])
    if r < 0.52:
        return Obj([("oneOf", [sub() for _ in range(rng.randint(1, 3))])])
    if r < 0.6:
        return Obj([("not", sub())])
    if r < 0.75:
        o = Obj([("if", sub())])
        if rng.random() < 0.8:
            o.set("then", sub())
        if rng.random() < 0.6:
            o.set("else", sub())
        return o
    if r < 0.83 and kind == "obj":
        return Obj([("dependentSchemas", Obj([(rng.choice(gs.NAMES), sub())]))])
    if r < 0.93:
        body = sub()
        name = "d%d" % len(defs)
        defs.append((name, body))
        return Obj([("$ref", "#/$defs/" + name)])
    # a combination of a leaf with an applicator in one schema object
    a, b = leaf(rng), sub()
    if isinstance(a, Obj) and isinstance(b, Obj):
        return Obj(a.kvs + [kv for kv in b.kvs if kv[0] not in a.keys()])
    return b


def long_case(rng):
    """Several successful in-place contributors of `contains` annotations on arrays longer than a machine word, each matching in
    another region of the array (only below index 64 / only from 64 on / both), in every order."""
    vals = list(ITEMS)
    rng.shuffle(vals)
    cs = [Obj([("contains", Obj([("const", v)]))]) for v in vals[:rng.choice([2, 2, 3])]]
    for c in cs:
        if rng.random() < 0.2:
            c.set("minContains", Num("0"))
    K = rng.choice(["allOf", "allOf", "anyOf"])
    root = Obj([(K, cs), ("unevaluatedItems", rng.choice([False, False, Obj([("type", "boolean")])]))])
    if rng.random() < 0.3:
        root = Obj([("$ref", "#/$defs/r"), ("unevaluatedItems", root.get("unevaluatedItems")), ("$defs", Obj([("r", Obj([(K, cs)]))]))])
    if rng.random() < 0.3:
        root.set("prefixItems", [True] * rng.choice([1, 2, 63, 64]))
    insts = []
    for _ in range(6):
        n = rng.choice([64, 65, 65, 66, 70, 128, 129])
        regions = [rng.choice(["low", "high", "both", "none"]) for _ in vals]
        arr = []
        for i in range(n):
            ok = [v for v, rg in zip(vals, regions) if rg == "both" or (rg == "low" and i < 64) or (rg == "high" and i >= 64)]
            arr.append(rng.choice(ok) if ok else vals[0])
        insts.append(arr)
    return {"op": "validate", "args": {"schema": root, "insts": insts}, "meta": {"kw": 4, "kind7": "arr", "long": True}}


def gen_case(rng, tier):
    if rng.random() < 0.05:
        return long_case(rng)
    kind = "obj" if rng.random() < 0.55 else "arr"
    defs = []
    depth = rng.choice([1, 2, 3, 4 if tier == "thorough" else 3])
    body = inplace(rng, depth, kind, defs)
    if not isinstance(body, Obj):
        body = Obj([("allOf", [body])])
    root = Obj(list(body.kvs))
    kw = "unevaluatedProperties" if kind == "obj" else "unevaluatedItems"
    if root.get(kw) is None:
        root.set(kw, rng.choice([False, False, Obj([("type", "string")]), Obj([("const", "a")]), True]))
    if rng.random() < 0.15:
        # the recursive "tree" shape of the official suite: a dynamic extension point
        root.set("$dynamicAnchor", "node")
        defs.append(("rec", Obj([("$dynamicRef", "#node")])))
    if defs:
        root.set("$defs", Obj(defs))
    insts = []
    if kind == "obj":
        for _ in range(8):
            ks = rng.sample(gs.NAMES, rng.randint(0, 4))
            insts.append(Obj([(k, rng.choice([Num("1"), "a", None])) for k in ks]))
    else:
        for _ in range(8):
            insts.append([rng.choice(ITEMS) for _ in range(rng.randint(0, 4))])
    insts.append(rng.choice([Num("1"), "a", None]))
    if kind == "arr" and rng.random() < 0.25:
        # long arrays (machine-word sized index sets end at 64): one value only below index 64, another only from 64 on
        for _ in range(3):
            lo, hi, fill = rng.sample(ITEMS, 3)
            if rng.random() < 0.5:
                fill = lo if rng.random() < 0.5 else hi
            n = rng.choice([64, 65, 66, 70, 129])
            insts.append([rng.choice([lo, fill, fill]) for _ in range(min(n, 64))] + [rng.choice([hi, fill]) for _ in range(max(0, n - 64))])
    r = rng.random()
    if r < 0.12:
        # the whole case lives in a Loader document; the root only refers to it (annotations and unevaluated* cross the document border)
        uri = "http://x.test/u/closed.json"
        top = Obj([("$ref", uri)]) if rng.random() < 0.6 else Obj([("allOf", [Obj([("$ref", uri)])]), ("title", "t")])
        return {"op": "validate", "args": {"schema": top, "docs": [[uri, root]], "insts": insts, "loader": True},
                "meta": {"kw": gs.count_keywords(root), "kind7": kind, "remote": True}}
    if r < 0.2 and root.get(kw) is not None:
        # unevaluated* stays in the root; everything it has to see comes from a Loader document
        uri = "http://x.test/u/part.json"
        rest = Obj([kv for kv in root.kvs if kv[0] not in (kw, "$defs", "$dynamicAnchor")] + ([("$defs", root.get("$defs"))] if root.get("$defs") is not None else []))
        if not any(isinstance(v, str) and v.startswith("#") for _, v in _walk(rest)):
            top = Obj([("$ref", uri), (kw, root.get(kw))])
            return {"op": "validate", "args": {"schema": top, "docs": [[uri, rest]], "insts": insts, "loader": True},
                    "meta": {"kw": gs.count_keywords(root), "kind7": kind, "remote": True}}
    return {"op": "validate", "args": {"schema": root, "insts": insts}, "meta": {"kw": gs.count_keywords(root), "kind7": kind}}


def _walk(v):
    if isinstance(v, Obj):
        for k, x in v.kvs:
            yield k, x
            yield from _walk(x)
    elif isinstance(v, list):
        for x in v:
            yield from _walk(x)


def gen(rng, tier, n):
    ops = [o for o in suite.suite_ops("draft2020-12") if "unevaluated" in o["meta"]["suite"]]
    while len(ops) < n:
        ops.append(gen_case(rng, tier))
    return ops


def nontrivial(o):
    me = o.get("meta") or {}
    return me.get("kind") == "suite" or me.get("kw", 0) >= 3


def judge(o, go, m):
    return vjudge.judge_validate(o, go, m)
