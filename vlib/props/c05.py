"""C05 — a schema survives a JSON round trip with its meaning intact."""
from .. import core
from .. import gen_schema as gs
from .. import gen_schemaval as gsv
from ..ordered import same_ordered
from ..wire import parse_ordered, from_tagged, canon, Obj, Num

ID = "C05"
N_QUICK = 5000
N_THOROUGH = 100000
LEAN_MODULES = ["JSV.Props.C05"]
RULE = ("(a) Schema values built by reflection over the real struct (the field table is fetched from the harness on every run): 1..5 "
        "randomly chosen fields per node populated in every way their Go type allows (nil, empty, null constant, nested to depth 2), "
        "honouring the documented exclusivity rules in 95% of nodes; (b) generated schema documents of both drafts. Observed on the "
        "real package directly: Marshal twice byte-equal; Unmarshal(Marshal(s)) marshals to the same JSON value (byte-identical when no "
        "PropertyOrder is set) and gives the same verdicts on 4 instances; and the marshaled bytes parse to the model's ordered value. "
        "Non-trivial: >= 3 populated fields or a union field; distinct = operation text")
RULE += (". Widened: (c) ~8% of the documents get, at a random subschema and a random place in its key order, a KNOWN keyword whose value has the "
         "wrong JSON type for the Go field (string for a list / number / boolean, number for a string, array for a map, …) together with 0..2 "
         "unknown keywords before or after it: Unmarshal must refuse exactly as the model does; (d) ~4% get an unknown keyword that is a "
         "letter-case variant of a string / boolean / number / string-list keyword absent from the object (class of D4): every key of an "
         "accepted document that is not exactly a keyword must come back from Marshal with its value (Extra), at every subschema reached "
         "through exact keywords — checked here against the statement, independent of the model; (e) ~6% of the Schema values have string "
         "slices (PropertyOrder, Required, Types, DependentRequired / DependencyStrings values, of one node or of two nodes) that are windows "
         "of ONE backing array (descriptor member `alias`), with properties PropertyOrder does not list: same bytes as without sharing, "
         "and the Schema value is left as it was; (f) ~12% of the Schema values of (a) with name lists (Required, DependentRequired / "
         "DependencyStrings values) that list a name twice or three times, adjacently or apart, as Go code that appends names produces them; "
         "(g) ~5% of the documents get 1-2 unknown keywords named like the Go side of the Schema struct "
         "(`-`, `Extra`, `ID`, `Types`, `ItemsArray`, `PropertyOrder`, … : no keyword, no case variant of one) at a random subschema, and the "
         "Extra maps of the Schema values draw such names too")
TRUSTED = ["encoding/json's byte-level formatting of strings and numbers (outputs are compared after parsing, order kept)"]
UNION = {"Type", "Types", "Items", "ItemsArray", "DependencySchemas", "DependencyStrings", "Const", "Properties", "Extra", "Default"}


_KW = {}


def keyword_table():
    """JSON keyword -> Go type of the Schema field (from the real field table), plus the shadowed union keywords."""
    if not _KW:
        for f in gsv.fetch_fields(core):
            t = f["tag"].split(",")[0]
            if t and t != "-":
                _KW[t] = f["type"]
        _KW.update({"type": "union:type", "items": "union:items", "dependencies": "union:dependencies",
                    "properties": "map[string]*jsonschema.Schema"})
    return _KW


def ill_typed_value(rng, gotype):
    """A JSON value whose JSON type the field cannot take (never null, which encoding/json skips)."""
    s, n, b = rng.choice(["name", "3", "", "true"]), Num(rng.choice(["3", "0", "1.5"])), rng.random() < 0.5
    arr, obj = [Num("1")], Obj([("a", Num("1"))])
    table = {
        "string": [n, b, arr, obj, []],
        "bool": [s, n, arr, obj],
        "*float64": [s, b, arr, obj],
        "*int": [s, b, arr, obj],
        "[]string": [s, n, obj, arr, [s, n], b],
        "[]interface {}": [s, n, obj, b],
        "map[string]bool": [arr, s, n, Obj([("https://v/1", Num("1"))]), Obj([("https://v/1", "true")]), []],
        "map[string][]string": [arr, s, Obj([("a", "b")]), Obj([("a", [Num("1")])]), b],
        "map[string]*jsonschema.Schema": [arr, s, n, [], Obj([("a", Num("1"))]), Obj([("a", "x")]), Obj([("a", [])])],
        "*jsonschema.Schema": [n, s, arr],
        "[]*jsonschema.Schema": [obj, s, n, arr, [s]],
        "union:type": [n, b, obj, [Num("1")], ["string", Num("1")]],
        "union:items": [n, s, [Num("1")]],
        "union:dependencies": [arr, s, n, Obj([("a", Num("1"))]), Obj([("a", "x")]), Obj([("a", [Num("1")])])],
    }
    c = table.get(gotype)
    return rng.choice(c) if c else None


UNKNOWN = ["x-internal", "x-foo", "foo", "$foo", "nullable", "discriminator", "example", "id", "divisibleBy", "minimun", "unk", "zz-last", "0first"]


def spoil(rng, doc):
    """One known keyword with a value of the wrong JSON type, and unknown keywords around it, at a random place of a random subschema."""
    from .c18 import positions, deep_copy
    d = deep_copy(doc)
    pos = []
    positions(d, pos)
    if not pos:
        return None
    o = rng.choice(pos)
    kw = keyword_table()
    k = rng.choice(sorted(kw))
    if k in o.keys() or k in ("$schema",):
        return None
    v = ill_typed_value(rng, kw[k])
    if v is None:
        return None
    o.kvs.insert(rng.randint(0, len(o.kvs)), (k, v))
    for _ in range(rng.choice([0, 1, 1, 1, 2])):
        u = rng.choice(UNKNOWN)
        if u not in o.keys():
            o.kvs.insert(rng.randint(0, len(o.kvs)), (u, gs.gen_value(rng, 1)))
    return d


FOLDABLE = {"string": lambda rng: rng.choice(["T", "", "email"]), "bool": lambda rng: rng.random() < 0.5,
            "*float64": lambda rng: Num(rng.choice(["5", "0", "-1", "2.5"])), "*int": lambda rng: Num(str(rng.randint(0, 3))),
            "[]string": lambda rng: rng.sample(gs.NAMES, rng.randint(0, 2))}


def case_variant(rng, doc):
    """An unknown keyword that differs from a string / boolean / number / string-list keyword (absent from that object) only in letter
    case, with a value that keyword could take: the class of D4. It is not a keyword, so it belongs to Extra and must be marshaled back."""
    from .c18 import positions, deep_copy
    d = deep_copy(doc)
    pos = []
    positions(d, pos)
    if not pos:
        return None
    o = rng.choice(pos)
    kw = keyword_table()
    k = rng.choice(sorted(x for x in kw if kw[x] in FOLDABLE and x.lstrip("$").isalpha() and x not in ("$schema", "$id", "$ref", "$dynamicRef", "$anchor", "$dynamicAnchor", "pattern")))
    var = rng.choice([k.capitalize(), k.upper(), k[0] + k[1:].swapcase(), k[:1].upper() + k[1:], k.title()])
    if var == k or any(x.lower() == k.lower() for x in o.keys()):
        return None
    o.kvs.insert(rng.randint(0, len(o.kvs)), (var, FOLDABLE[kw[k]](rng)))
    return d


# unknown keywords spelled like something of the GO side of Schema: names of fields that have no JSON key of their own (`json:"-"`: Extra,
# Types, ItemsArray, PropertyOrder, …), the tag text "-" itself, other Go field names whose letters do not fold onto a keyword. None of
# them is a keyword (nor a case variant of one: that is D4, see case_variant): they belong to Extra and come back from Marshal
GO_SIDE = ["-", "-", "-", "Extra", "ID", "Types", "ItemsArray", "PropertyOrder", "DependencySchemas", "DependencyStrings", "-,", "--",
           "Defs", "Vocabulary", "json", "omitempty"]


def go_side_unknown(rng, doc):
    """1-2 unknown keywords named like the Go side of the Schema struct (GO_SIDE) at a random place of a random subschema."""
    from .c18 import positions, deep_copy
    d = deep_copy(doc)
    pos = []
    positions(d, pos)
    if not pos:
        return None
    o = rng.choice(pos)
    kw = keyword_table()
    for _ in range(rng.choice([1, 1, 2])):
        u = rng.choice(GO_SIDE)
        if u in kw or any(x.lower() == u.lower() for x in o.keys()) or any(x.lower() == u.lower() for x in kw):
            continue
        o.kvs.insert(rng.randint(0, len(o.kvs)), (u, gs.gen_value(rng, 1)))
    return d


def alias_windows(rng, fields):
    """A Schema value whose []string fields are windows of one backing array (names[:1], names[:3], names[2:4] …), over a node with
    properties that PropertyOrder does not list — and the same for a child, a sibling pair, Types."""
    names = rng.sample(gs.NAMES + ["e", "zz", "id", "name", "email", "bio", "age"], rng.randint(2, 7))
    nodes = [{}]

    def leaf():
        nodes.append(rng.choice([{}, {"Type": rng.choice(gs.TYPES)}, {"Type": "string", "MinLength": Num("1")}]))
        return len(nodes) - 1

    def window():
        off = rng.choice([0, 0, 0, rng.randint(0, len(names) - 1)])
        ln = rng.randint(0 if rng.random() < 0.1 else 1, len(names) - off)
        return off, ln

    def obj_node(i):
        nd = nodes[i]
        props = rng.sample(names, rng.randint(1, len(names))) + (["other"] if rng.random() < 0.3 else [])
        nd["Properties"] = [[k, leaf()] for k in props]
        slots = []
        po = (0, rng.randint(0, max(0, len(names) - 2))) if rng.random() < 0.7 else window()
        nd["PropertyOrder"] = names[po[0]:po[0] + po[1]]
        slots.append({"node": i, "field": "PropertyOrder", "off": po[0], "len": po[1]})
        for _ in range(rng.randint(1, 2)):
            f = rng.choice(["Required", "Required", "DependentRequired", "DependencyStrings"])
            off, ln = window()
            if f == "Required":
                if "Required" in nd:
                    continue
                nd[f] = names[off:off + ln]
                slots.append({"node": i, "field": f, "off": off, "len": ln})
            else:
                if f in nd:
                    continue
                key = rng.choice(names)
                nd[f] = [[key, names[off:off + ln]]]
                slots.append({"node": i, "field": f, "key": key, "off": off, "len": ln})
        return slots

    slots = obj_node(0)
    r = rng.random()
    if r < 0.35:
        # a child (or two siblings) sharing the array of the parent
        for _ in range(rng.randint(1, 2)):
            nodes.append({})
            c = len(nodes) - 1
            nodes[0]["Properties"].append(["child%d" % c, c])
            slots += obj_node(c)
    groups = [{"backing": names, "slots": slots}]
    if rng.random() < 0.25:
        tys = rng.sample(gs.TYPES, rng.randint(2, 4))
        nodes.append({"Types": tys[:rng.randint(1, len(tys) - 1)]})
        nodes.append({"Types": tys})
        nodes[0].setdefault("AnyOf", []).extend([len(nodes) - 2, len(nodes) - 1])
        groups.append({"backing": tys, "slots": [{"node": len(nodes) - 2, "field": "Types", "off": 0, "len": len(nodes[-2]["Types"])},
                                                  {"node": len(nodes) - 1, "field": "Types", "off": 0, "len": len(tys)}]})
    desc = {"nodes": nodes, "root": 0, "alias": groups}
    facts = {"empty_enum": False, "big_int": False, "nil_child": False, "order": True, "extra_fold": False, "extra_collide": False,
             "nil_depstrings": False, "rules_broken": False, "n": len(nodes), "alias": True}
    return desc, facts


def gen(rng, tier, n):
    fields = gsv.fetch_fields(core)
    ops = []
    while len(ops) < n:
        if rng.random() < 0.06:
            desc, facts = alias_windows(rng, fields)
            insts = [Obj([(k, rng.choice([Num("1"), "s", None])) for k in rng.sample(desc["alias"][0]["backing"], rng.randint(0, min(3, len(desc["alias"][0]["backing"]))))]) for _ in range(4)]
            ops.append({"op": "marshal", "args": {"desc": desc, "insts": insts}, "meta": {"facts": facts, "nt": True}})
            continue
        if rng.random() < 0.6:
            # ~12 % of the values: name lists (Required, DependentRequired / DependencyStrings values) that repeat a name, adjacently or apart
            desc, facts = gsv.gen_desc(rng, fields, depth=2 if tier == "quick" else 3, dup_p=0.4 if rng.random() < 0.12 else 0.0)
            insts = [gs.gen_instance(rng, 2) for _ in range(4)]
            nt = sum(len(nd) for nd in desc["nodes"]) >= 3 or any(set(nd) & UNION for nd in desc["nodes"])
            ops.append({"op": "marshal", "args": {"desc": desc, "insts": insts}, "meta": {"facts": facts, "nt": nt}})
        else:
            draft = "2020" if rng.random() < 0.65 else "7"
            c = gs.Ctx(rng, draft, depth=rng.choice([1, 2, 3]), meta=0.3, refs=False)
            c.wild_ints = True
            doc = gs.gen_document(c, rng.choice(gs.D7_URIS) if draft == "7" else None)
            r = rng.random()
            if r < 0.13:
                doc = (spoil if r < 0.09 else case_variant)(rng, doc) or doc
            elif r < 0.18:
                doc = go_side_unknown(rng, doc) or doc
            insts = [gs.gen_instance(rng, 2) for _ in range(4)]
            ops.append({"op": "roundtrip-doc", "args": {"doc": doc, "insts": insts},
                        "meta": {"facts": {"order": False, "empty_enum": gs.has_key(doc, ()) and False}, "nt": gs.count_keywords(doc) >= 3, "doc": True}})
    return ops


def nontrivial(o):
    return (o.get("meta") or {}).get("nt", False)


def doc_has_empty(doc):
    if isinstance(doc, Obj):
        for k, v in doc.kvs:
            if k in ("enum", "anyOf", "oneOf") and v == []:
                return True
            if doc_has_empty(v):
                return True
    elif isinstance(doc, list):
        return any(doc_has_empty(x) for x in doc)
    return False


def lost_unknown(doc, out, path="$"):
    """The statement, directly: a key of an accepted document that is not EXACTLY a keyword is kept (Schema.Extra) and marshaled back with
    its value — at the root and at every subschema reached through exact keywords. Returns a description of the first loss, or None."""
    from .c18 import ONE, MANY, MAP
    if not isinstance(doc, Obj):
        return None
    kw = keyword_table()
    for k, v in doc.kvs:
        if k in kw:
            continue
        w = out.get(k, KeyError) if isinstance(out, Obj) else KeyError
        if w is KeyError:
            return "%s: the unknown keyword %r is gone from the marshaled schema" % (path, k)
        if canon(w) != canon(v):
            return "%s: the unknown keyword %r came back with another value" % (path, k)
    if not isinstance(out, Obj):
        return None
    for k, v in doc.kvs:
        if k not in kw or sum(1 for x in doc.keys() if x.lower() == k.lower()) != 1:
            continue
        w = out.get(k)
        pairs = []
        if k in ONE or (k == "items" and not isinstance(v, list)):
            pairs = [(k, v, w)]
        elif (k in MANY or k == "items") and isinstance(v, list) and isinstance(w, list) and len(v) == len(w):
            pairs = [("%s/%d" % (k, i), x, y) for i, (x, y) in enumerate(zip(v, w))]
        elif (k in MAP or k == "dependencies") and isinstance(v, Obj) and isinstance(w, Obj):
            pairs = [("%s/%s" % (k, kk), x, w.get(kk)) for kk, x in v.kvs if not isinstance(x, list)]
        for (step, x, y) in pairs:
            e = lost_unknown(x, y, path + "/" + step)
            if e:
                return e
    return None


def judge(o, go, m):
    if go is None:
        return "violation:harness", "no answer"
    if go.get("outcome") == "harness-error":
        return "skip", go.get("detail")
    if m is None or "model" not in m:
        return "violation:driver", "driver: %r" % (m,)
    mo = m["model"]
    facts = (o.get("meta") or {}).get("facts") or {}
    H = list(m.get("H") or [])
    if facts.get("big_int"):
        H.append("D6")
    if facts.get("extra_fold"):
        H.append("D4")
    if facts.get("nil_child"):
        H.append("nil-child")      # a nil *Schema inside a slice / map: not a schema (Resolve refuses it); outside the quantifier
    known = ("known:" + H[0]) if H else None
    if go.get("outcome") != mo.get("outcome"):
        return known or "violation", "outcome: real package %s (%s), model %s" % (go.get("outcome"), str(go.get("detail"))[:160], mo.get("outcome"))
    if go.get("outcome") != "ok":
        return "agree", ""
    try:
        gval = parse_ordered(go["text"])
    except Exception as e:
        return "violation", "Marshal produced unparsable bytes: %r" % (e,)
    mval = from_tagged(mo["value"])
    if o["op"] == "roundtrip-doc":
        e = lost_unknown(o["args"]["doc"], gval)
        if e:
            return "violation", "%s: %s" % (e, go["text"][:300])
    if go.get("untouched") is False:
        return "violation", "Marshal (or the Resolve / Validate calls of the round trip) modified the Schema value it was given: %s" % go["text"][:300]
    if not same_ordered(gval, mval):
        return known or "violation", "marshaled value differs: real package %s, model %r" % (go["text"][:300], mval)
    if not go.get("stable"):
        return "violation", "Marshal is not deterministic (bytes differ between calls)"
    if go.get("escape_equal") is False:
        return known or "violation", "the same document with \\uXXXX escapes in its strings is read as another schema: %s" % str(go.get("escape_detail"))[:200]
    # the round trip, observed on the real package
    if go.get("rt") != "ok":
        return known or "violation", "Unmarshal(Marshal(s)) fails: %s %s" % (go.get("rt"), go.get("rt_detail"))
    rval = parse_ordered(go["rt_text"])
    if canon(rval) != canon(gval):
        return known or "violation", "second Marshal gives another JSON value: %s vs %s" % (go["text"][:200], go["rt_text"][:200])
    if not facts.get("order") and not go.get("rt_equal"):
        return known or "violation", "second Marshal is not byte-identical although no PropertyOrder is set"
    if go.get("verdicts") is not None and go.get("verdicts") != go.get("rt_verdicts"):
        return known or "violation", "verdicts change over the round trip: %r vs %r" % (go.get("verdicts"), go.get("rt_verdicts"))
    if mo.get("rt") == "ok" and not same_ordered(from_tagged(mo["rt_value"]), rval) and not facts.get("order"):
        return known or "violation", "round-tripped value: real package %s, model %r" % (go["rt_text"][:200], from_tagged(mo["rt_value"]))
    return "agree", ""
