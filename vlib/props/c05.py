"""C05 — a schema survives a JSON round trip with its meaning intact."""
from .. import core
from .. import gen_schema as gs
from .. import gen_schemaval as gsv
from ..ordered import same_ordered
from ..wire import parse_ordered, from_tagged, canon, Obj

ID = "C05"
N_QUICK = 5000
N_THOROUGH = 100000
LEAN_MODULES = ["JSV.Props.C05"]
RULE = ("(a) Schema values built by reflection over the real struct (the field table is fetched from the harness on every run): 1..5 "
        "randomly chosen fields per node populated in every way their Go type allows (nil, empty, null constant, nested to depth 2), "
        "honouring the documented exclusivity rules in 95% of nodes; (b) generated schema documents of both drafts. Observed on the "
        "real package directly: Marshal twice byte-equal; Unmarshal(Marshal(s)) marshals to the same JSON value (byte-identical when no "
        "PropertyOrder is set) and gives the same verdicts on 4 instances; and the marshaled bytes parse to the model's ordered value. "
        "Non-trivial: >= 3 populated fields or a union field; distinct = operation text")
TRUSTED = ["encoding/json's byte-level formatting of strings and numbers (outputs are compared after parsing, order kept)"]
UNION = {"Type", "Types", "Items", "ItemsArray", "DependencySchemas", "DependencyStrings", "Const", "Properties", "Extra", "Default"}


def gen(rng, tier, n):
    fields = gsv.fetch_fields(core)
    ops = []
    while len(ops) < n:
        if rng.random() < 0.6:
            desc, facts = gsv.gen_desc(rng, fields, depth=2 if tier == "quick" else 3)
            insts = [gs.gen_instance(rng, 2) for _ in range(4)]
            nt = sum(len(nd) for nd in desc["nodes"]) >= 3 or any(set(nd) & UNION for nd in desc["nodes"])
            ops.append({"op": "marshal", "args": {"desc": desc, "insts": insts}, "meta": {"facts": facts, "nt": nt}})
        else:
            draft = "2020" if rng.random() < 0.65 else "7"
            c = gs.Ctx(rng, draft, depth=rng.choice([1, 2, 3]), meta=0.3, refs=False)
            c.wild_ints = True
            doc = gs.gen_document(c, rng.choice(gs.D7_URIS) if draft == "7" else None)
            insts = [gs.gen_instance(rng, 2) for _ in range(4)]
            ops.append({"op": "roundtrip-doc", "args": {"doc": doc, "insts": insts},
                        "meta": {"facts": {"order": False, "empty_enum": gs.has_key(doc, ()) and False}, "nt": gs.count_keywords(doc) >= 3, "doc": True}})
    return ops


def nontrivial(o):
    return (o.get("meta") or {}).get("nt", False)


def doc_has_empty(doc):
    if isinstance(doc, Obj):
        for k, v in doc.kvs:
            if k in ("enum", "anyOf", "oneOf") and v == []:
                return True
            if doc_has_empty(v):
                return True
    elif isinstance(doc, list):
        return any(doc_has_empty(x) for x in doc)
    return False


def judge(o, go, m):
    if go is None:
        return "violation:harness", "no answer"
    if go.get("outcome") == "harness-error":
        return "skip", go.get("detail")
    if m is None or "model" not in m:
        return "violation:driver", "driver: %r" % (m,)
    mo = m["model"]
    facts = (o.get("meta") or {}).get("facts") or {}
    H = list(m.get("H") or [])
    if facts.get("big_int"):
        H.append("D6")
    if facts.get("extra_fold"):
        H.append("D4")
    if facts.get("nil_child"):
        H.append("nil-child")      # a nil *Schema inside a slice / map: not a schema (Resolve refuses it); outside the quantifier
    known = ("known:" + H[0]) if H else None
    if go.get("outcome") != mo.get("outcome"):
        return known or "violation", "outcome: real package %s (%s), model %s" % (go.get("outcome"), str(go.get("detail"))[:160], mo.get("outcome"))
    if go.get("outcome") != "ok":
        return "agree", ""
    try:
        gval = parse_ordered(go["text"])
    except Exception as e:
        return "violation", "Marshal produced unparsable bytes: %r" % (e,)
    mval = from_tagged(mo["value"])
    if not same_ordered(gval, mval):
        return known or "violation", "marshaled value differs: real package %s, model %r" % (go["text"][:300], mval)
    if not go.get("stable"):
        return "violation", "Marshal is not deterministic (bytes differ between calls)"
    if go.get("escape_equal") is False:
        return known or "violation", "the same document with \\uXXXX escapes in its strings is read as another schema: %s" % str(go.get("escape_detail"))[:200]
    # the round trip, observed on the real package
    if go.get("rt") != "ok":
        return known or "violation", "Unmarshal(Marshal(s)) fails: %s %s" % (go.get("rt"), go.get("rt_detail"))
    rval = parse_ordered(go["rt_text"])
    if canon(rval) != canon(gval):
        return known or "violation", "second Marshal gives another JSON value: %s vs %s" % (go["text"][:200], go["rt_text"][:200])
    if not facts.get("order") and not go.get("rt_equal"):
        return known or "violation", "second Marshal is not byte-identical although no PropertyOrder is set"
    if go.get("verdicts") is not None and go.get("verdicts") != go.get("rt_verdicts"):
        return known or "violation", "verdicts change over the round trip: %r vs %r" % (go.get("verdicts"), go.get("rt_verdicts"))
    if mo.get("rt") == "ok" and not same_ordered(from_tagged(mo["rt_value"]), rval) and not facts.get("order"):
        return known or "violation", "round-tripped value: real package %s, model %r" % (go["rt_text"][:200], from_tagged(mo["rt_value"]))
    return "agree", ""
