"""Schema *values* (Go structs built by reflection in the harness) driven by the real field table."""
from . import gen_schema as gs
from .wire import Obj, Num

STRUCT_NAMES = None


def fetch_fields(core):
    res = core.eval_ops([{"id": 0, "op": "fields", "args": {}}], core.CTX["vh"], "go", env=core.GOENV)
    return res[0]["go"]["fields"]


def _with_repeats(rng, names):
    """A name list as Go code assembles it (appending the names of promoted / re-declared fields): some names occur more than once,
    in adjacent positions (run of 2-3) or apart. Nothing in the Schema type forbids it (dup_p=0 keeps the old distribution)."""
    out = list(names)
    for _ in range(rng.randint(1, 2)):
        i = rng.randrange(len(out))
        if rng.random() < 0.75:
            out[i:i] = [out[i]] * rng.randint(1, 2)          # adjacent run
        else:
            out.insert(rng.randrange(len(out) + 1), out[i])  # anywhere
    return out


def gen_desc(rng, fields, depth=2, nfields=(1, 5), rules_ok=0.95, order_p=0.3, big_int_p=0.01, empty_p=0.15, dup_p=0.0):
    """Returns {"nodes": [...], "root": 0} and a dict of facts about what was generated."""
    nodes = []
    facts = {"empty_enum": False, "big_int": False, "nil_child": False, "order": False, "extra_fold": False,
             "extra_collide": False, "nil_depstrings": False, "rules_broken": False, "n": 0}
    names = [f["name"] for f in fields]
    ftype = {f["name"]: f["type"] for f in fields}
    tagnames = set()
    for f in fields:
        t = f["tag"].split(",")[0]
        if t and t != "-":
            tagnames.add(t)
    tagnames |= {"type", "properties", "dependencies", "items"}

    def new_node(d):
        idx = len(nodes)
        nodes.append({})
        nd = {}
        chosen = rng.sample(names, rng.randint(*nfields))
        for name in chosen:
            v = value_for(name, ftype[name], d)
            if v is not NOTHING:
                nd[name] = v
        # documented exclusivity rules
        if rng.random() < rules_ok:
            if "Type" in nd and "Types" in nd and nd["Type"] and nd["Types"] is not None:
                del nd["Types"]
            if nd.get("Defs") is not None and nd.get("Definitions") is not None:
                del nd["Definitions"]
            if nd.get("Items") is not None and nd.get("ItemsArray") is not None:
                del nd["ItemsArray"]
            if nd.get("DependencySchemas") and nd.get("DependencyStrings"):
                ks = {k for k, _ in nd["DependencySchemas"]}
                nd["DependencyStrings"] = [kv for kv in nd["DependencyStrings"] if kv[0] not in ks]
            if nd.get("PropertyOrder"):
                seen, out = set(), []
                for k in nd["PropertyOrder"]:
                    if k not in seen:
                        seen.add(k)
                        out.append(k)
                nd["PropertyOrder"] = out
        else:
            facts["rules_broken"] = True
        if nd.get("PropertyOrder"):
            facts["order"] = True
        nodes[idx] = nd
        return idx

    NOTHING = object()

    def child(d):
        if d <= 0:
            idx = len(nodes)
            nodes.append({} if rng.random() < 0.5 else {"Type": rng.choice(gs.TYPES)})
            return idx
        return new_node(d - 1)

    def value_for(name, t, d):
        r = rng.random()
        if t == "string":
            if name in ("Ref", "DynamicRef"):
                return rng.choice(["#/$defs/none", ""])
            if name == "ID":
                return "http://x.test/id%d" % len(nodes)
            if name == "Schema":
                return rng.choice(["", gs.D2020_URI] + gs.D7_URIS)
            if name == "Pattern":
                return rng.choice(gs.PATTERNS)
            if name == "Type":
                return rng.choice(gs.TYPES)
            if name in ("Anchor", "DynamicAnchor"):
                return "a%d" % len(nodes)
            return rng.choice(["t", "x<y>&z", "é\n", "", "email"])
        if t == "bool":
            return rng.random() < 0.7
        if t == "*float64":
            return Num(rng.choice(gs.NUMS))
        if t == "*int":
            if rng.random() < big_int_p:
                facts["big_int"] = True
                return Num(str(rng.choice([1 << 40, -(1 << 35), 2147483648, -2147483649])))
            return Num(str(rng.randint(0, 4)))
        if t == "[]string":
            if r < empty_p:
                return []
            if name == "Types":
                return rng.sample(gs.TYPES, rng.randint(1, 3))
            if name == "PropertyOrder":
                pool = gs.NAMES + ["zz", "a"]
                return [rng.choice(pool) for _ in range(rng.randint(1, 5))]
            out = rng.sample(gs.NAMES, rng.randint(1, 3))
            if dup_p and rng.random() < dup_p:
                out = _with_repeats(rng, out)
            return out
        if t == "[]interface {}":
            if r < empty_p:
                if name == "Enum":
                    facts["empty_enum"] = True
                return []
            return [gs.gen_value(rng, 1) for _ in range(rng.randint(1, 3))]
        if t == "*interface {}":
            return {"v": gs.gen_value(rng, 2)}
        if t == "json.RawMessage":
            return {"raw": gs.gen_value(rng, 2)}
        if t == "map[string]bool":
            return [] if r < empty_p else [[rng.choice(["https://v/1", "https://v/2"]), rng.random() < 0.5]]
        if t == "map[string][]string":
            if r < empty_p:
                return []
            out = []
            for k in rng.sample(gs.NAMES, rng.randint(1, 2)):
                if rng.random() < 0.08:
                    if name == "DependencyStrings":
                        facts["nil_depstrings"] = True
                    out.append([k, None])
                else:
                    vs = rng.sample(gs.NAMES, rng.randint(0, 2))
                    if dup_p and vs and rng.random() < dup_p:
                        vs = _with_repeats(rng, vs)
                    out.append([k, vs])
            return out
        if t == "map[string]interface {}":
            if r < empty_p:
                return []
            out = []
            for _ in range(rng.randint(1, 2)):
                rr = rng.random()
                if rr < 0.05:
                    k = rng.choice(sorted(tagnames))
                    facts["extra_collide"] = True
                elif rr < 0.1:
                    k = rng.choice(["Type", "MINIMUM", "Required", "Not"])
                    facts["extra_fold"] = True
                else:
                    # (the second half: names of the Go side of the struct that are no JSON keyword and fold onto none — the tag
                    # text "-" of the fields without a key, Go names of such fields)
                    k = rng.choice(["x-a", "foo", "$bar", "nullable", "zz", "x-a", "foo", "-", "-", "Extra", "ID", "Types", "PropertyOrder"])
                if k not in [e[0] for e in out]:
                    out.append([k, gs.gen_value(rng, 1)])
            return out
        if t == "*jsonschema.Schema":
            return child(d)
        if t == "[]*jsonschema.Schema":
            if r < empty_p:
                if name in ("AnyOf", "OneOf"):
                    facts["empty_enum"] = True
                return []
            out = [child(d) for _ in range(rng.randint(1, 3))]
            if rng.random() < 0.02:
                out[rng.randrange(len(out))] = None
                facts["nil_child"] = True
            return out
        if t == "map[string]*jsonschema.Schema":
            if r < empty_p:
                return []
            exotic = [] if name == "PatternProperties" or rng.random() < 0.8 else \
                ["a\u0001b", "\u007f", "v\u000bt", "\U0001F600", "tab\t", "q\"uote", "back\\slash", "<>&", "\u2028", "\u0000", "\u001b[0m", "\U000E0001"]
            ks = rng.sample(gs.NAMES + (gs.PATTERNS[:3] if name == "PatternProperties" else ["e", "zz"]) + exotic, rng.randint(1, 3))
            if name == "PatternProperties":
                ks = rng.sample(gs.PATTERNS, rng.randint(1, 2))
            out = [[k, child(d)] for k in ks]
            if rng.random() < 0.02:
                out[0][1] = None
                facts["nil_child"] = True
            return out
        return NOTHING   # a type this generator does not know: the model will not either

    new_node(depth)
    facts["n"] = len(nodes)
    return {"nodes": nodes, "root": 0}, facts
