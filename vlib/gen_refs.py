"""Reference topologies for C03 (and C06/C17): universes of documents with embedded resources, anchors,
every syntactic form of $ref, loader faults.  Every target carries a unique `const` mark, so "which
target accepts the instance" is observable from verdicts alone; the designated target is known by
construction (RFC 3986 resolution done here with urllib), which gives expected verdicts that are
independent of both the Go code and the Lean model."""
from urllib.parse import urljoin, urlsplit, quote

from .wire import Obj, Num

SITE = "http://x.test"
DOC_URIS = [SITE + "/d/a.json", SITE + "/d/b.json", SITE + "/d/sub/c.json", SITE + "/e.json", "https://o.test/z/w.json",
            "urn:example:u1"]
BASES = ["", SITE + "/d/root.json", SITE + "/d/root.json", "https://h.test/p/q/root.json", "urn:example:root", SITE + "/d/sub/deep/r.json"]
REL_IDS = ["x2.json", "../k/x3.json", "./s/t.json", "/abs/x4.json", SITE + "/canon/x5.json", "urn:example:emb", "sub/",
           SITE + "/canon/./x6.json", SITE + "/zz/../canon/x7.json"]


def ptr_escape(seg):
    return seg.replace("~", "~0").replace("/", "~1")


def frag_encode(s):
    # percent-encode what must be encoded in a URI fragment
    return quote(s, safe="/~!$&'()*+,;=:@?-._")


def is_abs(u):
    return bool(urlsplit(u).scheme)


def join(base, ref):
    if base == "":
        # Go: the empty URL resolves relative paths to "/path"
        sp = urlsplit(ref)
        if sp.scheme or sp.netloc:
            return ref
        if ref.startswith("#") or ref == "":
            return ref
        return None  # outside what this generator predicts
    if base.startswith("urn:"):
        sp = urlsplit(ref)
        if sp.scheme:
            return ref
        if ref.startswith("#"):
            return base.split("#")[0] + ref
        return None
    return urljoin(base, ref)


def relativize(rng, base, target):
    """Some reference string that resolves (RFC 3986) from base to target (both absolute, no fragment)."""
    forms = [target]
    sb, st = urlsplit(base), urlsplit(target)
    if sb.scheme in ("http", "https") and sb.scheme == st.scheme and sb.netloc == st.netloc:
        forms.append(st.path)                       # absolute-path reference
        forms.append("//" + st.netloc + st.path)    # network-path reference
        bdir = sb.path.rsplit("/", 1)[0].split("/")[1:]
        tparts = st.path.split("/")[1:]
        tdir, tfile = tparts[:-1], tparts[-1]
        i = 0
        while i < len(bdir) and i < len(tdir) and bdir[i] == tdir[i]:
            i += 1
        rel = "../" * (len(bdir) - i) + "/".join(tdir[i:] + [tfile])
        if rel and ":" not in rel.split("/")[0]:
            forms.append(rel)
            forms.append("./" + rel)
            if len(bdir) >= 1:
                forms.append("../" + bdir[-1] + "/" + rel if not rel.startswith("../") else rel)
    cands = [f for f in forms if join(base, f) == target]
    return rng.choice(cands) if cands else target


class Target:
    def __init__(self, mark, doc, res_uris, anchor, ptr, is_root, embedded, dynamic=False):
        self.mark, self.doc, self.res_uris, self.anchor, self.ptr = mark, doc, res_uris, anchor, ptr
        self.is_root, self.embedded, self.dynamic = is_root, embedded, dynamic


def gen_universe(rng, draft="2020", max_docs=3):
    """Returns (root_doc, docs[[uri, doc|{"fail":1}]], base, insts, expect|None, meta)."""
    defs_kw = "$defs" if draft == "2020" else "definitions"
    base = rng.choice(BASES)
    ndocs = rng.randint(0, max_docs)
    uris = rng.sample(DOC_URIS, ndocs)
    targets = []
    mark_n = [0]

    def new_mark():
        mark_n[0] += 1
        return "T%d" % mark_n[0]

    docs = []  # (retrieval uri, body Obj, canonical uri)
    ghosts, shadows = [], []     # draft-07: plain-name $ids written beside a $ref (ignored): fresh names / names of effective targets
    used_res = set()   # resource URIs already taken (two equal $ids in one universe are outside every property)

    def build_doc(di, retrieval):
        body = Obj()
        canon = retrieval
        if draft == "7" and (di == -1 or rng.random() < 0.5):
            body.set("$schema", "http://json-schema.org/draft-07/schema#")
        if rng.random() < 0.35:
            idv = rng.choice(REL_IDS[:5]) if retrieval and not retrieval.startswith("urn:") else rng.choice([SITE + "/canon/y%d.json" % di, "urn:example:id%d" % di])
            j = join(retrieval, idv)
            if j is not None and is_abs(j) and j not in used_res and j not in uris and j != base:
                # draft-07: an $id that ends in a bare '#' (empty fragment, the spelling of the draft-07 meta-schema's own $id) is an
                # ordinary base URI, not a plain-name identifier
                body.set("$id", idv + ("#" if draft == "7" and rng.random() < 0.3 else ""))
                canon = j
        used_res.add(canon)
        used_res.add(retrieval)
        res_uris = [u for u in {retrieval, canon} if u is not None]
        defs = Obj()
        for k in range(rng.randint(1, 3)):
            m = new_mark()
            name = rng.choice(["t%d" % k, "a b", "x/y", "m~n", "é", "%25", "q%d" % k])
            while name in defs.keys():
                name += "_"
            t = Obj([("const", m)])
            anchor = None
            if rng.random() < 0.5:
                anchor = "A" + m
                if draft == "2020":
                    t.set("$anchor", anchor)
                else:
                    t.set("$id", "#" + anchor)
            ptr = "/" + ptr_escape(defs_kw) + "/" + ptr_escape(name)
            if rng.random() < 0.3:
                # an embedded resource holding an inner target
                idv = rng.choice(REL_IDS)
                j = join(canon, idv) if canon else (idv if is_abs(idv) else None)
                if j in used_res or j in uris or j == base:
                    j = None
                else:
                    used_res.add(j)
                if j is not None and is_abs(j) and "#" not in j and draft == "2020" or (j is not None and is_abs(j) and draft == "7" and anchor is None):
                    m2 = new_mark()
                    inner = Obj([("const", m2)])
                    a2 = None
                    if rng.random() < 0.6:
                        a2 = "A" + m2
                        if draft == "2020":
                            inner.set("$anchor", a2)
                        else:
                            inner.set("$id", "#" + a2)
                    # a reference to "#" from INSIDE the embedded resource designates that resource's root, not the document's
                    t = Obj([("$id", idv + ("#" if draft == "7" and rng.random() < 0.3 else "")), (defs_kw, Obj([("in", inner), ("selfref", Obj([("$ref", rng.choice(["#", "#", "#/" + defs_kw + "/in"]))]))])), ("const", m)] +
                            ([("$anchor", anchor)] if anchor and draft == "2020" else []))
                    # anchors declared on the embedded resource's own root belong to the embedded resource
                    targets.append(Target(m, di, [j], anchor if draft == "2020" else None, "", True, True))
                    targets.append(Target(m2, di, [j], a2, "/" + defs_kw + "/in", False, True))
                    defs.kvs.append((name, t))
                    # the same schema is also reachable by pointer from the enclosing resource
                    targets.append(Target(m, di, res_uris, None, ptr, False, False))
                    continue
            defs.kvs.append((name, t))
            targets.append(Target(m, di, res_uris, anchor, ptr, False, False))
        if draft == "7" and rng.random() < 0.3 and defs.kvs:
            # draft-07 section 8.3: every sibling of $ref is ignored, so "$id": "#name" beside "$ref" names nothing. The name is fresh (a
            # reference to it designates nothing) or that of an effective plain-name $id of the same resource, declared on an entry that
            # comes before or after it in the document (a reference to the name designates that entry, never the alias)
            tname, _ = rng.choice(defs.kvs)
            mine = [t for t in targets if t.doc == di and not t.embedded and t.anchor]
            alias = Obj([("$ref", "#/" + defs_kw + "/" + frag_encode(ptr_escape(tname)))])
            if mine and rng.random() < 0.6:
                t = rng.choice(mine)
                alias.set("$id", "#" + t.anchor)
                shadows.append(t)
            else:
                gname = "G%d" % (len(ghosts) + 1)
                alias.set("$id", "#" + gname)
                ghosts.append((di, gname))
            if rng.random() < 0.5:
                alias.kvs.reverse()
            aname = rng.choice(["0alias", "zalias", "alias", "%alias"])
            if aname not in defs.keys():
                if rng.random() < 0.5:
                    defs.kvs.insert(0, (aname, alias))
                else:
                    defs.kvs.append((aname, alias))
        body.set(defs_kw, defs)
        return body, canon

    root_body, root_canon = build_doc(-1, base)
    for di, u in enumerate(uris):
        b, cn = build_doc(di, u)
        docs.append([u, b, cn])

    # references: properties p0.. of the root document
    props = Obj()
    expect_targets = []
    dangling = False
    d9 = False
    nrefs = rng.randint(1, 5)
    seen_docs = set()    # loaded documents already referenced (by retrieval URI) from an earlier property
    for i in range(nrefs):
        if not targets:
            break
        t = rng.choice(targets)
        if t.embedded and t.doc != -1 and rng.random() < 0.8:
            t = rng.choice([x for x in targets if not (x.embedded and x.doc != -1)])
        referrer_base = root_canon
        kind = rng.random()
        if kind < 0.08:
            # a reference that designates nothing
            ref = rng.choice(["#nosuch", "#/" + defs_kw + "/nosuch", "#/" + defs_kw, "nosuch.json", "#/allOf/0", "#/%zz", "#bad anchor",
                              "#/not", "#/if", "#/additionalProperties", "#/contains", "#/properties", "#/title", "#/required/0",
                              "#/" + defs_kw + "/", "#/properties/p0/$ref", "#/allOf/+0", "#/allOf/-0", "#/allOf/00", "#/allOf/1",
                              "#/allOf/-", "#/allOf/0/x", "#/allOf/", "#/allOf//", "#/allOf/18446744073709551616"])
            dangling = True
            props.kvs.append(("p%d" % i, Obj([("$ref", ref)])))
            expect_targets.append(None)
            continue
        frag_forms = []
        if t.anchor:
            frag_forms.append("#" + frag_encode(t.anchor))
        if t.is_root:
            frag_forms.append("")
            frag_forms.append("#")
        else:
            frag_forms.append("#" + frag_encode(t.ptr))
        frag = rng.choice(frag_forms)
        same_res = (t.doc == -1 and not t.embedded and referrer_base in t.res_uris) or (t.doc == -1 and referrer_base == "" and not t.embedded)
        if same_res and rng.random() < 0.6 and frag != "":
            ref = frag
        else:
            # the canonical $id of a Loader document is only known once the document has been loaded
            # through its retrieval URI by an earlier reference
            if t.doc >= 0 and not t.embedded:
                ru = rng.choice(t.res_uris) if t.doc in seen_docs else uris[t.doc]
                seen_docs.add(t.doc)
            else:
                ru = rng.choice(t.res_uris)
            if not ru:
                ref = frag if frag else "#"
            elif referrer_base and is_abs(referrer_base) and not referrer_base.startswith("urn:") and rng.random() < 0.6:
                ref = relativize(rng, referrer_base, ru) + frag
            else:
                ref = ru + frag
                if "://" in ru and rng.random() < 0.25:
                    # an absolute reference is normalised too (RFC 3986 5.2.4): the same URI spelled with dot segments
                    head, _, last = ru.rpartition("/")
                    if head.count("/") >= 2:
                        ref = head + rng.choice(["/./", "/zz/../", "/./zz/.././"]) + last + frag
        if t.embedded and t.doc != -1:
            d9 = True     # embedded resource of a loaded document addressed by its own URI
        props.kvs.append(("p%d" % i, Obj([("$ref", ref)])))
        expect_targets.append(t)
    for t in shadows:
        # by its plain name, the target whose name an ignored "$id" beside a "$ref" repeats
        if rng.random() < 0.7:
            ru = "" if t.doc == -1 and (root_canon in t.res_uris or not root_canon) else (uris[t.doc] if t.doc >= 0 else rng.choice([u for u in t.res_uris if u] or [""]))
            if t.doc >= 0:
                seen_docs.add(t.doc)
            props.kvs.append(("p%d" % len(expect_targets), Obj([("$ref", ru + "#" + frag_encode(t.anchor))])))
            expect_targets.append(t)
    for di, gname in ghosts:
        if rng.random() < 0.4:
            ru = uris[di] if di >= 0 else ""
            props.kvs.append(("p%d" % len(expect_targets), Obj([("$ref", ru + "#" + gname)])))
            expect_targets.append(None)
            dangling = True
    root_body.set("properties", props)
    if dangling or rng.random() < 0.2:
        root_body.set("allOf", [True])

    # chains / cycles between documents (guarded by "next")
    if docs and rng.random() < 0.5:
        order = list(range(len(docs)))
        rng.shuffle(order)
        alias_all = rng.random() < 0.35
        for a, b in zip(order, order[1:] + order[:1]):
            if rng.random() < 0.7 or alias_all:
                docs[a][1].set("properties", Obj([("next", Obj([("$ref", docs[b][0])]))]))
            has_embedded = any(isinstance(v, Obj) and isinstance(v.get("$id"), str) and not v.get("$id").startswith("#")
                               for _, v in ((docs[a][1].get(defs_kw) or Obj()).kvs))
            if alias_all and docs[a][1].get("$id") is None and not has_embedded:
                # (not for documents with embedded resources: their relative $ids would move with the new base and could collide)
                # every document of the cycle is served from one URL and names itself by another ($id): the cycle closes only if
                # the loader cache knows a loaded document under its retrieval URL before its references are followed
                cid = SITE + "/canon/cyc%d.json" % a
                if cid not in used_res:
                    used_res.add(cid)
                    docs[a][1].kvs.insert(0, ("$id", cid))
        if base and rng.random() < 0.5:
            docs[order[-1]][1].set("additionalProperties", Obj([("$ref", base)]))
    canonical_backref = False
    # references between loaded documents, to marked targets (anchors / pointers / roots), incl. back to the root
    if docs and rng.random() < 0.6:
        for _ in range(rng.randint(1, 3)):
            src = rng.randrange(len(docs))
            t = rng.choice(targets)
            if t.embedded or (t.doc == -1 and not root_canon):
                continue
            ru = uris[t.doc] if t.doc >= 0 else rng.choice([u for u in t.res_uris if u])
            if t.doc >= 0 and docs[t.doc][2] and docs[t.doc][2] != uris[t.doc] and rng.random() < 0.3:
                # by the canonical name ($id) of the target document: only meaningful once that document has been loaded, which
                # depends on the order of resolution — the expected verdicts are then not predicted here (real package = model decides)
                ru = docs[t.doc][2]
                canonical_backref = True
            frag = "#" + frag_encode(t.anchor) if t.anchor and rng.random() < 0.6 else "#" + frag_encode(t.ptr)
            cur = docs[src][1].get("properties") or Obj()
            cur.kvs.append(("q%d" % len(cur.kvs), Obj([("$ref", ru + frag)])))
            docs[src][1].set("properties", cur)
    # two hops: root -> document a -> a marked target of document b (b preferably not referenced from the root at all, and in draft-07
    # often without its own $schema, so that b is read under the draft a inherited from the root)
    hop = None
    if len(docs) >= 2 and rng.random() < 0.35:
        direct = {t.doc for t in expect_targets if t is not None}
        bs = [i for i in range(len(docs)) if i not in direct] or list(range(len(docs)))
        b = rng.choice(bs)
        a = rng.choice([i for i in range(len(docs)) if i != b])
        tb = [t for t in targets if t.doc == b and not t.embedded]
        if tb:
            t = rng.choice(tb)
            frag = "#" + frag_encode(t.anchor) if t.anchor and rng.random() < 0.6 else "#" + frag_encode(t.ptr)
            cur = docs[a][1].get("properties") or Obj()
            cur.kvs.append(("hop", Obj([("$ref", uris[b] + frag)])))
            docs[a][1].set("properties", cur)
            props.kvs.append(("ph", Obj([("$ref", uris[a])])))
            if draft == "7" and rng.random() < 0.7:
                for d in (a, b):
                    docs[d][1].kvs = [kv for kv in docs[d][1].kvs if kv[0] != "$schema"]
            hop = t
    # faults
    fail = set()
    if docs and rng.random() < 0.25:
        fail = set(rng.sample(range(len(docs)), rng.randint(1, len(docs))))
    wire_docs = []
    for di, (u, b, cn) in enumerate(docs):
        if di in fail:
            r = rng.random()
            if r < 0.4:
                wire_docs.append([u, {"fail": 1}])
            elif r < 0.6:
                wire_docs.append([u, {"nil": 1}])
        else:
            wire_docs.append([u, b])
    marks = ["T%d" % k for k in range(1, mark_n[0] + 1)]
    insts = []
    expect = []
    predictable = not dangling
    for i, t in enumerate(expect_targets):
        for m in rng.sample(marks, min(len(marks), 3)) + ([t.mark] if t else []):
            insts.append(Obj([("p%d" % i, m)]))
            expect.append(t is not None and m == t.mark)
    if hop is not None:
        for m in rng.sample(marks, min(len(marks), 2)) + [hop.mark]:
            insts.append(Obj([("ph", Obj([("hop", m)]))]))
            expect.append(m == hop.mark)
    needs = set()
    for t in expect_targets:
        if t is not None and t.doc >= 0:
            needs.add(t.doc)
    if fail or canonical_backref:
        predictable = False
    loader = True if wire_docs or rng.random() < 0.5 else False
    meta = {"dangling": dangling, "d9": d9, "fail": sorted(fail), "nrefs": len(expect_targets), "ndocs": len(docs),
            "base": base}
    return root_body, wire_docs, base, loader, insts, (expect if predictable else None), meta


TW = SITE + "/tw/"
# families of path spellings that are pairwise DIFFERENT URIs (RFC 3986 section 6: a trailing slash, an empty segment and the
# percent-encoded form of a reserved character are all significant; net/url keeps the spelling it was given and does no
# normalisation of unreserved characters either, so %7E / ~ and %41 / A name two resources as well), although each pair collapses
# into one under some plausible "normalisation" (path cleaning, decoding and re-encoding the path)
TWIN_FAMILIES = [
    ["a/b", "a/b/", "a//b"], ["dir", "dir/"], ["v1/shape", "v1//shape", "v1/shape/", "v1//shape/"], ["things", "things/", "things//"],
    ["x/y.json", "x%2Fy.json", "x//y.json"], ["schemas/item.json", "schemas%2Fitem.json"], ["a/b/c.json", "a%2Fb/c.json", "a/b%2Fc.json", "a%2Fb%2Fc.json"],
    ["~u/s.json", "%7Eu/s.json"], ["A.json", "%41.json"], ["k-1.json", "k%2D1.json"],
    ["a:b.json", "a%3Ab.json"], ["a$b", "a%24b"], ["a&b", "a%26b"], ["a+b", "a%2Bb"], ["a,b", "a%2Cb"], ["a;b", "a%3Bb"], ["a=b", "a%3Db"],
    ["a@b", "a%40b"], ["q/a@b.json", "q/a%40b.json", "q%2Fa@b.json"],
]


def twin_universe(rng, draft="2020"):
    """Two or three DISTINCT schema resources whose absolute URIs are near twins: they differ only by a trailing slash, by an empty
    path segment ('//'), or by one character being written percent-encoded (%2F for '/', %3A for ':', ... %7E for '~'). Each member is
    embedded in the root document ($id) or supplied by the Loader (one of each, two of either); each carries its own mark at its root
    and at an inner definition (reachable by pointer and by anchor). The root refers to every member, once or twice, by the absolute
    URI or by a relative / absolute-path / network-path spelling that RFC 3986 resolves to it (checked with urllib), in a shuffled
    order, so that embedded members are registered and Loader members requested in either order. Every reference must reach ITS
    member; the Loader must be asked for each loaded member exactly once. Expected verdicts by construction.
    Returns (args, meta)."""
    defs_kw = "$defs" if draft == "2020" else "definitions"
    fam = rng.choice(TWIN_FAMILIES)
    members = [TW + x for x in rng.sample(fam, min(len(fam), rng.choice([2, 2, 2, 3])))]
    base = rng.choice([TW + "root.json", SITE + "/d/root.json", SITE + "/tw/a/root.json", "https://h.test/p/q/root.json", ""])
    marks = []

    def new_mark():
        marks.append("W%d" % (len(marks) + 1))
        return marks[-1]

    root_defs, docs, tgts = Obj(), [], []     # tgts: (member uri, fragment forms, mark)
    for k, u in enumerate(members):
        m0, m1 = new_mark(), new_mark()
        inner = Obj([("const", m1)])
        aname = "in%d" % k if rng.random() < 0.5 else "in"     # the same anchor NAME in two resources is fine: anchors are per resource
        if draft == "2020":
            inner.set("$anchor", aname)
        else:
            inner.set("$id", "#" + aname)
        body = Obj([(defs_kw, Obj([("t", inner)])), ("const", m0)])
        if rng.random() < 0.5:
            spelled = u
            if base.startswith(SITE) and rng.random() < 0.4:
                spelled = relativize(rng, base, u)
            root_defs.kvs.append(("m%d" % k, Obj([("$id", spelled)] + body.kvs)))
        else:
            if draft == "7" and rng.random() < 0.3:
                body.kvs.insert(0, ("$schema", "http://json-schema.org/draft-07/schema#"))
            docs.append([u, body])
        tgts.append((u, ["", "#"], m0))
        tgts.append((u, ["#/" + defs_kw + "/t", "#" + aname], m1))
    rng.shuffle(root_defs.kvs)
    refs = []
    for u, frags, m in tgts:
        if rng.random() < 0.75 or not refs:
            refs.append((u, rng.choice(frags), m))
    # every member is referred to at least once
    for u in members:
        if not any(r[0] == u for r in refs):
            refs.append(rng.choice([(uu, rng.choice(ff), mm) for uu, ff, mm in tgts if uu == u]))
    rng.shuffle(refs)
    props, insts, expect = Obj(), [], []
    for i, (u, frag, m) in enumerate(refs):
        spelled = u
        if base and rng.random() < 0.6:
            spelled = relativize(rng, base, u)
        assert (join(base, spelled) if base else spelled) == u, (base, spelled, u)
        props.kvs.append(("p%d" % i, Obj([("$ref", spelled + frag)])))
        for mm in sorted(set([m] + rng.sample(marks, min(3, len(marks))))):
            insts.append(Obj([("p%d" % i, mm)]))
            expect.append(mm == m)
    root = Obj([("properties", props)])
    if root_defs.kvs:
        root.set(defs_kw, root_defs)
    args_base = base
    if base and rng.random() < 0.4:
        root.kvs.insert(0, ("$id", base))
        args_base = ""
    if draft == "7":
        root.kvs.insert(0, ("$schema", "http://json-schema.org/draft-07/schema#"))
    rng.shuffle(docs)
    args = {"schema": root, "docs": docs, "base": args_base, "loader": True, "insts": insts}
    meta = {"kind": "universe", "twin": True, "expect": expect, "nrefs": len(refs), "ndocs": len(docs), "kw": 3,
            "needs": sorted(d[0] for d in docs)}
    return args, meta


def mixed_cycle(rng):
    """A reference cycle across 2-3 Loader documents that DECLARE different drafts (or none: inherited). Recursion passes through
    `properties` / `items`, so it is guarded. Each document marks itself with a const under a property of its own, written in the
    keyword spelling of its own draft."""
    from .wire import Obj, Num
    D7 = "http://json-schema.org/draft-07/schema#"
    D20 = "https://json-schema.org/draft/2020-12/schema"
    k = rng.choice([2, 2, 3])
    uris = ["http://x.test/mix/d%d.json" % i for i in range(k)]
    drafts = [rng.choice([D7, D20, None]) for _ in range(k)]
    if len(set(drafts)) == 1:
        drafts[rng.randrange(k)] = D7 if drafts[0] != D7 else D20
    docs = []
    for i in range(k):
        nxt = uris[(i + 1) % k]
        via = rng.choice(["properties", "items", "additionalProperties"])
        body = [("$id", uris[i])] if rng.random() < 0.6 else []
        if drafts[i]:
            body = [("$schema", drafts[i])] + body
        ref = Obj([("$ref", nxt if rng.random() < 0.7 else "d%d.json" % ((i + 1) % k))])
        if rng.random() < 0.4:
            ref.set("maxProperties", Num("0"))      # a sibling: ignored in draft-07, asserted in 2020-12
        props = Obj([("m%d" % i, Obj([("const", "doc%d" % i)]))])
        if via == "properties":
            props.set("next", ref)
            body += [("properties", props)]
        elif via == "items":
            body += [("properties", props), ("items", ref)]
        else:
            body += [("properties", props), ("additionalProperties", ref)]
        docs.append([uris[i], Obj(body)])
    root = Obj(([("$schema", rng.choice([D7, D20]))] if rng.random() < 0.7 else []) + [("$ref", uris[0])])
    if rng.random() < 0.5:
        # the root IS the first document of the cycle (served by the Loader under its own URI as well)
        root = Obj(list(docs[0][1].kvs))
        if root.get("$id") is None:
            root.kvs.insert(1 if root.get("$schema") is not None else 0, ("$id", uris[0]))
    insts = []
    for i in range(k):
        for mark in ("doc%d" % i, "doc%d" % ((i + 1) % k), "none"):
            inner = Obj([("m%d" % i, mark)])
            insts.append(inner)
            insts.append(Obj([("next", inner)]))
            insts.append(Obj([("next", Obj([("next", inner), ("zz", inner)]))]))
            insts.append([inner, [inner]])
            insts.append(Obj([("other", inner)]))
    rng.shuffle(insts)
    return {"schema": root, "docs": docs, "base": "http://x.test/mix/root.json", "loader": True, "insts": insts[:12]}


def registry_alias(rng, draft="2020"):
    """A schema registry whose Loader serves ONE parsed *Schema object under two URLs (a versioned directory and an alias directory,
    /v1/ and /latest/), including the object that is being resolved (the document under test N is itself served again under the alias
    URL). N refers to itself through the alias URL and to sibling documents by relative / absolute references and to its own $defs; the
    two directories hold sibling documents of the same names (different objects with different marks, or — sometimes — one shared
    object). The harness op is `validate-go` with `aliases`: a Loader handing out shared objects is OUTSIDE the Lean model
    (`resolve_sound` assumes `LoaderFresh`; the model keeps one info table), so these operations are never sent to the model; they are
    judged by the expectations computed here from the property statement: N is known to the caller under its versioned URL (BaseURI,
    or the URL the root document uses for it), so every reference written in N designates what RFC 3986 resolution against THAT URL
    gives. Only instance paths whose meaning does not depend on the URL a shared object was entered by are observed: N's own
    properties, and — through the alias self-reference — the properties whose reference is absolute or fragment-only.
    Returns (args, meta)."""
    defs_kw = "$defs" if draft == "2020" else "definitions"
    host = rng.choice(["http://reg.test", "https://reg.test/schemas", "http://reg.test/a/b"])
    dn = rng.sample(["v1", "latest", "v2", "stable", "2024-01"], 2)
    d0, d1 = host + "/" + dn[0] + "/", host + "/" + dn[1] + "/"
    nfile = rng.choice(["node.json", "root.json", "n"])
    files = rng.sample(["types.json", "b.json", "sub/c.json", "t"], rng.randint(1, 2))
    n_url, n_alias = d0 + nfile, d1 + nfile
    mark_n = [0]

    def new_mark():
        mark_n[0] += 1
        return "R%d" % mark_n[0]

    def anchored(m):
        t = Obj([("const", m)])
        if draft == "2020":
            t.set("$anchor", "tgt")
        else:
            t.set("$id", "#tgt")
        return t

    # (the anchor has the same NAME in the two directories' siblings: the document served under the alias URL must be free of dangling
    # references too — it is resolved under that URL as well)
    docs, aliases = [], []
    sib = {}     # url -> (root mark, inner mark)
    for f in files:
        m0, m1 = new_mark(), new_mark()
        body = Obj([(defs_kw, Obj([("t", anchored(m1))])), ("const", m0)])
        if rng.random() < 0.3:
            # back into the document under test, by a relative reference (guarded by `properties`): a cycle through N
            body.set("properties", Obj([("back", Obj([("$ref", ("../" if "/" in f else "") + nfile)]))]))
            body.kvs = [kv for kv in body.kvs if kv[0] != "const"] + [("required", ["k" + m0])]
            m0 = None
        docs.append([d0 + f, body])
        sib[d0 + f] = (m0, m1)
        if rng.random() < 0.25:
            aliases.append([d1 + f, d0 + f])          # one object under both names
            sib[d1 + f] = (m0, m1)
        else:
            m2, m3 = new_mark(), new_mark()
            docs.append([d1 + f, Obj([(defs_kw, Obj([("t", anchored(m3))])), ("const", m2)])])
            sib[d1 + f] = (m2, m3)
    lm = new_mark()
    props, exp_t, needs = Obj(), {}, set()
    pnames = rng.sample(["a0", "b1", "k2", "m3", "t4", "x5", "z6"], rng.randint(2, 4))
    any_fragless = {}
    for pn in sorted(pnames):
        r = rng.random()
        if r < 0.15:
            props.kvs.append((pn, Obj([("$ref", "#/" + defs_kw + "/loc")])))
            exp_t[pn] = (lm, True)
            continue
        url = rng.choice(sorted(sib)) if r < 0.35 else d0 + rng.choice(files)
        m0, m1 = sib[url]
        kind = rng.choice(["root", "ptr", "anchor"]) if m0 is not None else rng.choice(["ptr", "anchor"])
        frag, m = {"root": (rng.choice(["", "#"]), m0), "ptr": ("#/" + defs_kw + "/t", m1), "anchor": ("#tgt", m1)}[kind]
        spelled = relativize(rng, n_url, url) if rng.random() < 0.8 else url
        assert join(n_url, spelled) == url, (n_url, spelled, url)
        props.kvs.append((pn, Obj([("$ref", spelled + frag)])))
        exp_t[pn] = (m, is_abs(spelled))
        needs.add(url)
    self_kind = rng.random()
    if self_kind < 0.85:
        props.kvs.append(("self", Obj([("$ref", n_alias)])))         # itself, through the alias URL
    elif self_kind < 0.93:
        props.kvs.append(("self", Obj([("$ref", rng.choice([n_url, nfile, "#"]))])))
    props.kvs.sort(key=lambda kv: kv[0])
    N = Obj([(defs_kw, Obj([("loc", Obj([("const", lm)]))])), ("properties", props)])
    with_id = rng.random() < 0.15
    if with_id:
        N.kvs.insert(0, ("$id", n_url))
    d7 = [("$schema", "http://json-schema.org/draft-07/schema#")] if draft == "7" else []
    marks = ["R%d" % k for k in range(1, mark_n[0] + 1)]
    insts, expect = [], []
    as_root = rng.random() < 0.6
    if as_root:
        root = Obj(d7 + N.kvs)
        base = n_url if not with_id or rng.random() < 0.5 else ""
        aliases += [[n_url, "#root"], [n_alias, "#root"]]
        wrap = lambda x: x
    else:
        root = Obj(d7 + [("properties", Obj([("n", Obj([("$ref", n_url)]))]))])
        base = rng.choice(["", host + "/app/root.json", "urn:example:app"])
        docs.append([n_url, N])
        aliases.append([n_alias, n_url])
        needs.add(n_url)
        wrap = lambda x: Obj([("n", x)])
    has_self = props.get("self") is not None
    for pn, (m, unambiguous) in sorted(exp_t.items()):
        for mm in sorted(set([m] + rng.sample(marks, min(2, len(marks))))):
            insts.append(wrap(Obj([(pn, mm)])))
            expect.append(mm == m)
            if has_self and (unambiguous or with_id):
                insts.append(wrap(Obj([("self", Obj([(pn, mm)]))])))
                expect.append(mm == m)
    if has_self:
        needs.add(n_alias) if self_kind < 0.85 else None
    rng.shuffle(docs)
    args = {"schema": root, "docs": docs, "base": base, "loader": True, "insts": insts, "aliases": aliases}
    meta = {"kind": "shared", "oracle": True, "expect": expect, "needs": sorted(needs), "nrefs": len(exp_t), "alias_self": self_kind < 0.85,
            "as_root": as_root}
    return args, meta


SLASH_KW1 = ["not", "if", "then", "else", "items", "contains", "additionalProperties", "propertyNames"]     # schema-valued, both drafts
SLASH_NONSCHEMA = ["type", "title", "required/0", "enum/0", "const", "nosuch", "minimum", "Not"]


def slash_defs(rng, draft="2020", spell=None, where=None):
    """$defs / definitions member NAMES that contain a raw '/', next to a sibling whose name is a prefix of it: members `X` and
    `X/Y` where Y is a keyword path of X (`a` and `a/not`, `list` and `list/items`, `x` and `x/type`, `` and `/`). References:
      raw      #/$defs/X/Y    designates the location Y inside member X (RFC 6901 splits at every '/'), or nothing when X has no
                              subschema there (Y is not a schema-valued keyword, X is absent, Y is empty) — never the member `X/Y`;
      escaped  #/$defs/X~1Y   designates the member named `X/Y`, or nothing when there is none — never X's subschema;
      prefix   #/$defs/X      designates X.
    The resource that holds the definitions is the root, an embedded $id resource, or a Loader document. `spell(ptr)` renders the
    pointer as a URI fragment (default: canonical percent-encoding; C17 passes over-encoded spellings such as %2F for '/': RFC 3986
    decoding precedes the split into segments, so every spelling designates the same location).
    Returns (args, meta): meta.expect = expected verdicts (None when some reference designates nothing: then
    meta.expect_outcome = 'resolve-error')."""
    defs_kw = "$defs" if draft == "2020" else "definitions"
    if spell is None:
        spell = frag_encode
    mark_n = [0]

    def new_mark():
        mark_n[0] += 1
        return "S%d" % mark_n[0]

    defs = Obj()
    fams = []
    for X in rng.sample(["a", "x", "", "list", "t0", "é", "a b", "%", "a/b", "0"], rng.randint(1, 3)):
        r = rng.random()
        if r < 0.5:
            Y, holds_ok = rng.choice(SLASH_KW1), True
        elif r < 0.7:
            Y, holds_ok = rng.choice(["allOf/0", "properties/k", defs_kw + "/in", "anyOf/1"]), True
        elif r < 0.9:
            Y, holds_ok = rng.choice(SLASH_NONSCHEMA), False
        else:
            Y, holds_ok = "", False
        fam = {"X": X, "Y": Y, "mx": None, "my": None, "mz": None}
        if rng.random() < 0.85:
            body = Obj()
            holds = holds_ok and rng.random() < 0.75
            if holds:
                fam["my"] = new_mark()
                sub = Obj([("const", fam["my"])])
                segs = Y.split("/")
                if segs[0] in ("allOf", "anyOf"):
                    body.set(segs[0], [Obj([("const", "none")])] * int(segs[1]) + [sub])
                elif len(segs) == 2:
                    body.set(segs[0], Obj([(segs[1], sub)]))
                else:
                    body.set(Y, sub)
            if not (holds and Y.split("/")[0] in ("allOf", "anyOf")):     # (there X would accept no mark / several marks: X is no target)
                fam["mx"] = new_mark()
                body.set("const", fam["mx"])
            if not holds_ok and Y in ("type", "title", "minimum") and rng.random() < 0.5:
                body.set(Y, {"type": "string", "title": "t", "minimum": Num("0")}[Y])     # the keyword is there, but is no subschema
            if not holds_ok and Y == "required/0" and rng.random() < 0.5:
                body.set("required", ["r"])
            fam["has_x"] = True
            defs.kvs.append((X, body))
        else:
            fam["has_x"] = False
        if rng.random() < 0.85:
            fam["mz"] = new_mark()
            defs.kvs.append((X + "/" + Y, Obj([("const", fam["mz"])])))
        fams.append(fam)
    # names must be distinct (a family's slashed name can coincide with another family's prefix, e.g. "a/b")
    seen, kvs = set(), []
    for k, v in defs.kvs:
        if k in seen:
            return slash_defs(rng, draft, spell, where)
        seen.add(k)
        kvs.append((k, v))
    rng.shuffle(kvs)
    defs.kvs = kvs
    where = where or rng.choice(["root", "root", "embedded", "loaded"])
    prefix = {"root": "", "embedded": "http://x.test/sl/emb.json", "loaded": "http://x.test/sl/doc.json"}[where]
    props, expect_t, dangling = Obj(), [], False
    allow_dangling = rng.random() < 0.35
    for i in range(rng.randint(2, 4)):
        fam = rng.choice(fams)
        X, Y = fam["X"], fam["Y"]
        form = rng.choice(["raw", "raw", "escaped", "prefix"])
        if form == "raw":
            # (X itself may contain '/', e.g. "a/b": written escaped; the X|Y boundary and the separators inside Y are raw)
            ptr, m = "/" + defs_kw + "/" + ptr_escape(X) + "/" + Y, fam["my"]
        elif form == "escaped":
            ptr, m = "/" + defs_kw + "/" + ptr_escape(X + "/" + Y), fam["mz"]
        else:
            ptr, m = "/" + defs_kw + "/" + ptr_escape(X), fam["mx"]
            if m is None and fam["has_x"]:
                continue      # X is there but carries no mark of its own (allOf / anyOf holder)
        if m is None:
            if not allow_dangling:
                continue
            dangling = True
        props.kvs.append(("p%d" % i, Obj([("$ref", prefix + "#" + spell(ptr))])))
        expect_t.append(("p%d" % i, m))
    if not expect_t:
        return slash_defs(rng, draft, spell, where)
    d7 = [("$schema", "http://json-schema.org/draft-07/schema#")] if draft == "7" else []
    docs = []
    if where == "root":
        root = Obj(d7 + [(defs_kw, defs), ("properties", props)])
    elif where == "embedded":
        root = Obj(d7 + [("$id", "http://x.test/sl/root.json"), (defs_kw, Obj([("E", Obj([("$id", "emb.json"), (defs_kw, defs)]))])), ("properties", props)])
    else:
        root = Obj(d7 + [("properties", props)])
        docs = [["http://x.test/sl/doc.json", Obj([(defs_kw, defs)])]]
    marks = ["S%d" % k for k in range(1, mark_n[0] + 1)]
    insts, expect = [], []
    for pn, m in expect_t:
        for mm in sorted(set(([m] if m else []) + rng.sample(marks, min(3, len(marks))))):
            insts.append(Obj([(pn, mm)]))
            expect.append(mm == m)
    args = {"schema": root, "insts": insts}
    if docs:
        args.update({"docs": docs, "base": "http://x.test/sl/root.json", "loader": True})
    meta = {"kind": "slashdefs", "expect": None if dangling else expect, "expect_outcome": "resolve-error" if dangling else "resolved",
            "nrefs": len(expect_t), "nptr": len(expect_t), "where": where}
    return args, meta


# (all but the last are spelled the way net/url writes them back, so the Loader — keyed by URL.String() — finds the documents; the last
# is re-spelled by net/url (%41 -> A): there Resolve ends with a load error, which is a return too)
USERINFO = ["user@", "reader@", "u:p@", "a.b:@", "u;v=1@", "u:p%3Aq@", "x%40y:p@", "u$&+,;=:-._~@", "user@", "u:p@", "%41lice:pw@"]


def userinfo_cycle(rng):
    """Loader documents that name each other by ABSOLUTE URIs with a userinfo part (http://user@host/…, http://u:p@host/…) and form a
    reference cycle (a ring A -> B [-> C] -> A, or a rho A -> B -> C -> B); every hop passes through an instance-descending keyword.
    The root is the first document itself (its URI given by BaseURI, or by an absolute $id with userinfo) or a separate document
    that refers to it. Back references are mostly absolute (userinfo spelled out again in every $ref), sometimes relative.
    The Lean model of net/url does not parse userinfo (Model/Uri.lean: 'outside the modelled subset'), so the op is `validate-go`
    (never sent to the model) and only C10 uses it: Resolve must RETURN. The Loader gives up after `maxLoads` requests — far more than
    the universe has documents —, which turns a load/resolve recursion that would never end into an `overrun` reply.
    Returns (args, meta)."""
    ui = rng.choice(USERINFO)
    host = rng.choice(["s.test", "s.test:8080", "schemas.example.com", "[::1]:81"])
    scheme = rng.choice(["http", "https"])
    k = rng.choice([2, 2, 3])
    pre = "%s://%s%s/ui/" % (scheme, ui, host)
    uris = [pre + "d%d.json" % i for i in range(k)]
    shape = rng.choice(["ring", "ring", "rho"]) if k == 3 else "ring"
    nxt = {i: (i + 1) % k for i in range(k)}
    if shape == "rho":
        nxt[k - 1] = 1
    bodies = []
    for i in range(k):
        j = nxt[i]
        r = rng.random()
        if r < 0.75:
            ref = uris[j]                                   # absolute, userinfo spelled again
        elif r < 0.9:
            ref = "d%d.json" % j                            # relative: inherits the base's userinfo
        else:
            ref = "//%s%s/ui/d%d.json" % (ui, host, j)      # network-path reference with userinfo
        if rng.random() < 0.3:
            ref += rng.choice(["#", "#/properties/m%d" % j])
        link = Obj([("$ref", ref)])
        body = []
        if rng.random() < 0.3:
            body.append(("$id", uris[i]))
        props = Obj([("m%d" % i, Obj([("const", "doc%d" % i)]))])
        via = rng.choice(["properties", "properties", "items", "additionalProperties"])
        if via == "properties":
            props.set("next", link)
            body.append(("properties", props))
        else:
            body += [("properties", props), (via, link)]
        bodies.append(Obj(body))
    docs = [[uris[i], bodies[i]] for i in range(k)]
    r = rng.random()
    if r < 0.4:
        root, base = Obj(list(bodies[0].kvs)), uris[0]
    elif r < 0.6:
        root, base = Obj(list(bodies[0].kvs)), ""
        if root.get("$id") is None:
            root.kvs.insert(0, ("$id", uris[0]))
    else:
        root, base = Obj([("properties", Obj([("next", Obj([("$ref", uris[0])]))]))]), rng.choice(["http://x.test/app.json", pre + "root.json", ""])
    insts = []
    for i in range(k):
        inner = Obj([("m%d" % i, "doc%d" % rng.randrange(k))])
        insts += [inner, Obj([("next", inner)]), Obj([("next", Obj([("next", inner)]))]), [inner], Obj([("zz", inner)])]
    rng.shuffle(insts)
    args = {"schema": root, "docs": docs, "base": base, "loader": True, "insts": insts[:6], "maxLoads": 8 * k + 16}
    return args, {"universe": True, "userinfo": True, "ndocs": k, "shape": shape}


def _marked_insts(rng, targets, marks):
    """instances {p<i>: mark} for every reference i and a few marks; expectation: valid iff the mark is that of the designated target"""
    insts, expect = [], []
    for i, tm in enumerate(targets):
        for m in set(rng.sample(marks, min(len(marks), 2)) + ([tm] if tm else [])):
            insts.append(Obj([("p%d" % i, m)]))
            expect.append(tm is not None and m == tm)
    return insts, expect


def query_universe(rng, draft="2020"):
    """References that consist of a QUERY (and perhaps a fragment) and no path: `?v=2`, `?v=2#/$defs/t`, `?rev=7#A`. RFC 3986 5.2.2: the
    base's path is kept and its query REPLACED, which names another resource than the referring one — here a resource embedded in the root
    (`$id: ?v=2`, relative or spelled out), a Loader document (`<base path>?rev=7`), or nothing (the Loader is asked and has no such
    document / there is no Loader: Resolve must fail). Every resource has a definition `t` and an anchor `A` of its own, so a reference
    that lands in the wrong resource shows. Beside them the neighbours: same-document `#A`, `#/$defs/t`, `<file>?v=2#A`, the base's own
    query. Returns (args, meta) with expectations by construction (urljoin)."""
    dk = "$defs" if draft == "2020" else "definitions"
    base = rng.choice([SITE + "/d/root.json", SITE + "/d/root.json?v=1", "https://h.test/p/q/root.json", SITE + "/d/sub/r.json?rev=1&x=y"])
    file_ = urlsplit(base).path.rsplit("/", 1)[1]

    def res(m, mroot):
        t = Obj([("const", m)])
        t.kvs.insert(0, ("$anchor", "A") if draft == "2020" else ("$id", "#A"))
        o = Obj([(dk, Obj([("t", t)]))])
        if mroot:
            o.set("const", mroot)
        return o
    root = res("M0", None)
    if draft == "7":
        root.kvs.insert(0, ("$schema", "http://json-schema.org/draft-07/schema#"))
    q_emb, q_doc = rng.sample(["?v=2", "?rev=7", "?a=b&c=d", "?x", "?v=1.0", "?q=%2F"], 2)
    where = {}            # query -> (mark of t, mark of the resource root)
    docs = []
    if rng.random() < 0.9:
        e = res("M1", "ME")
        e.kvs.insert(0, ("$id", q_emb if rng.random() < 0.6 else urljoin(base, q_emb)))
        root.get(dk).set(rng.choice(["emb", "0e", "zz"]), e)
        where[q_emb] = ("M1", "ME")
    if rng.random() < 0.9:
        d = res("M2", "ML")
        if draft == "7" and rng.random() < 0.5:
            d.kvs.insert(0, ("$schema", "http://json-schema.org/draft-07/schema#"))
        docs.append([urljoin(base, q_doc), d])
        where[q_doc] = ("M2", "ML")
    loader = bool(docs) or rng.random() < 0.5
    props, targets = Obj(), []
    dangling = False
    for i in range(rng.randint(2, 5)):
        r = rng.random()
        if r < 0.2:
            ref, tm = rng.choice([("#A", "M0"), ("#/" + dk + "/t", "M0")])
            if urlsplit(base).query and rng.random() < 0.5:
                ref = "?" + urlsplit(base).query + ref            # the base's own query: the same resource
        else:
            q = rng.choice([q_emb] * 4 + [q_doc] * 4 + ["?nosuch=1", "?v=3"]) if rng.random() < 0.7 else rng.choice(list(where) or ["?v=3"])
            kind = rng.choice(["ptr", "ptr", "anchor", "root"])
            frag = {"ptr": "#/" + dk + "/t", "anchor": "#A", "root": rng.choice(["", "#"])}[kind]
            pre = rng.choice(["", "", "", file_, "./" + file_])
            ref = pre + q + frag
            if q in where:
                tm = where[q][1] if kind == "root" else where[q][0]
            else:
                tm = None
                dangling = True
        props.kvs.append(("p%d" % i, Obj([("$ref" if draft == "7" or rng.random() < 0.9 else "$dynamicRef", ref)])))
        targets.append(tm)
    root.set("properties", props)
    insts, expect = _marked_insts(rng, targets, ["M0", "M1", "M2", "ME", "ML", "zz"])
    args = {"schema": root, "docs": docs, "base": base, "loader": loader, "insts": insts}
    meta = {"kind": "universe", "nrefs": len(targets), "query_refs": True, "dangling": dangling,
            "expect": None if dangling else expect, "expect_outcome": "resolve-error" if dangling else "resolved"}
    return args, meta


def d7_path_fragment_id(rng):
    """draft-07 `$id`s that have BOTH a non-fragment part and a plain-name fragment (`item.json#node`, `http://x.test/y#node`). Such an
    `$id` defines no plain name `node` in the enclosing resource (the package registers the whole text as the name; the model follows it):
    `#node` there designates the subschema whose `$id` is exactly `#node` — declared before or after the other in document / key order —
    or nothing (Resolve must fail); `item.json#node` is a reference to another document (Loader). The carrying subschema stays
    addressable by pointer. The document is the draft-07 root, or a `$schema`-less Loader document that inherits draft-07 from it."""
    d7 = rng.choice(["http://json-schema.org/draft-07/schema#", "https://json-schema.org/draft-07/schema#"])
    base = rng.choice([SITE + "/d/root.json", "https://h.test/p/q/root.json", SITE + "/d/sub/deep/r.json"])
    name = rng.choice(["node", "n1", "A", "item"])
    path = rng.choice(["item.json", "sub/i.json", "../k.json", SITE + "/y", "/abs/x4.json", "item.json?v=2"])
    in_lib = rng.random() < 0.3
    doc_uri = urljoin(base, "lib.json") if in_lib else base
    k_mixed, k_plain, k_other = rng.sample(["a", "m", "z", "0", "node", "B"], 3)
    entries = [(k_mixed, Obj([("$id", path + "#" + name), ("const", "M1")]))]
    have_plain = rng.random() < 0.5
    if have_plain:
        entries.append((k_plain, Obj([("$id", "#" + name), ("const", "M2")])))
    entries.append((k_other, Obj([("$id", "#other"), ("const", "M3")])))
    rng.shuffle(entries)
    body = Obj([("definitions", Obj(entries))])
    docs = []
    remote_uri = urljoin(doc_uri, path)
    have_remote = rng.random() < 0.6
    if have_remote:
        rd = Obj([("definitions", Obj([("k", Obj([("$id", "#" + name), ("const", "M4")]))]))])
        if rng.random() < 0.5:
            rd.kvs.insert(0, ("$schema", d7))
        docs.append([remote_uri, rd])
    props, targets, dangling = Obj(), [], False
    forms = rng.sample(["plain", "plain", "abs", "ptr", "remote", "other"], rng.randint(2, 4))
    for i, f in enumerate(forms):
        if f in ("plain", "abs"):
            ref = ("#" if f == "plain" else doc_uri + "#") + name
            tm = "M2" if have_plain else None
        elif f == "ptr":
            ref, tm = "#/definitions/" + k_mixed, "M1"
        elif f == "other":
            ref, tm = "#other", "M3"
        else:
            ref, tm = path + "#" + name, ("M4" if have_remote else None)
        dangling = dangling or tm is None
        props.kvs.append(("p%d" % i, Obj([("$ref", ref)])))
        targets.append(tm)
    body.set("properties", props)
    if in_lib:
        root = Obj([("$schema", d7), ("allOf", [Obj([("$ref", rng.choice(["lib.json", doc_uri]))])])])
        docs.append([doc_uri, body])
    else:
        body.kvs.insert(0, ("$schema", d7))
        root = body
    insts, expect = _marked_insts(rng, targets, ["M1", "M2", "M3", "M4", "zz"])
    args = {"schema": root, "docs": docs, "base": base, "loader": True if docs else rng.random() < 0.5, "insts": insts}
    meta = {"kind": "universe", "nrefs": len(targets), "d7_mixed_id": True, "dangling": dangling,
            "expect": None if dangling else expect, "expect_outcome": "resolve-error" if dangling else "resolved"}
    return args, meta
