"""Comparing ordered JSON values (key order significant, numbers by value)."""
from fractions import Fraction

from .wire import Obj, Num


def _num(q):
    """Numbers of magnitude >= 2^53 are compared as float64 values: the number-valued Schema fields are float64 and
    encoding/json prints the shortest decimal that reads back as the same float64 (2^64 is printed 18446744073709552000),
    so the exact decimal text is not the observable there (float formatting is in the trusted base)."""
    if abs(q) >= 2 ** 53:
        return ("n", Fraction(repr(float(q))))
    return ("n", q)


def norm(v):
    if isinstance(v, Num):
        return _num(Fraction(v.text))
    if isinstance(v, bool) or v is None:
        return ("c", v)
    if isinstance(v, (int, Fraction, float)):
        return _num(Fraction(v))
    if isinstance(v, str):
        return ("s", v)
    if isinstance(v, list):
        return ("a", tuple(norm(x) for x in v))
    if isinstance(v, Obj):
        return ("o", tuple((k, norm(x)) for k, x in v.kvs))
    raise TypeError(type(v))


def same_ordered(a, b):
    return norm(a) == norm(b)
