"""Comparing ordered JSON values (key order significant, numbers by value)."""
from fractions import Fraction

from .wire import Obj, Num


def norm(v):
    if isinstance(v, Num):
        return ("n", Fraction(v.text))
    if isinstance(v, bool) or v is None:
        return ("c", v)
    if isinstance(v, (int, Fraction, float)):
        return ("n", Fraction(v))
    if isinstance(v, str):
        return ("s", v)
    if isinstance(v, list):
        return ("a", tuple(norm(x) for x in v))
    if isinstance(v, Obj):
        return ("o", tuple((k, norm(x)) for k, x in v.kvs))
    raise TypeError(type(v))


def same_ordered(a, b):
    return norm(a) == norm(b)
