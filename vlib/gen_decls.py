"""Declared Go struct types generated per run (seeded) and compiled into the harness through a build overlay.

reflect.StructOf cannot make embedded fields, so everything about promotion, shadowing and TypeSchemas overrides of embedded types
needs *declared* types. The declarations are written so that they stay inside the domain of C04/C09/C16:

* the JSON name of a field is a function of its Go name (tag name = lower-cased Go name, or no tag name), so Go's selector shadowing
  (what reflect.VisibleFields sees) and encoding/json's dominance by JSON name coincide;
* two embedded structs of one struct have disjoint promoted names (no equal-depth ambiguity);
* embedded fields carry no json tag and are exported struct types (by value or by pointer).

A small share of the declarations is of the "redeclared" form: a field declared *after* the embedded struct whose JSON name equals a
promoted one under another Go name. encoding/json emits the shallower field; For keeps the last occurrence, which is the same field.
The only symptom of known finding D14 there is a duplicate entry in `required`; everything else must agree."""

GO_NAMES = ["A", "B", "C", "D", "E", "F", "G", "Kind", "Unit", "X", "Y", "Line", "Item", "Naive", "Wide", "Thai"]
PLAIN_NAMES = {"E", "F", "G"}      # never given a tag name: their JSON name is the Go name (untagged, or a name-less tag)
# tag names outside ASCII: encoding/json accepts every Unicode letter and every Unicode decimal digit (category Nd) in a tag name
JSON_OF = {"Line": "\u0633\u0637\u0631\u0661", "Item": "\u9805\u76ee\uff12", "Naive": "na\u00efve", "Wide": "x\uff11", "Thai": "\u0e01\u0e53"}


def jname(g):
    """The JSON name of the field with Go name g (a function of the Go name: see above)."""
    return g if g in PLAIN_NAMES else JSON_OF.get(g, g.lower())


SIMPLE = ["bool", "int", "int8", "int16", "int32", "int64", "uint", "uint8", "uint16", "uint32", "uint64", "float32", "float64",
          "string", "any", "*int", "*string", "[]int", "[]string", "map[string]int", "[2]bool", "*[]int", "**int", "*[]*string",
          "[]*int8", "map[string]*uint16", "time.Time", "*time.Time", "Inner", "*Inner", "[]Inner", "MyInt", "MyString",
          "MyInt8", "MyUint16", "*MyUint", "[]MyInt8", "map[string]MyUint16", "*any", "[]*any", "struct{}", "map[string]struct{}", "Empty"]
# (the last three: an option spelled with a blank is an UNKNOWN option for encoding/json, which trims nothing: the field is always
# written; blanks next to the NAME would change the JSON name and are left to gen_types.BLANK_TAGS)
OPTS = ["", "", "", ",omitempty", ",omitzero", ",omitempty,omitzero", ",omitempty", ",omitzero", "", ", omitempty", ",omitzero ", ",omitempty , omitzero"]


# the families of gen_families of the last gen_decls call: family -> bank names (see gen_families)
FAMILIES = {}


def gen_families(rng, count):
    """Declared struct types at the corners of encoding/json's field selection that lie INSIDE the domain (the library agrees with
    encoding/json on them) but that the main generator above deliberately stays away from. Returns (lines, families); `count`
    variants per family, every choice from `rng` (a generator of its own: the declarations above do not depend on these).

    inline        an embedded struct (value / pointer) whose json tag has options but NO name (`json:",inline"`, `json:",omitempty"`,
                  `json:""`, `json:","` ...): encoding/json still promotes its fields; only a tag NAME makes it an ordinary field (D16)
    clash         two fields at the SAME depth with one JSON name, one by its Go name (untagged or name-less tag), the other renamed
                  onto it by its tag and declared LATER (directly, or through two embedded structs, or below a further embedding):
                  encoding/json keeps the tagged one, and so does For (the last declared one)
    clash_d14     the same with the tagged field declared FIRST, or optional: For and encoding/json differ (known finding D14)
    diamond       one struct reached along two embedding paths of EQUAL depth: its fields are ambiguous, encoding/json drops them
    diamond_near  the neighbours: the same structs along one path only, and at two different depths (the shallower one wins)"""
    lines = []
    fam = {"inline": [], "clash": [], "clash_d14": [], "diamond": [], "diamond_near": []}
    kinds = {"string": ["string", "MyString", "*string"], "integer": ["int", "int64", "uint8", "int16", "MyInt", "*int32"],
             "boolean": ["bool", "MyBool"], "array": ["[]int", "[2]bool", "[]string"], "object": ["Inner", "map[string]int", "Empty"]}
    nameless = [",inline", ",omitempty", ",omitzero", "", ",", ",omitempty,omitzero", ",inline,omitempty"]

    def decl(name, fields):
        lines.append("type %s struct {" % name)
        lines.extend("\t" + f for f in fields)
        lines.append("}")
        lines.append("")

    def wrap(name, emb):
        return ("*" if emb else "") + name

    for i in range(count):
        # ---- inline
        base = "GenIn%dB" % i
        bf = []
        for g in rng.sample(["Kind", "Version", "By", "At"], rng.randint(1, 3)):
            t = rng.choice(SIMPLE[:26])
            bf.append(rng.choice(['%s %s `json:"%s"`' % (g, t, g.lower()), '%s %s `json:"%s,omitempty"`' % (g, t, g.lower()), '%s %s' % (g, t)]))
        decl(base, bf)
        own = ['%s %s `json:"%s%s"`' % (g, rng.choice(SIMPLE[:26]), g.lower(), rng.choice(OPTS)) for g in rng.sample(["Name", "N", "Z", "Wide"], rng.randint(0, 3))]
        emb = rng.choice([base, base, "*" + base, rng.choice(["Inner", "*Inner", "IDt"])])
        own.insert(rng.randint(0, len(own)), '%s `json:"%s"`' % (emb, rng.choice(nameless)))
        decl("GenIn%d" % i, own)
        fam["inline"].append("GenIn%d" % i)
        if rng.random() < 0.5:
            decl("GenIn%dN" % i, ['Outer GenIn%d `json:"outer"`' % i, 'List []%sGenIn%d' % (rng.choice(["", "*"]), i)])
            fam["inline"].append("GenIn%dN" % i)
        # ---- clash
        for order in ("clash", "clash_d14"):
            nm = "GenCl%d%s" % (i, "" if order == "clash" else "K")
            jn = rng.choice(["Name", "ID", "Key", "Val"])
            k1, k2 = rng.sample(sorted(kinds), 2)
            t1, t2 = rng.choice(kinds[k1]), rng.choice(kinds[k2])
            plain = rng.choice(['%s %s' % (jn, t1), '%s %s' % (jn, t1), '%s %s `json:",omitempty"`' % (jn, t1), '%s %s `jsonschema:"the %s"`' % (jn, t1, jn)])
            topt = ""
            if order == "clash_d14" and rng.random() < 0.3:
                topt = rng.choice([",omitempty", ",omitzero"])
            tagged = 'Alias%d %s `json:"%s%s"`' % (i, t2, jn, topt)
            first_tagged = order == "clash_d14" and (not topt or rng.random() < 0.5)
            if rng.random() < 0.5:
                fs = [tagged, plain] if first_tagged else [plain, tagged]
                if rng.random() < 0.6:
                    fs.insert(rng.randint(0, 2), "Other bool")
                if rng.random() < 0.3:
                    fs.append('Rev uint16 `json:"rev,omitempty"`')
                decl(nm, fs)
            else:
                decl(nm + "L", [plain] + (['Note string `json:"note,omitempty"`'] if rng.random() < 0.5 else []))
                decl(nm + "C", [tagged])
                l, c = wrap(nm + "L", rng.random() < 0.3), wrap(nm + "C", rng.random() < 0.3)
                fs = [c, l] if first_tagged else [l, c]
                fs.insert(rng.randint(0, 2), 'Rev uint16 `json:"rev"`')
                decl(nm, fs)
            fam[order].append(nm)
            if rng.random() < 0.4:
                decl(nm + "E", [wrap(nm, rng.random() < 0.6), 'Tags []string `json:"tags"`'])
                fam[order].append(nm + "E")
        # ---- diamond
        d = "GenDm%d" % i
        mf = []
        for g, ts in rng.sample([("ID", ["int64", "string", "MyInt"]), ("Rev", ["uint8", "int", "bool"]), ("Stamp", ["string", "*int", "[]int"])], rng.randint(1, 2)):
            t = rng.choice(ts)
            mf.append(rng.choice(['%s %s' % (g, t), '%s %s `json:"%s"`' % (g, t, g.lower()), '%s %s `json:"%s,omitempty"`' % (g, t, g.lower()),
                                  '%s %s `json:",omitempty"`' % (g, t), '%s %s `json:"%s,omitzero"`' % (g, t, g.lower())]))
        decl(d + "M", mf)
        decl(d + "L", [wrap(d + "M", rng.random() < 0.3), rng.choice(['By string', 'By string `json:"by"`', 'By *string `json:"by,omitempty"`'])])
        decl(d + "R", [rng.choice(['At string `json:"at"`', 'At int64']), wrap(d + "M", rng.random() < 0.3)])
        fs = [wrap(d + "L", rng.random() < 0.25), wrap(d + "R", rng.random() < 0.25)]
        rng.shuffle(fs)
        if rng.random() < 0.7:
            fs.insert(rng.randint(0, 2), rng.choice(['Title string', 'Title string `json:"title,omitempty"`']))
        decl(d, fs)
        fam["diamond"].append(d)
        if rng.random() < 0.4:
            decl(d + "E", [wrap(d, rng.random() < 0.5), 'Tags []string `json:"tags"`'])
            fam["diamond"].append(d + "E")
        decl(d + "S", [wrap(d + "L", rng.random() < 0.3), 'Title string'])
        decl(d + "T", [d + "M", d + "R"] if rng.random() < 0.5 else [d + "R", d + "M"])
        fam["diamond_near"] += [d + "S", d + "T"]
    return lines, fam


def gen_decls(rng, count):
    """Returns (go source text, infos, locals). infos[i] = {"name", "fields": [...], "embeds": [names], "promoted": set of Go names,
    "redeclared": bool, "depth": int}; locals = lists of bank names of DIFFERENT struct types that share name and package path.

    About one declared type in five has an UNEXPORTED type name (genT7): embedded (by value) in a later struct it is an unexported
    field for reflect, and encoding/json still promotes its exported fields."""
    infos = []
    lines = ["// Code generated by /verif/vlib/gen_decls.py for one check run. DO NOT EDIT.", "", "package main", "",
             'import (', '\t"reflect"', '\t"time"', ')', "", "var _ time.Time", ""]
    for i in range(count):
        name = ("genT%d" if i % 5 == 3 or i % 7 == 5 else "GenT%d") % i
        fields, embeds = [], []
        visible = {}        # Go name -> json name, of everything visible in this struct so far (own + promoted)
        own = set()
        own_json = set()    # JSON names of the fields declared directly in this struct: never twice (equal-depth conflicts are dropped by encoding/json)
        redeclared = False
        depth = 1
        # a struct with a redeclared JSON name is never embedded further: under another struct that declares that JSON name before the
        # embedded field, For and encoding/json pick different fields (the class of known finding D14)
        cands = [x for x in infos if x["depth"] <= 3 and not x["redeclared"]]
        n_embed = 0
        if cands and rng.random() < 0.7:
            n_embed = 1 if rng.random() < 0.75 else 2
        chosen = []
        for _ in range(n_embed):
            e = rng.choice(cands)
            if e in chosen:
                continue
            if any(set(e["visible"]) & set(c["visible"]) for c in chosen):
                continue        # no equal-depth ambiguity
            chosen.append(e)
        # interleave own fields and embeds
        slots = ["own"] * rng.randint(0, 4) + ["embed"] * len(chosen)
        rng.shuffle(slots)
        if chosen and rng.random() < 0.25:
            slots += ["redecl"] * rng.randint(2, 4)     # several promoted JSON names declared again, one after the other
        ci = 0
        after_embed_names = {}
        for s in slots:
            if s == "embed":
                e = chosen[ci]
                ci += 1
                # (encoding/json cannot decode into an embedded POINTER to an unexported struct type: those are embedded by value)
                ptr = rng.random() < 0.3 and e["name"][0].isupper()
                fields.append("\t%s%s" % ("*" if ptr else "", e["name"]))
                embeds.append(e["name"])
                depth = max(depth, e["depth"] + 1)
                for g, j in e["visible"].items():
                    if g not in own:
                        visible.setdefault(g, j)
                        after_embed_names[g] = j
                continue
            if (s == "redecl" or rng.random() < 0.12) and after_embed_names:
                # redeclared form: another Go name, the JSON name of a promoted field, declared after the embedded struct
                free = [x for x in sorted(after_embed_names.items()) if x[1] not in own_json]
                if not free:
                    continue
                g0, j0 = free[0] if s == "redecl" else rng.choice(free)
                g = g0 + "Re"
                if g in own or g in visible or j0 in own_json:
                    continue
                own.add(g)
                own_json.add(j0)
                redeclared = True
                # no omitempty / omitzero here: `required` is the union over dominated fields too (known finding D14), so an
                # optional field that redeclares a required one would be reported as required
                fields.append('\t%s %s `json:"%s"`' % (g, rng.choice(SIMPLE), j0))
                visible[g] = j0
                continue
            if s == "redecl":
                continue
            g = rng.choice(GO_NAMES)
            if g in own or jname(g) in own_json:
                continue
            own.add(g)
            own_json.add(jname(g))
            j = jname(g)
            opt = rng.choice(OPTS)
            style = rng.random()
            t = rng.choice(SIMPLE)
            if rng.random() < 0.25 and infos:
                d = rng.choice(infos)
                t = rng.choice(["%s", "*%s", "[]%s", "map[string]%s"]) % d["name"]
                depth = max(depth, d["depth"] + 1)
            if g in PLAIN_NAMES:
                j = g
                if opt and style < 0.6:
                    fields.append('\t%s %s `json:"%s"`' % (g, t, opt))   # name-less tag: the JSON name is the Go name
                elif style < 0.8:
                    fields.append('\t%s %s' % (g, t))                      # untagged
                else:
                    fields.append('\t%s %s `jsonschema:"about %s"`' % (g, t, g))
            elif style < 0.85:
                fields.append('\t%s %s `json:"%s%s"`' % (g, t, j, opt))
            else:
                fields.append('\t%s %s `json:"%s%s" jsonschema:"about %s"`' % (g, t, j, opt, g))
            visible[g] = j
        lines.append("type %s struct {" % name)
        lines += fields
        lines.append("}")
        lines.append("")
        infos.append({"name": name, "embeds": embeds, "visible": visible, "redeclared": redeclared or any(
            x["redeclared"] for x in infos if x["name"] in embeds), "depth": depth, "nfields": len(fields)})
    # DIFFERENT declared struct types with the SAME name and package path: function-local declarations (reflect: equal Name(),
    # equal PkgPath(), different Types). Leaves only (simple field types), drawn from a generator of their own so that the
    # declarations above do not depend on them.
    import random
    lrng = random.Random(rng.random())
    locs = []
    for p in range(max(2, count // 8)):
        tn = lrng.choice(["Item", "Entry", "Node"])
        variants, seen_bodies = [], set()
        while len(variants) < lrng.choice([2, 2, 3]):
            fs = []
            for g in lrng.sample(["N", "V", "Kind", "Unit"], lrng.randint(1, 2)):
                t = lrng.choice(["int8", "string", "bool", "int", "uint16", "float64", "[]string", "*int32", "map[string]bool", "[2]int", "Inner", "MyInt8"])
                fs.append('%s %s `json:"%s%s"`' % (g, t, g.lower(), lrng.choice(OPTS)))
            body = "; ".join(fs)
            if body in seen_bodies:
                continue
            seen_bodies.add(body)
            bname = "GenL%d%s" % (p, "abc"[len(variants)])
            lines.append("func local%s() reflect.Type { type %s struct { %s }; return reflect.TypeFor[%s]() }" % (bname, tn, body, tn))
            variants.append(bname)
        locs.append(variants)
    flines, fams = gen_families(random.Random(rng.random()), max(3, count // 8))
    lines += flines
    # TAIL layouts (a generator of their own, drawn last: the declarations above do not depend on them): a struct E embedded BY VALUE
    # as the LAST field of its embedder M (or, for the neighbours, followed by one sibling), M embedded in O (value / pointer) with
    # 1-2 SHALLOWER own fields declared after it, now and then O embedded the same way one level further up: in the depth-first
    # field walk the fields promoted through E (index paths of length 3, 4) are directly followed by a field of O (length 1).
    # Same rules as above: JSON name = function of the Go name, promoted names disjoint from own names, no redeclaration.
    trng = random.Random(rng.random())
    for p in range(max(3, count // 6)):
        cands = [x for x in infos if x["depth"] <= 3 and not x["redeclared"] and x["visible"]]
        if not cands:
            break
        e = trng.choice(cands)
        prev = e
        for lvl, suffix in enumerate(["M", "O", "X"][:trng.choice([2, 2, 2, 3])]):
            name = "GenTail%d%s" % (p, suffix)
            visible = dict(prev["visible"])
            free = [g for g in GO_NAMES if g not in visible]
            trng.shuffle(free)

            def ownf():
                g = free.pop()
                visible[g] = jname(g)
                t = trng.choice(SIMPLE)
                if g in PLAIN_NAMES:
                    return '\t%s %s' % (g, t)
                return '\t%s %s `json:"%s%s"`' % (g, t, jname(g), trng.choice(OPTS))
            n_before = trng.randint(0, 2)
            n_after = (1 if trng.random() < 0.25 else 0) if lvl == 0 else trng.randint(1, 2)
            if len(free) < n_before + n_after:
                break
            fields = [ownf() for _ in range(n_before)]
            ptr = lvl > 0 and trng.random() < 0.3 and prev["name"][0].isupper()
            fields.append("\t%s%s" % ("*" if ptr else "", prev["name"]))
            fields += [ownf() for _ in range(n_after)]
            lines.append("type %s struct {" % name)
            lines += fields
            lines.append("}")
            lines.append("")
            info = {"name": name, "embeds": [prev["name"]], "visible": visible, "redeclared": False, "depth": prev["depth"] + 1,
                    "nfields": len(fields)}
            infos.append(info)
            prev = info
    FAMILIES.clear()
    FAMILIES.update(fams)
    lines.append("")
    lines.append("func init() {")
    for x in infos:
        lines.append('\tbank["%s"] = reflect.TypeFor[%s]()' % (x["name"], x["name"]))
    for n in sorted({n for ns in fams.values() for n in ns}):
        lines.append('\tbank["%s"] = reflect.TypeFor[%s]()' % (n, n))
    for vs in locs:
        for b in vs:
            lines.append('\tbank["%s"] = local%s()' % (b, b))
    lines.append("}")
    lines.append("")
    return "\n".join(lines), infos, locs
