"""Go type descriptors for For/ForType (harness/gotype.go builds them with reflect or takes them from its bank)."""

BASIC = ["bool", "int", "int8", "int16", "int32", "int64", "uint", "uint8", "uint16", "uint32", "uint64", "uintptr",
         "float32", "float64", "string", "any"]
BANK_PLAIN = ["Inner", "Deep", "EmbedVal", "EmbedPtr", "Shadow", "EmbedUnexported", "Named", "Twice", "DescTag", "MyString", "MyInt",
              "MyFloat", "MyInts", "time.Time", "slog.Level", "MyInt8", "MyUint16", "MyUint", "MyInt64", "MyBool", "Levels", "Empty", "Markers", "IDt", "BaseT", "DocT", "DocP", "TwoEmb", "PtrInt", "PtrInner", "HoldsPtrs", "Vec3", "Grid"]
BANK_KNOWN = {"ShadowByTag": "D14", "Ambiguous": "D14", "EmbedTagged": "D16", "EmbedNonStruct": "D16", "BadTag": "D15",
              "WithMarshalers": "D13", "big.Int": "D13"}
# recursive declared types: structs, defined pointer types, and defined ARRAY types whose cycle passes through named array types only
# (`type Quad [4]*Quad`, `type Trie [2][]Trie`, `type ArrMap [1]map[string]ArrMap`, mutual `ArrA [2]*ArrB` / `ArrB [3]*ArrA`), plus
# a struct and a defined slice that merely contain one: For/ForType must return an error for every one of them
BANK_REC = ["Rec", "RecA", "PtrSelf", "PtrA", "PtrIntoSelf", "PtrTail1", "PtrC1", "HoldsRho",
            "Quad", "Trie", "ArrMap", "ArrA", "HoldsQuad", "QuadList"]
BANK_BAD = ["Handler", "IntKeyed", "MyChan", "TwoHandlers", "Handler"]
GEN = {"names": [], "redeclared": set(), "embedding": set(), "embeds": {}}


def embeds_closure(name):
    """Every generated type embedded in `name`, directly or through embedded types."""
    out, todo = [], list(GEN["embeds"].get(name, []))
    while todo:
        n = todo.pop()
        if n not in out:
            out.append(n)
            todo += GEN["embeds"].get(n, [])
    return out    # declared types generated for this run (gen_decls), see harness_files


def harness_files(seed, tier):
    """Plugin hook HARNESS_FILES: the declared types of this run, compiled into the harness through a build overlay."""
    import random
    from . import gen_decls
    src, infos = gen_decls.gen_decls(random.Random(seed * 7919 + 13), 30 if tier == "quick" else 80)
    GEN["names"] = [x["name"] for x in infos]
    GEN["redeclared"] = {x["name"] for x in infos if x["redeclared"]}
    GEN["embedding"] = {x["name"] for x in infos if x["embeds"]}
    GEN["embeds"] = {x["name"]: list(x["embeds"]) for x in infos}
    return {"zz_gen_types.go": src}
TAGS = ['json:"%s"', 'json:"%s,omitempty"', 'json:"%s,omitzero"', 'json:"%s,omitempty,omitzero"', "", 'json:",omitempty"', 'json:"-"',
        'json:"-,"', 'json:"%s" jsonschema:"described"']


def gen_type(rng, depth, used, allow_known=0.04, allow_rec=0.0, allow_bad=0.0):
    r = rng.random()
    if depth <= 0 or r < 0.35:
        if rng.random() < 0.25:
            rr = rng.random()
            if rr < allow_known:
                n = rng.choice(sorted(BANK_KNOWN))
                used.add(n)
                return {"k": "named", "name": n}
            if rr < allow_known + allow_rec:
                n = rng.choice(BANK_REC)
                used.add(n)
                return {"k": "named", "name": n}
            n = rng.choice(GEN["names"]) if GEN["names"] and rng.random() < 0.6 else rng.choice(BANK_PLAIN)
            used.add(n)
            return {"k": "named", "name": n}
        if rng.random() < allow_bad:
            used.add("unsupported")
            if rng.random() < 0.5:
                return {"k": "named", "name": rng.choice(BANK_BAD)}     # named types of unsupported kinds (they can occur several times)
            return {"k": rng.choice(["func", "chan", "complex128"])}
        return {"k": rng.choice(BASIC)}
    if r < 0.47:
        return {"k": "ptr", "e": gen_type(rng, depth - 1, used, allow_known, allow_rec, allow_bad)}
    if r < 0.6:
        return {"k": "slice", "e": gen_type(rng, depth - 1, used, allow_known, allow_rec, allow_bad)}
    if r < 0.68:
        return {"k": "array", "n": rng.choice([0, 1, 1, 2, 3]), "e": gen_type(rng, depth - 1, used, allow_known, allow_rec, allow_bad)}
    if r < 0.78:
        key = "string" if rng.random() > allow_bad else "int"
        if key == "int":
            used.add("unsupported")
        return {"k": "map", "key": rng.choice([key, key, "mystring"] if key == "string" else [key]),
                "e": gen_type(rng, depth - 1, used, allow_known, allow_rec, allow_bad)}
    fields = []
    names = rng.sample(["A", "B", "C", "D", "E", "Foo", "Bar"], rng.randint(0, 4))
    jnames = []
    for n in names:
        tag = rng.choice(TAGS)
        if tag == 'json:"-,"':
            if "-" in jnames:
                tag = ""
            else:
                jnames.append("-")
        if "%s" in tag:
            jn = rng.choice(["a", "b", "c", "d", "e", "x_y", "k.1", "f n", "a-b", "q?", "p:q", "é"])
            while jn in jnames:
                jn += "1"
            jnames.append(jn)
            tag = tag % jn
        fields.append({"name": n, "tag": tag, "t": gen_type(rng, depth - 1, used, allow_known, allow_rec, allow_bad)})
    return {"k": "struct", "fields": fields}
