"""Go type descriptors for For/ForType (harness/gotype.go builds them with reflect or takes them from its bank)."""

BASIC = ["bool", "int", "int8", "int16", "int32", "int64", "uint", "uint8", "uint16", "uint32", "uint64", "uintptr",
         "float32", "float64", "string", "any"]
BANK_PLAIN = ["Inner", "Deep", "EmbedVal", "EmbedPtr", "Shadow", "EmbedUnexported", "Named", "Twice", "DescTag", "MyString", "MyInt",
              "MyFloat", "MyInts", "time.Time", "slog.Level", "MyInt8", "MyUint16", "MyUint", "MyInt64", "MyBool", "Levels", "Empty", "Markers", "IDt", "BaseT", "DocT", "DocP", "TwoEmb", "PtrInt", "PtrInner", "HoldsPtrs", "Vec3", "Grid"]
BANK_KNOWN = {"ShadowByTag": "D14", "Ambiguous": "D14", "EmbedTagged": "D16", "EmbedNonStruct": "D16", "BadTag": "D15",
              "WithMarshalers": "D13", "big.Int": "D13"}
# recursive declared types: structs, defined pointer types, and defined ARRAY types whose cycle passes through named array types only
# (`type Quad [4]*Quad`, `type Trie [2][]Trie`, `type ArrMap [1]map[string]ArrMap`, mutual `ArrA [2]*ArrB` / `ArrB [3]*ArrA`), plus
# a struct and a defined slice that merely contain one: For/ForType must return an error for every one of them
BANK_REC = ["Rec", "RecA", "PtrSelf", "PtrA", "PtrIntoSelf", "PtrTail1", "PtrC1", "HoldsRho",
            "Quad", "Trie", "ArrMap", "ArrA", "HoldsQuad", "QuadList"]
BANK_BAD = ["Handler", "IntKeyed", "MyChan", "TwoHandlers", "Handler"]
GEN = {"names": [], "redeclared": set(), "embedding": set(), "embeds": {}, "locals": [], "families": {}, "known": {}}
# the hand-written pair of the bank: two function-local `type Item struct` (harness/gotype.go)
BANK_LOCALS = [["LocalItemA", "LocalItemB"]]


def embeds_closure(name):
    """Every generated type embedded in `name`, directly or through embedded types."""
    out, todo = [], list(GEN["embeds"].get(name, []))
    while todo:
        n = todo.pop()
        if n not in out:
            out.append(n)
            todo += GEN["embeds"].get(n, [])
    return out    # declared types generated for this run (gen_decls), see harness_files


def harness_files(seed, tier):
    """Plugin hook HARNESS_FILES: the declared types of this run, compiled into the harness through a build overlay."""
    import random
    from . import gen_decls
    src, infos, locs = gen_decls.gen_decls(random.Random(seed * 7919 + 13), 30 if tier == "quick" else 80)
    GEN["locals"] = locs
    GEN["names"] = [x["name"] for x in infos]
    GEN["redeclared"] = {x["name"] for x in infos if x["redeclared"]}
    GEN["embedding"] = {x["name"] for x in infos if x["embeds"]}
    GEN["embeds"] = {x["name"]: list(x["embeds"]) for x in infos}
    GEN["families"] = {k: list(v) for k, v in gen_decls.FAMILIES.items()}
    GEN["known"] = {n: "D14" for n in GEN["families"].get("clash_d14", [])}
    return {"zz_gen_types.go": src}
# ---------------------------------------------------------------------------------------------
# TypeSchemas entries that ACCEPT every encoding of the type they override (C04's `EntriesAccept`, C13's shared options)

# JSON type of the encodings of bank types that are never EMBEDDED in another bank / generated type (an override of an embedded type
# must be a plain {"type":"object","properties":…}); "array" types encode a nil slice as null, so their lists always hold "null"
TS_TARGETS = {"MyInt": "integer", "MyInt8": "integer", "MyUint16": "integer", "MyUint": "integer", "MyInt64": "integer",
              "MyFloat": "number", "MyString": "string", "MyBool": "boolean", "time.Time": "string", "slog.Level": "string",
              "Empty": "object", "DescTag": "object", "Levels": "object", "Named": "object", "Markers": "object",
              "HoldsPtrs": "object", "Twice": "object", "MyInts": "array"}
JSON_TYPES = ["array", "boolean", "integer", "null", "number", "object", "string"]


def accepting_entry(rng, kind):
    """A schema with a multi-valued (or, rarely, single) `type` that accepts every JSON value of `kind`, in any order and of any
    length 1..7, now and then with harmless other keywords. Decoded by encoding/json in the harness: lists of 3, 5, 6, 7 names
    arrive with spare capacity, as any append-built list does."""
    from .wire import Obj
    ok = {"integer": ["integer", "number"], "number": ["number"]}.get(kind, [kind])
    k = rng.choice(ok)
    n = rng.choice([1, 2, 3, 3, 3, 4, 5, 5, 6, 7])
    rest = [x for x in JSON_TYPES if x != k and (kind != "array" or x != "null")]
    if rng.random() < 0.5:
        rest = [x for x in rest if x != "null"]          # half of the lists leave null to the pointer positions
    need = ["null"] if kind == "array" else []
    n = max(n, 1 + len(need))
    types = [k] + need + rng.sample(rest, min(n - 1 - len(need), len(rest)))
    rng.shuffle(types)
    kvs = [("type", types[0] if len(types) == 1 and rng.random() < 0.5 else types)]
    r = rng.random()
    if r < 0.15:
        kvs.append(("description", "override"))
    elif r < 0.25:
        kvs.insert(0, ("title", "T"))
    elif r < 0.3 and kind == "object":
        kvs.append(("properties", Obj([("zz-undeclared", Obj([("type", types)]))])))
    return Obj(kvs)


def typeschemas_case(rng, used):
    """(type under inference, warm types, typeSchemas): one never-embedded declared type N with an accepting entry, used several
    times in one type (by value, behind one or two pointers, as element of slices / maps / arrays, in every order), optionally next
    to an unrelated field, and 0-2 earlier calls (`warm`) that reach N through other wrappers with the same options object."""
    cands = sorted(TS_TARGETS) + [n for n in GEN["names"] if not any(n in e for e in GEN["embeds"].values())][:12]
    nm = rng.choice(cands)
    kind = TS_TARGETS.get(nm, "object")
    used.add(nm)
    N = {"k": "named", "name": nm}
    wraps = [N, N, {"k": "ptr", "e": N}, {"k": "ptr", "e": N}, {"k": "slice", "e": N}, {"k": "slice", "e": {"k": "ptr", "e": N}},
             {"k": "map", "key": "string", "e": N}, {"k": "map", "key": "string", "e": {"k": "ptr", "e": N}},
             {"k": "array", "n": 2, "e": N}, {"k": "ptr", "e": {"k": "ptr", "e": N}},
             {"k": "struct", "fields": [{"name": "In", "tag": 'json:"in"', "t": N}]}]

    def one():
        r = rng.random()
        if r < 0.2:
            return rng.choice(wraps)
        fields = []
        for i in range(rng.randint(2, 4)):
            tg = rng.choice(['json:"%s"', 'json:"%s"', 'json:"%s,omitempty"', "", 'json:"%s,omitzero"'])
            fields.append({"name": "F%d" % i, "tag": (tg % ("f%d" % i)) if "%s" in tg else tg, "t": rng.choice(wraps)})
        if rng.random() < 0.3:
            fields.insert(rng.randint(0, len(fields)), {"name": "Z", "tag": 'json:"z"', "t": gen_type(rng, 2, used, allow_known=0.0)})
        t = {"k": "struct", "fields": fields}
        if r < 0.35:
            t = {"k": rng.choice(["slice", "ptr"]), "e": t}
        return t
    t = one()
    warm = [one() for _ in range(rng.choice([0, 0, 1, 1, 2]))]
    if warm and rng.random() < 0.3:
        warm.append(t)                                   # the call under test is itself a repetition
    ts = [{"name": nm, "schema": accepting_entry(rng, kind)}]
    if rng.random() < 0.25:
        other = rng.choice([c for c in sorted(TS_TARGETS) if c != nm])
        ts.insert(rng.randint(0, 1), {"name": other, "schema": accepting_entry(rng, TS_TARGETS[other])})
    return t, warm, ts


# tag names: encoding/json accepts letters and decimal digits of EVERY script (unicode.IsLetter / unicode.IsDigit) and the ASCII
# punctuation !#$%&()*+-./:;<=>?@[]^_{|}~ and blank
TAG_NAMES = ["a", "b", "c", "d", "e", "x_y", "k.1", "f n", "a-b", "q?", "p:q", "\u00e9", "na\u00efve", "\u00df9", "\u03a9m", "\u04342",
             "\u0633\u0637\u0631\u0661", "\u9805\u76ee\uff12", "x\uff11", "\u0915\u0969", "n\u0663", "\u0e01\u0e53", "a/b~c", "{k}|$", "7"]


def same_name_case(rng, used):
    """A type that holds two (or three) DIFFERENT declared struct types of one name and package path (function-local declarations
    of the harness: the hand-written pair and the generated ones), each by value / pointer / in a container, in any order."""
    vs = list(rng.choice(BANK_LOCALS + GEN["locals"]))
    rng.shuffle(vs)
    if rng.random() < 0.3:
        vs.append(rng.choice(vs))                        # one of them twice
    fields = []
    for i, nm in enumerate(vs):
        N = {"k": "named", "name": nm}
        w = rng.choice([N, N, N, {"k": "ptr", "e": N}, {"k": "slice", "e": N}, {"k": "map", "key": "string", "e": N}, {"k": "array", "n": 1, "e": N},
                        {"k": "struct", "fields": [{"name": "V", "tag": 'json:"v"', "t": N}]}])
        fields.append({"name": "F%d" % i, "tag": rng.choice(['json:"f%d"' % i, "", 'json:"f%d,omitempty"' % i]), "t": w})
    if rng.random() < 0.3:
        fields.insert(rng.randint(0, len(fields)), {"name": "Z", "tag": 'json:"z"', "t": gen_type(rng, 2, used, allow_known=0.0)})
    t = {"k": "struct", "fields": fields}
    if rng.random() < 0.3:
        t = {"k": rng.choice(["slice", "ptr", "map"]), "key": "string", "e": t}
    return t


def family_case(rng, used, weights):
    """A declared type of one of gen_decls.gen_families' families (`weights`: family -> relative share), by value, behind a pointer,
    in a container, or as one or two fields of a struct. None if the run has no such declarations."""
    fams = [f for f in sorted(weights) if GEN["families"].get(f)]
    if not fams:
        return None
    f = rng.choices(fams, [weights[x] for x in fams])[0]
    nm = rng.choice(GEN["families"][f])
    used.add(nm)
    N = {"k": "named", "name": nm}
    r = rng.random()
    if r < 0.5:
        return N
    if r < 0.75:
        return rng.choice([{"k": "ptr", "e": N}, {"k": "slice", "e": N}, {"k": "map", "key": "string", "e": N}, {"k": "array", "n": 2, "e": N},
                           {"k": "slice", "e": {"k": "ptr", "e": N}}])
    fields = [{"name": "P", "tag": rng.choice(['json:"p"', "", 'json:"p,omitempty"']), "t": rng.choice([N, {"k": "ptr", "e": N}])}]
    if rng.random() < 0.5:
        fields.append({"name": "Q", "tag": 'json:"q"', "t": rng.choice([{"k": "slice", "e": N}, N, gen_type(rng, 1, used, allow_known=0.0)])})
    return {"k": "struct", "fields": fields}


def repeated_named_case(rng, used, names):
    """One declared type several times in one type, through different wrappers, in every order (what is learnt about a type at its
    first occurrence must not colour the later ones): a struct of 2-4 fields, each one of N, *N, []N, []*N, map[string]N,
    map[string]*N, [2]N, **N, struct{In N}."""
    nm = rng.choice(names)
    N = {"k": "named", "name": nm}
    wraps = [N, {"k": "ptr", "e": N}, {"k": "slice", "e": N}, {"k": "slice", "e": {"k": "ptr", "e": N}}, {"k": "map", "key": "string", "e": N},
             {"k": "map", "key": "string", "e": {"k": "ptr", "e": N}}, {"k": "array", "n": 2, "e": N}, {"k": "ptr", "e": {"k": "ptr", "e": N}},
             {"k": "struct", "fields": [{"name": "In", "tag": 'json:"in"', "t": N}]}]
    ws = [rng.choice(wraps) for _ in range(rng.randint(2, 4))]
    tags = ['json:"%s"', 'json:"%s,omitempty"', "", 'json:"%s,omitzero"']
    fields = []
    for i, w in enumerate(ws):
        tg = rng.choice(tags)
        fields.append({"name": "F%d" % i, "tag": (tg % ("f%d" % i)) if "%s" in tg else tg, "t": w})
    t = {"k": "struct", "fields": fields}
    if rng.random() < 0.3:
        t = {"k": rng.choice(["slice", "ptr"]), "e": t}
    used.add(nm)
    return t


TAGS = ['json:"%s"', 'json:"%s,omitempty"', 'json:"%s,omitzero"', 'json:"%s,omitempty,omitzero"', "", 'json:",omitempty"', 'json:"-"',
        'json:"-,"', 'json:"%s" jsonschema:"described"']
# BLANKS around the comma-separated parts of a json tag: encoding/json trims nothing. A blank before the comma / at either end belongs
# to the NAME (`json:"id ,omitempty"` names the key "id ", `json:"- "` is the key "- ", not "omit"); an option spelled with a blank
# (` omitempty`, `omitzero `) is an unknown option and is ignored: the field is always written (drawn for ~8% of the fields)
BLANK_TAGS = ['json:"%s ,omitempty"', 'json:"%s, omitempty"', 'json:"%s,omitzero "', 'json:" %s"', 'json:"%s "', 'json:"%s, omitzero"',
              'json:"%s,omitempty ,omitzero"', 'json:"%s , omitempty"', 'json:" %s ,omitzero"', 'json:"%s,omitempty "', 'json:", omitempty"',
              'json:",omitzero "', 'json:"%s, omitempty,omitzero"', 'json:"%s,omitempty, omitzero"', 'json:"%s ,"', 'json:"- "', 'json:" -"',
              'json:"%s, omitempty" jsonschema:"described"']


def gen_type(rng, depth, used, allow_known=0.04, allow_rec=0.0, allow_bad=0.0):
    r = rng.random()
    if depth <= 0 or r < 0.35:
        if rng.random() < 0.25:
            rr = rng.random()
            if rr < allow_known:
                n = rng.choice(sorted(BANK_KNOWN))
                used.add(n)
                return {"k": "named", "name": n}
            if rr < allow_known + allow_rec:
                n = rng.choice(BANK_REC)
                used.add(n)
                return {"k": "named", "name": n}
            n = rng.choice(GEN["names"]) if GEN["names"] and rng.random() < 0.6 else rng.choice(BANK_PLAIN)
            if rng.random() < 0.06:
                n = rng.choice(rng.choice(BANK_LOCALS + GEN["locals"]))      # one of several same-named declared types
            used.add(n)
            return {"k": "named", "name": n}
        if rng.random() < allow_bad:
            used.add("unsupported")
            if rng.random() < 0.5:
                return {"k": "named", "name": rng.choice(BANK_BAD)}     # named types of unsupported kinds (they can occur several times)
            return {"k": rng.choice(["func", "chan", "complex128"])}
        return {"k": rng.choice(BASIC)}
    if r < 0.47:
        return {"k": "ptr", "e": gen_type(rng, depth - 1, used, allow_known, allow_rec, allow_bad)}
    if r < 0.6:
        return {"k": "slice", "e": gen_type(rng, depth - 1, used, allow_known, allow_rec, allow_bad)}
    if r < 0.68:
        return {"k": "array", "n": rng.choice([0, 1, 1, 2, 3]), "e": gen_type(rng, depth - 1, used, allow_known, allow_rec, allow_bad)}
    if r < 0.78:
        key = "string" if rng.random() > allow_bad else "int"
        if key == "int":
            used.add("unsupported")
        return {"k": "map", "key": rng.choice([key, key, "mystring"] if key == "string" else [key]),
                "e": gen_type(rng, depth - 1, used, allow_known, allow_rec, allow_bad)}
    fields = []
    names = rng.sample(["A", "B", "C", "D", "E", "Foo", "Bar"], rng.randint(0, 4))
    jnames = []
    for n in names:
        tag = rng.choice(BLANK_TAGS) if rng.random() < 0.08 else rng.choice(TAGS)
        if tag in ('json:"- "', 'json:" -"'):
            if tag[6:-1] in jnames:
                tag = ""
            else:
                jnames.append(tag[6:-1])
        if tag == 'json:"-,"':
            if "-" in jnames:
                tag = ""
            else:
                jnames.append("-")
        if "%s" in tag:
            jn = rng.choice(TAG_NAMES)
            while jn in jnames:
                jn += "1"
            tag = tag % jn
            jn = tag[6:].split('"')[0].split(",")[0]      # the name as encoding/json reads it (blanks included)
            while jn in jnames:                          # (only reachable through the blank spellings)
                tag = tag.replace(jn, jn + "1", 1)
                jn = tag[6:].split('"')[0].split(",")[0]
            jnames.append(jn)
        fields.append({"name": n, "tag": tag, "t": gen_type(rng, depth - 1, used, allow_known, allow_rec, allow_bad)})
    return {"k": "struct", "fields": fields}
