"""Judging `validate` operations: real package vs model (and expected verdicts where known)."""


def has_fuel(m):
    mo = (m or {}).get("model") or {}
    return mo.get("outcome") == "fuel" or "fuel" in (mo.get("verdicts") or [])


def prefilter(op, m):
    """Operations whose model evaluation ran out of fuel (unbounded schema recursion that does not
    pass through the instance) would overflow the Go stack: outside every property's proviso.
    An operation the driver could not read at all is not sent either (it cannot be shown to be guarded)."""
    if m is None or "model" not in m:
        return False
    return not has_fuel(m)


def _nums(v, acc):
    from .wire import Num, Obj
    if isinstance(v, Num):
        acc.append(v.text)
    elif isinstance(v, Obj):
        for _, x in v.kvs:
            _nums(x, acc)
    elif isinstance(v, list):
        for x in v:
            _nums(x, acc)
    elif isinstance(v, dict):
        if isinstance(v.get("t"), str) and isinstance(v.get("v"), str) and v["t"] not in ("string", "mystring"):
            acc.append(v["v"])
        for x in v.values():
            _nums(x, acc)
    elif isinstance(v, (int, float)) and not isinstance(v, bool):
        acc.append(repr(v))


def outside_multipleOf_domain(o):
    """multipleOf is evaluated with a float64 quotient, exact only below 2^53: the properties restrict multipleOf operands
    accordingly. An operation whose schema uses multipleOf and whose instances contain a number of magnitude >= 2^50 is outside."""
    from fractions import Fraction
    from .gen_schema import has_key
    a = o.get("args") or {}
    docs = [a.get("schema"), a.get("schema2")] + [d[1] for d in (a.get("docs") or []) if isinstance(d, list) and len(d) == 2]
    if not any(has_key(d, {"multipleOf"}) for d in docs if d is not None):
        return False
    acc = []
    _nums(a.get("insts"), acc)
    _nums(a.get("ginsts"), acc)
    for t in acc:
        try:
            if abs(Fraction(t)) >= 2**50:
                return True
        except Exception:
            pass
    return False


def norm_targets(ts):
    out = []
    for t in ts or []:
        out.append((t.get("Base"), t.get("Path"), t.get("RefBase"), t.get("RefPath"), t.get("DynRefBase"),
                    t.get("DynRefPath"), t.get("DynamicAnchor")))
    return sorted(out)


def judge_validate(o, go, m, compare_targets=True, compare_log=True):
    if outside_multipleOf_domain(o):
        return "skip", "multipleOf with an operand beyond 2^50: outside the property's domain (float quotient)"
    if go is None:
        return "violation:harness", "no answer from harness"
    if go.get("outcome") == "harness-error":
        return "skip", go.get("detail")
    if m is None or "model" not in m:
        return "violation:driver", "driver gave no answer: %r" % (m,)
    mo = m["model"]
    H = m.get("H") or []
    gout, mout = go.get("outcome"), mo.get("outcome")
    if mout == "uncertified":
        return "violation:model", "a resolved, guarded environment is not ranked/closed (the hypothesis of the definedness theorems): %r" % (mo,)
    exp = (o.get("meta") or {}).get("expect")
    # H lists the known-finding classes the document falls in (D4: a key that case-folds onto a keyword). The model reproduces
    # encoding/json's case-insensitive field matching, so inside those classes too the real package must do what the model does:
    # a known finding is what the model predicts there, never a licence for any other behaviour.
    if gout in ("panic", "timeout", "crash"):
        return "violation", "the real package %s: %s" % (gout, str(go.get("detail"))[:300])
    if gout != mout:
        return "violation", "outcome: real package %s (%s), model %s" % (gout, str(go.get("detail"))[:200], mout)
    if gout != "resolved":
        if exp is not None:
            return "violation:expected", "by construction every reference designates a subschema, but both the real package and the model report %s (%s)" % (gout, str(go.get("detail"))[:200])
        return "agree", ""
    gv, mv = go.get("verdicts"), mo.get("verdicts")
    if gv != mv:
        idx = [i for i, (a, b) in enumerate(zip(gv, mv)) if a != b]
        return "violation", "verdicts: real package %r, model %r (instance index %r)" % (gv, mv, idx)
    sp = m.get("spec")
    if sp is not None and not H:
        for i, (a, b) in enumerate(zip(sp, mv)):
            if a in ("valid", "invalid") and a != b:
                return "violation:model-vs-spec", "instance %d: spec %s, model %s (theorem mis-stated or model defect)" % (i, a, b)
    if exp is not None:
        ev = ["valid" if e else "invalid" for e in exp]
        if ev != mv:
            return "violation:expected", "expected %r, model and real package say %r" % (ev, mv)
    if compare_log and sorted(go.get("log") or []) != sorted(mo.get("log") or []):
        return "violation", "loader calls: real package %r, model %r" % (go.get("log"), mo.get("log"))
    if len(set(go.get("log") or [])) != len(go.get("log") or []):
        return "violation", "the Loader was called twice with one URI: %r" % (go.get("log"),)
    if compare_targets and norm_targets(go.get("targets")) != norm_targets(mo.get("targets")):
        return "violation", "resolved targets differ: real package %r, model %r" % (
            norm_targets(go.get("targets")), norm_targets(mo.get("targets")))
    return "agree", ""
