"""Wire encodings shared by generators and judges.

Model-level JSON travels to the Lean driver in a tagged form that keeps object order:
objects are {"%": [[k, v], ...]}; everything else is itself.  In Python an ordered JSON
object is a list of pairs wrapped in class Obj (so that arrays and objects stay distinct).
"""
import json
from fractions import Fraction


class Obj:
    """An ordered JSON object (duplicate keys allowed)."""
    __slots__ = ("kvs",)

    def __init__(self, kvs=()):
        self.kvs = [(k, v) for k, v in kvs]

    def __repr__(self):
        return "Obj(%r)" % (self.kvs,)

    def __eq__(self, other):
        return isinstance(other, Obj) and self.kvs == other.kvs

    def get(self, k, default=None):
        for kk, v in self.kvs:
            if kk == k:
                return v
        return default

    def keys(self):
        return [k for k, _ in self.kvs]

    def set(self, k, v):
        for i, (kk, _) in enumerate(self.kvs):
            if kk == k:
                self.kvs[i] = (k, v)
                return
        self.kvs.append((k, v))

    def copy(self):
        return Obj(list(self.kvs))


class Num:
    """An exact decimal literal (kept as text so it reaches Go and Lean unchanged)."""
    __slots__ = ("text",)

    def __init__(self, text):
        self.text = str(text)

    def __repr__(self):
        return "Num(%s)" % self.text

    def __eq__(self, other):
        return isinstance(other, Num) and Fraction(self.text) == Fraction(other.text)

    def frac(self):
        return Fraction(self.text)


def to_text(v):
    """JSON text of an ordered value (what the Go side parses)."""
    if v is None:
        return "null"
    if v is True:
        return "true"
    if v is False:
        return "false"
    if isinstance(v, Num):
        return v.text
    if isinstance(v, int):
        return str(v)
    if isinstance(v, str):
        return json.dumps(v, ensure_ascii=False)
    if isinstance(v, list):
        return "[" + ",".join(to_text(x) for x in v) + "]"
    if isinstance(v, Obj):
        return "{" + ",".join(json.dumps(k, ensure_ascii=False) + ":" + to_text(x) for k, x in v.kvs) + "}"
    raise TypeError(type(v))


class _Raw(str):
    pass


def to_tagged(v):
    """The tagged form (a plain Python structure ready for json.dumps, numbers as RawNum)."""
    if v is None or v is True or v is False or isinstance(v, str):
        return v
    if isinstance(v, Num):
        return RawNum(v.text)
    if isinstance(v, int):
        return v
    if isinstance(v, list):
        return [to_tagged(x) for x in v]
    if isinstance(v, Obj):
        return {"%": [[k, to_tagged(x)] for k, x in v.kvs]}
    raise TypeError(type(v))


class RawNum:
    __slots__ = ("text",)

    def __init__(self, text):
        self.text = text


class Enc(json.JSONEncoder):
    pass


def dumps(o):
    """json.dumps that emits RawNum literally."""
    out = []
    _dump(o, out)
    return "".join(out)


def _dump(o, out):
    if isinstance(o, RawNum):
        out.append(o.text)
    elif isinstance(o, Num):
        out.append(o.text)
    elif isinstance(o, dict):
        out.append("{")
        first = True
        for k, v in o.items():
            if not first:
                out.append(",")
            first = False
            out.append(json.dumps(k, ensure_ascii=False))
            out.append(":")
            _dump(v, out)
        out.append("}")
    elif isinstance(o, (list, tuple)):
        out.append("[")
        for i, v in enumerate(o):
            if i:
                out.append(",")
            _dump(v, out)
        out.append("]")
    elif isinstance(o, Obj):
        _dump(to_tagged(o), out)
    else:
        out.append(json.dumps(o, ensure_ascii=False))


def parse_ordered(text):
    """Parse JSON text keeping object order and exact number text."""
    def pairs(kvs):
        return Obj(kvs)
    return json.loads(text, object_pairs_hook=pairs, parse_float=Num, parse_int=Num)


def from_tagged(j):
    """Inverse of the driver's encodeJson: {"%":[[k,v]]} objects, {"#":"n/d"} numbers."""
    if isinstance(j, dict):
        if "%" in j:
            return Obj([(k, from_tagged(v)) for k, v in j["%"]])
        if "#" in j:
            return Fraction(j["#"])
        raise ValueError("untagged object from driver: %r" % (j,))
    if isinstance(j, list):
        return [from_tagged(x) for x in j]
    return j


def canon(v):
    """Canonical comparable form: numbers as Fractions, objects as sorted tuples."""
    if isinstance(v, Num):
        return ("n", Fraction(v.text))
    if isinstance(v, bool) or v is None:
        return ("c", v)
    if isinstance(v, (int, Fraction)):
        return ("n", Fraction(v))
    if isinstance(v, float):
        return ("n", Fraction(v))
    if isinstance(v, str):
        return ("s", v)
    if isinstance(v, list):
        return ("a", tuple(canon(x) for x in v))
    if isinstance(v, Obj):
        return ("o", tuple(sorted((k, canon(x)) for k, x in v.kvs)))
    if isinstance(v, dict):
        return ("o", tuple(sorted((k, canon(x)) for k, x in v.items())))
    raise TypeError(type(v))


def revive(j):
    """Plain JSON (as stored in corpus / known-findings files, objects tagged {"%": …}) -> generator form
    (Obj / Num), so that judges see the same structures as for generated operations."""
    if isinstance(j, dict):
        if set(j.keys()) == {"%"}:
            return Obj([(k, revive(v)) for k, v in j["%"]])
        if set(j.keys()) == {"#num"}:
            return Num(j["#num"])       # a number with its spelling kept (1e1 is not 10 for encoding/json's integer decoding)
        return {k: revive(v) for k, v in j.items()}
    if isinstance(j, list):
        return [revive(x) for x in j]
    if isinstance(j, bool) or j is None or isinstance(j, str):
        return j
    if isinstance(j, int):
        return Num(str(j))
    if isinstance(j, float):
        from .gen_values import dec
        from fractions import Fraction
        return Num(dec(Fraction(j)))
    return j
