"""The official JSON-Schema-Test-Suite cases shipped in /repo/jsonschema/testdata as validate ops."""
import glob
import json
import os

from .wire import Obj, parse_ordered

import os as _os
TD = _os.environ.get("VERIF_REPO", "/repo") + "/jsonschema/testdata"
META = _os.environ.get("VERIF_REPO", "/repo") + "/jsonschema/meta-schemas"
D7 = "https://json-schema.org/draft-07/schema#"


def remotes():
    docs = []
    root = os.path.join(TD, "remotes")
    for dirpath, _, files in os.walk(root):
        for fn in sorted(files):
            if fn.endswith(".json"):
                p = os.path.join(dirpath, fn)
                rel = os.path.relpath(p, root)
                try:
                    docs.append(["http://localhost:1234/" + rel, parse_ordered(open(p).read())])
                except Exception:
                    pass
    for sub, prefix in (("draft2020-12", "https://json-schema.org/draft/2020-12/"),
                        ("draft7", "https://json-schema.org/draft-07/"), ("draft7", "http://json-schema.org/draft-07/")):
        d = os.path.join(META, sub)
        for dirpath, _, files in os.walk(d):
            for fn in sorted(files):
                if fn.endswith(".json"):
                    p = os.path.join(dirpath, fn)
                    rel = os.path.relpath(p, d)[:-5]
                    docs.append([prefix + rel, parse_ordered(open(p).read())])
    return docs


def with_schema(doc, uri):
    if doc is True:
        return Obj([("$schema", uri)])
    if doc is False:
        return Obj([("$schema", uri), ("not", Obj())])
    if isinstance(doc, Obj) and doc.get("$schema") is None:
        return Obj([("$schema", uri)] + doc.kvs)
    return doc


def refs_in(doc, acc):
    if isinstance(doc, Obj):
        for k, v in doc.kvs:
            if k in ("$ref", "$dynamicRef", "$schema", "$id") and isinstance(v, str):
                acc.append(v)
            refs_in(v, acc)
    elif isinstance(doc, list):
        for x in doc:
            refs_in(x, acc)


def suite_ops(draft):
    """draft in {"draft2020-12", "draft7"} -> list of ops with meta.expect = list of booleans"""
    rem = remotes()
    ops = []
    for f in sorted(glob.glob(os.path.join(TD, draft, "*.json"))):
        groups = parse_ordered(open(f).read())
        for g in groups:
            schema = g.get("schema")
            if draft == "draft7":
                schema = with_schema(schema, D7)
            tests = g.get("tests")
            acc = []
            refs_in(schema, acc)
            needs_remote = any(("localhost:1234" in r) or ("json-schema.org" in r and r.rstrip("#") not in (
                "https://json-schema.org/draft/2020-12/schema", "http://json-schema.org/draft-07/schema", "https://json-schema.org/draft-07/schema")) for r in acc)
            ops.append({"op": "validate",
                        "args": {"schema": schema, "docs": rem if needs_remote or any("json-schema.org" in r for r in acc if r not in (D7,)) else [], "loader": True,
                                 "insts": [t.get("data") for t in tests]},
                        "meta": {"expect": [t.get("valid") for t in tests], "suite": os.path.basename(f) + ": " + str(g.get("description")),
                                 "kind": "suite"}})
    return ops
