"""Orchestration of one property check: regenerate facts, build and audit the Lean development,
build the Go harness from /repo's working tree, run the correspondence stream, classify, shrink,
write evidence."""
import fcntl
import hashlib
import importlib
import json
import os
import random
import re
import shutil
import subprocess
import sys
import tempfile
import time

from . import wire

VERIF = os.path.dirname(os.path.dirname(os.path.abspath(__file__)))
LEAN = os.path.join(VERIF, "lean")
HARNESS = os.path.join(VERIF, "harness")
REPO = os.environ.get("VERIF_REPO", "/repo")    # VERIF_REPO: tools/par_seeded.py evaluates seeded changes on scratch copies; the registered checks never set it
CTX = {}
ADMISSIBLE_AXIOMS = {"propext", "Classical.choice", "Quot.sound"}
GOENV = dict(os.environ, GOFLAGS="-mod=mod", GOPROXY="off", GOSUMDB="off", GOTOOLCHAIN="local",
             CGO_ENABLED=os.environ.get("CGO_ENABLED", "0"))


def log(*a):
    print(*a, file=sys.stderr, flush=True)


class Lock:
    def __init__(self, name):
        self.path = os.path.join(VERIF, name)

    def __enter__(self):
        self.f = open(self.path, "w")
        fcntl.flock(self.f, fcntl.LOCK_EX)
        return self

    def __exit__(self, *a):
        fcntl.flock(self.f, fcntl.LOCK_UN)
        self.f.close()


def sh(cmd, cwd=None, env=None, timeout=None, input=None):
    p = subprocess.run(cmd, cwd=cwd, env=env, timeout=timeout, input=input,
                       stdout=subprocess.PIPE, stderr=subprocess.STDOUT, text=True)
    return p.returncode, p.stdout


# ---------------------------------------------------------------------------------------------
# Lean side


def factgen():
    """Regenerate lean/JSV/Generated/Facts.lean from /repo (only rewritten when changed)."""
    out = os.path.join(LEAN, "JSV", "Generated", "Facts.lean")
    rc, txt = sh(["go", "run", ".", REPO + "/jsonschema"], cwd=os.path.join(VERIF, "factgen"), env=GOENV)
    if rc != 0:
        return False, txt
    old = open(out).read() if os.path.exists(out) else None
    if old != txt:
        with open(out, "w") as f:
            f.write(txt)
    return True, ""


def lake_build(targets):
    rc, txt = sh(["lake", "build"] + targets, cwd=LEAN)
    return rc == 0, txt


def theorem_names(module):
    """Names of the theorems declared in a Props module (obligations of the property)."""
    path = os.path.join(LEAN, *module.split(".")) + ".lean"
    src = open(path).read()
    # strip block comments
    src_nc = re.sub(r"/-.*?-/", "", src, flags=re.S)
    ns = None
    names = []
    for line in src_nc.splitlines():
        m = re.match(r"\s*namespace\s+(\S+)", line)
        if m:
            ns = m.group(1) if ns is None else ns + "." + m.group(1)
        m = re.match(r"\s*(?:@\[[^\]]*\]\s*)?(?:private\s+|protected\s+)?theorem\s+(\S+)", line)
        if m:
            names.append((ns + "." if ns else "") + m.group(1))
    return names


def hygiene():
    """Forbidden constructs anywhere in the Lean sources (comments discarded)."""
    bad = []
    pat = re.compile(r"\bsorry\b|\badmit\b|^\s*axiom\s|native_decide|bv_decide|implemented_by|\bunsafe\s|maxHeartbeats\s+0")
    for root, _, files in os.walk(LEAN):
        if ".lake" in root:
            continue
        for fn in files:
            if not fn.endswith(".lean"):
                continue
            src = open(os.path.join(root, fn)).read()
            src = re.sub(r"/-.*?-/", lambda m: "\n" * m.group(0).count("\n"), src, flags=re.S)
            for i, line in enumerate(src.splitlines(), 1):
                line = re.sub(r"--.*", "", line)
                if pat.search(line):
                    bad.append("%s:%d: %s" % (os.path.relpath(os.path.join(root, fn), LEAN), i, line.strip()))
    return bad


def audit(modules, scratch):
    """#print axioms for every theorem of the Props modules. Returns (names, discharged, report)."""
    names = []
    for m in modules:
        names += theorem_names(m)
    if not names:
        return [], [], {}
    src = "".join("import %s\n" % m for m in modules) + "".join("#print axioms %s\n" % n for n in names)
    path = os.path.join(scratch, "Audit.lean")
    with open(path, "w") as f:
        f.write(src)
    rc, txt = sh(["lake", "env", "lean", path], cwd=LEAN)
    report = {}
    # "'X' depends on axioms: [a, b]" (possibly wrapped over lines) or "'X' does not depend on any axioms"
    flat = re.sub(r"\s+", " ", txt)
    for m in re.finditer(r"'(\S+)' depends on axioms: \[([^\]]*)\]", flat):
        report[m.group(1)] = [a.strip() for a in m.group(2).split(",") if a.strip()]
    for m in re.finditer(r"'(\S+)' does not depend on any axioms", flat):
        report[m.group(1)] = []
    discharged = [n for n in names if n in report and set(report[n]) <= ADMISSIBLE_AXIOMS]
    return names, discharged, {"rc": rc, "axioms": report, "raw_tail": txt[-2000:] if rc != 0 else ""}


# ---------------------------------------------------------------------------------------------
# Go side


OVERLAY = {"path": None}


def write_overlay(scratch, files):
    """Extra generated Go files of the harness package (name -> content), added through `go build -overlay` so that the
    harness directory itself is never written to (concurrent checks with other seeds build other files)."""
    rep = {}
    for name, content in files.items():
        p = os.path.join(scratch, name)
        with open(p, "w") as f:
            f.write(content)
        rep[os.path.join(HARNESS, name)] = p
    path = os.path.join(scratch, "overlay.json")
    with open(path, "w") as f:
        json.dump({"Replace": rep}, f)
    OVERLAY["path"] = path
    return path


def build_harness(scratch, race=False, cover=False):
    exe = os.path.join(scratch, "vh" + ("-race" if race else ""))
    cmd = ["go", "build", "-tags", "verif", "-o", exe]
    if OVERLAY["path"]:
        cmd += ["-overlay", OVERLAY["path"]]
    env = dict(GOENV)
    if race:
        cmd.insert(2, "-race")
        env["CGO_ENABLED"] = "1"
    cmd.append(".")
    # the module cache / go.sum must match /repo's
    shutil.copyfile(os.path.join(REPO, "go.sum"), os.path.join(HARNESS, "go.sum"))
    rc, txt = sh(cmd, cwd=HARNESS, env=env)
    if rc != 0:
        return None, txt
    return exe, txt


def driver_exe():
    return os.path.join(LEAN, ".lake", "build", "bin", "jsvdriver")


def _run_lines(cmd, lines, env=None, timeout=3600):
    p = subprocess.run(cmd, input="".join(lines), stdout=subprocess.PIPE, stderr=subprocess.PIPE,
                       text=True, env=env, timeout=timeout)
    return p.returncode, p.stdout, p.stderr


def eval_ops(ops, exe, key, shards=1, env=None, shard_timeout=900):
    """Run ops (list of dicts with id/op/args) through an evaluator; returns {id: result[key]}.
    Crashed shards are re-run op by op so that one crashing operation is isolated."""
    from concurrent.futures import ThreadPoolExecutor
    lines = [wire.dumps({"id": o["id"], "op": o["op"], "args": o["args"]}) + "\n" for o in ops]
    chunks = [lines[i::shards] for i in range(shards)] if shards > 1 else [lines]
    results = {}

    def work(chunk):
        if not chunk:
            return {}
        try:
            rc, out, err = _run_lines([exe], chunk, env=env, timeout=shard_timeout)
        except subprocess.TimeoutExpired as te:
            rc, out, err = -9, (te.stdout or b"").decode("utf-8", "replace") if isinstance(te.stdout, bytes) else (te.stdout or ""), ""
        got = {}
        for ln in out.split("\n"):
            try:
                j = json.loads(ln)
            except Exception:
                continue
            if "id" in j:
                got[j["id"]] = j
        if rc != 0 or len(got) < len(chunk):
            # isolate: re-run the missing ones one at a time
            for ln in chunk:
                oid = json.loads(ln)["id"]
                if oid in got:
                    continue
                try:
                    rc1, out1, err1 = _run_lines([exe], [ln], env=env, timeout=30)
                    j = None
                    for l2 in out1.split("\n"):
                        try:
                            jj = json.loads(l2)
                            if jj.get("id") == oid:
                                j = jj
                        except Exception:
                            pass
                    if j is None:
                        # the process died on this operation alone (a fatal error such as a Go stack overflow cannot be recovered
                        # in-process): outcome crash; the detail leads with the runtime's own "fatal error: …" line
                        fe = re.search(r"^(?:fatal error|panic): .*$", err1 or "", re.M) or re.search(r"^runtime: .*$", err1 or "", re.M)
                        j = {"id": oid, key: {"outcome": "crash", "detail": ((fe.group(0) + " | ") if fe else "") + (err1 or "")[-300:]}}
                except subprocess.TimeoutExpired:
                    j = {"id": oid, key: {"outcome": "timeout"}}
                got[oid] = j
        return got

    with ThreadPoolExecutor(max_workers=max(1, shards)) as ex:
        for got in ex.map(work, chunks):
            results.update(got)
    return results


# ---------------------------------------------------------------------------------------------
# known findings


def load_known():
    p = os.path.join(VERIF, "known_findings.json")
    if not os.path.exists(p):
        return {"findings": [], "fixed": []}
    return json.load(open(p))


# ---------------------------------------------------------------------------------------------
# shrinking


def _reductions(x):
    """Candidate one-step reductions of a JSON-like structure (dict/list/str/int)."""
    if isinstance(x, dict):
        for k in list(x.keys()):
            if k in ("t",):
                continue
            y = dict(x)
            del y[k]
            yield y
        for k, v in x.items():
            if k == "t":
                continue
            for r in _reductions(v):
                y = dict(x)
                y[k] = r
                yield y
    elif isinstance(x, list):
        for i in range(len(x)):
            yield x[:i] + x[i + 1:]
        for i, v in enumerate(x):
            for r in _reductions(v):
                yield x[:i] + [r] + x[i + 1:]
    elif isinstance(x, str):
        if len(x) > 1:
            yield x[: len(x) // 2]
            yield x[1:]


def shrink(op, still_fails, budget=40, seconds=25):
    """Greedy delta debugging on op['args'] (plain JSON structure). still_fails(list of candidate
    ops) -> index of first candidate that still fails or None."""
    cur = op
    t_end = time.time() + seconds
    for _ in range(budget):
        if time.time() > t_end:
            break
        cands = []
        for r in _reductions(cur["args"]):
            c = dict(cur)
            c["args"] = r
            cands.append(c)
            if len(cands) >= 120:
                break
        if not cands:
            break
        idx = still_fails(cands)
        if idx is None:
            break
        cur = cands[idx]
    return cur


# ---------------------------------------------------------------------------------------------
# the run


def run(pid, tier="quick", seed=0, replay=None, n_override=None):
    t0 = time.time()
    if replay:
        try:
            seed = int(json.load(open(replay)).get("seed", seed))    # generated harness files depend on the seed
        except Exception:
            pass
    mod = importlib.import_module("vlib.props." + pid.lower())
    scratch = tempfile.mkdtemp(prefix="jsv-%s-" % pid)
    violations = []     # (kind, text, replay_path)
    known_lines = []
    notes = []
    try:
        return _run(pid, mod, tier, seed, replay, n_override, scratch, t0, violations, known_lines, notes)
    finally:
        shutil.rmtree(scratch, ignore_errors=True)


def write_replay(pid, seed, k, payload):
    d = os.path.join(VERIF, "replays")
    os.makedirs(d, exist_ok=True)
    p = os.path.join(d, "%s-seed%d-%d.json" % (pid, seed, k))
    payload = dict(payload)
    payload.setdefault("seed", seed)
    with open(p, "w") as f:
        f.write(wire.dumps(payload))
        f.write("\n")
    return p


def _revive_args(args):
    """Value descriptors ("t"/"v" dictionaries) and schema-value descriptors stay plain; tagged JSON becomes Obj/Num."""
    out = {}
    for k, v in args.items():
        if k in ("schema", "schema2", "doc", "insts", "docs"):
            out[k] = wire.revive(v)
        else:
            out[k] = v
    return out


def _strip_meta(o):
    """The operation as stored in a replay file (the generator's expectations travel with it so that the judge can be re-run)."""
    return {"id": o["id"], "op": o["op"], "args": o["args"], "meta": o.get("meta") or {}}


def _run(pid, mod, tier, seed, replay, n_override, scratch, t0, violations, known_lines, notes):
    rng = random.Random((seed * 1000003) ^ int(hashlib.sha256(pid.encode()).hexdigest()[:8], 16))
    if not replay:
        import glob as _glob
        for old in _glob.glob(os.path.join(VERIF, "replays", "%s-seed%d-*.json" % (pid, seed))):
            os.remove(old)
    lean_modules = getattr(mod, "LEAN_MODULES", ["JSV.Props." + pid])
    proof_failures = []

    # 1-2. facts, build, audit (serialised: lake does not like concurrent builds of one package)
    with Lock(".build.lock"):
        ok, txt = factgen()
        if not ok:
            proof_failures.append(("factgen", txt[-3000:]))
        okb, btxt = lake_build(lean_modules + ["jsvdriver"])
        if not okb:
            # try the driver alone, so that the search can still run on the model
            proof_failures.append(("lake build " + " ".join(lean_modules), btxt[-6000:]))
            okd, dtxt = lake_build(["jsvdriver"])
            if not okd:
                proof_failures.append(("lake build jsvdriver", dtxt[-6000:]))
        bad = hygiene()
        if bad:
            proof_failures.append(("hygiene", "\n".join(bad)))
        if okb:
            names, discharged, rep = audit(lean_modules, scratch)
        else:
            names = []
            for m in lean_modules:
                try:
                    names += theorem_names(m)
                except Exception:
                    pass
            discharged, rep = [], {"rc": 1, "axioms": {}}
        for n in names:
            if n not in discharged:
                proof_failures.append(("theorem " + n, "axioms=%r" % (rep.get("axioms", {}).get(n),)))
        if tier == "thorough" and okb:
            rc, ctxt = sh(["lake", "env", "leanchecker"] + lean_modules, cwd=LEAN)
            if rc != 0:
                proof_failures.append(("leanchecker", ctxt[-3000:]))
            else:
                notes.append("leanchecker re-checked " + " ".join(lean_modules))
        drv = os.path.join(scratch, "jsvdriver")
        if os.path.exists(driver_exe()):
            shutil.copyfile(driver_exe(), drv)
            os.chmod(drv, 0o755)
        else:
            drv = None

    # 3. harness
    OVERLAY["path"] = None
    if hasattr(mod, "HARNESS_FILES"):
        write_overlay(scratch, mod.HARNESS_FILES(seed, tier))
    vh, htxt = build_harness(scratch)
    if vh is None:
        print("ERROR: the harness does not build against /repo's working tree:\n" + htxt[-3000:])
        return 2

    # 4. operations
    global CTX
    CTX = {"vh": vh, "drv": drv, "scratch": scratch, "tier": tier, "seed": seed}
    known = load_known()
    ops = []
    corpus_dir = os.path.join(VERIF, "corpus", pid)
    if os.path.isdir(corpus_dir):
        for fn in sorted(os.listdir(corpus_dir)):
            if fn.endswith(".json"):
                o = json.load(open(os.path.join(corpus_dir, fn)))
                o["args"] = _revive_args(o["args"])
                o.setdefault("meta", {})["src"] = "corpus:" + fn
                ops.append(o)
    if replay:
        o = json.load(open(replay))["op"]
        o["args"] = _revive_args(o["args"])
        o.setdefault("meta", {})
        ops = [o]
    else:
        nops = n_override or (mod.N_QUICK if tier == "quick" else mod.N_THOROUGH)
        ops += mod.gen(rng, tier, nops)
    for i, o in enumerate(ops):
        o["id"] = i
    shards = 8 if tier == "quick" else 16
    mo_res = eval_ops(ops, drv, "model", shards=shards) if drv else {}
    filtered = 0
    if hasattr(mod, "PREFILTER"):
        keep = [o for o in ops if mod.PREFILTER(o, mo_res.get(o["id"]))]
        filtered = len(ops) - len(keep)
        ops = keep
    go_res = eval_ops(ops, vh, "go", shards=shards, env=GOENV)

    counts = {}
    distinct = set()
    agree = 0
    samples = []
    bad_ops = []
    for o in ops:
        g = go_res.get(o["id"], {}).get("go")
        m = mo_res.get(o["id"], {})
        status, detail = mod.judge(o, g, m)
        counts[status] = counts.get(status, 0) + 1
        if status == "agree":
            agree += 1
        if status.startswith("violation"):
            bad_ops.append((o, g, m, detail))
        if mod.nontrivial(o):
            distinct.add(hashlib.sha1(wire.dumps(o["args"]).encode()).digest())
        if len(samples) < 3 and mod.nontrivial(o):
            samples.append({"op": o["op"], "args": json.loads(wire.dumps(o["args"])), "go": g,
                            "model": {k: v for k, v in m.items() if k != "id"}})

    # 5. shrink + report
    reported = 0
    fast = bool(os.environ.get("VERIF_NOSHRINK"))      # tools/seeded_matrix.py: the first failing input, as generated
    for (o, g, m, detail) in bad_ops[:1 if fast else 3]:
        status0 = mod.judge(o, g, m)[0]

        def still_fails(cands):
            for i, c in enumerate(cands):
                c["id"] = i
            mr = eval_ops(cands, drv, "model") if drv else {}
            if hasattr(mod, "PREFILTER"):
                # never send to the real code what the prefilter excludes (unguarded recursion overflows the Go stack)
                sendable = [c for c in cands if mod.PREFILTER(c, mr.get(c["id"]))]
            else:
                sendable = cands
            gr = eval_ops(sendable, vh, "go", env=GOENV)
            for i, c in enumerate(cands):
                if i not in gr:
                    continue
                st, _ = mod.judge(c, gr.get(i, {}).get("go"), mr.get(i, {}))
                if st == status0:
                    return i
            return None
        try:
            # (an operation that kills the harness process is reported as generated: every shrinking candidate would cost a process crash)
            crashed = isinstance(g, dict) and g.get("outcome") == "crash"
            small = shrink(dict(o), still_fails) if getattr(mod, "SHRINK", True) and status0 == "violation" and not replay and not fast and not crashed else o
        except Exception as e:  # shrinking is best effort
            notes.append("shrink failed: %r" % (e,))
            small = o
        small["id"] = 0
        g2 = eval_ops([small], vh, "go", env=GOENV).get(0, {}).get("go")
        m2 = eval_ops([small], drv, "model").get(0, {}) if drv else {}
        st2, detail2 = mod.judge(small, g2, m2)
        if not st2.startswith("violation"):
            small, g2, m2, detail2 = o, g, m, detail
        path = write_replay(pid, seed, reported, {
            "property": pid, "op": _strip_meta(small), "go": g2, "model": m2, "why": detail2,
            "original_op": _strip_meta(o),
            "broken_obligations": [p[0] for p in proof_failures],
            "how_to_replay": "./check %s --replay <this file>" % pid})
        violations.append(path)
        reported += 1

    # known findings: print one line per listed finding whose witness still fails
    for kf in known.get("findings", []):
        if kf.get("property") != pid:
            continue
        w = dict(kf["witness"])
        w["args"] = _revive_args(w["args"])
        w["id"] = 0
        g = eval_ops([w], vh, "go", env=GOENV).get(0, {}).get("go")
        m = eval_ops([w], drv, "model").get(0, {}) if drv else {}
        st, detail = mod.judge(w, g, m)
        if st.startswith("known") or st.startswith("violation"):
            known_lines.append("KNOWN-FINDING: property=%s %s [%s]" % (pid, kf["what_fails"], kf["id"]))
        else:
            notes.append("known finding %s: witness no longer fails (stale entry)" % kf["id"])

    # extra (Go-only) checks of the plugin
    extra = {}
    if hasattr(mod, "extra"):
        ex_viol, extra = mod.extra(dict(scratch=scratch, tier=tier, seed=seed, rng=rng, vh=vh, drv=drv,
                                        build_harness=build_harness, eval_ops=eval_ops, goenv=GOENV,
                                        write_replay=lambda k, payload: write_replay(pid, seed, 100 + k, payload)))
        violations += ex_viol

    if proof_failures and not violations:
        # A theorem / fact obligation no longer checks; neither the stream nor the plugin's own search found a failing input.
        path = write_replay(pid, seed, 0, {
            "property": pid, "no_failing_input_found": True,
            "broken_obligations": [{"what": w, "output": t} for (w, t) in proof_failures],
            "searched": {"operations": len(ops), "counts": counts}})
        violations.append(path + " no-failing-input-found")

    # 5b. how much of the package the stream exercises: block coverage of /repo/jsonschema under a sample of this run's operations
    cov = {}
    try:
        cexe = os.path.join(scratch, "vh-cover")
        # the cover tool does not see files added through -overlay: build from a scratch copy of the harness directory that
        # holds the generated file(s) for real
        hcopy = os.path.join(scratch, "hcov")
        shutil.copytree(HARNESS, hcopy)
        if OVERLAY["path"]:
            for dst, src in json.load(open(OVERLAY["path"]))["Replace"].items():
                shutil.copyfile(src, os.path.join(hcopy, os.path.basename(dst)))
        cmd = ["go", "build", "-tags", "verif", "-cover", "-coverpkg=github.com/google/jsonschema-go/jsonschema,verifharness", "-o", cexe]
        rc, txt = sh(cmd + ["."], cwd=hcopy, env=GOENV)
        if rc == 0:
            cdir = os.environ.get("VERIF_COVDIR") or os.path.join(scratch, "cov")     # VERIF_COVDIR: accumulate over several checks
            os.makedirs(cdir, exist_ok=True)
            sample = ops[: (1500 if tier == "quick" else 20000)]
            lines = "".join(wire.dumps({"id": o["id"], "op": o["op"], "args": o["args"]}) + "\n" for o in sample)
            subprocess.run([cexe], input=lines, capture_output=True, text=True, env=dict(GOENV, GOCOVERDIR=cdir), timeout=600)
            rc, txt = sh(["go", "tool", "covdata", "percent", "-i=" + cdir], env=GOENV)
            m = re.search(r"jsonschema-go/jsonschema\s+coverage:\s+([0-9.]+)%", txt)
            if m:
                cov = {"go_statement_coverage_pct_of_package": float(m.group(1)), "operations_sampled": len(sample)}
            else:
                cov = {"error": "covdata: " + txt[-200:]}
        else:
            cov = {"error": "cover build: " + txt[-300:]}
    except Exception as e:
        cov = {"error": repr(e)[:200]}

    # 6. evidence
    fact_obl = getattr(mod, "FACT_OBLIGATIONS", [])
    ev = {
        "property_id": pid, "tier": tier, "seed": seed, "level": "proof",
        "coverage": {
            "obligations": len(names), "discharged": len(discharged),
            "checker_cmd": "cd /verif/lean && lake build %s && lake env lean <generated #print axioms file>%s" % (
                " ".join(lean_modules), " && lake env leanchecker " + " ".join(lean_modules) if tier == "thorough" else ""),
            "trusted_base": ["Lean 4.33 kernel", "axioms ⊆ {propext, Classical.choice, Quot.sound} (audited per theorem this run)",
                             "hand-written model tied to /repo by the correspondence stream below and by regenerated facts",
                             ] + getattr(mod, "TRUSTED", []),
            "theorems": names, "axioms": rep.get("axioms", {}),
            "fact_obligations": fact_obl,
            "evaluations": len(ops), "distinct_nontrivial": len(distinct), "rule": mod.RULE,
            "samples": samples, "traces_validated_against_impl": agree,
            "classification": counts, "extra": extra, "filtered_before_go": filtered, "package_coverage": cov,
        },
        "assumptions": getattr(mod, "ASSUMPTIONS", []),
        "wall_s": round(time.time() - t0, 2),
        "violations": len(violations),
        "notes": notes,
    }
    os.makedirs(os.path.join(VERIF, "evidence"), exist_ok=True)
    with open(os.path.join(VERIF, "evidence", pid + ".json"), "w") as f:
        json.dump(ev, f, indent=1, ensure_ascii=False, default=str)
    for ln in known_lines:
        print(ln)
    for v in violations:
        print("VIOLATION property=%s replay=%s" % (pid, v))
    print("%s %s seed=%d: %d ops, %s, obligations %d/%d, %.1fs" % (
        pid, tier, seed, len(ops), counts, len(discharged), len(names), time.time() - t0))
    return 1 if violations else 0
