module factgen

go 1.23.0
