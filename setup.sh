#!/bin/sh
# Build the framework from files on disk only (offline).
set -e
cd "$(dirname "$0")"
export GOFLAGS=-mod=mod GOPROXY=off GOSUMDB=off GOTOOLCHAIN=local
(cd factgen && go run . /repo/jsonschema > ../lean/JSV/Generated/Facts.lean.new && mv ../lean/JSV/Generated/Facts.lean.new ../lean/JSV/Generated/Facts.lean)
(cd lean && lake build)
cp /repo/go.sum harness/go.sum
(cd harness && go build -tags verif -o /dev/null .)
echo setup ok
