import JSV.Basic.Res
import JSV.Basic.Json
import JSV.Basic.Num
import JSV.Model.GoVal
import JSV.Model.Equal
import JSV.Generated.Facts
import JSV.Props.C11
