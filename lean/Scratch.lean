import JSV.Props.C20
import JSV.Proofs.IsoValid
namespace JSV.C20
open JSV Go

theorem clone_validates_same_partial (B d : Nat) (st : Store) (root c : NodeId) (st' : Store)
    (hg : Go.Good B st d root) (hfree : Iso.refFree st d root = true)
    (h : Go.clone st root = .ok (c, st')) (hB : st'.size ≤ B)
    (env env' : Spec.Env) (hd : env.draft = env'.draft) (hre : env.reMatch = env'.reMatch) (fuel : Nat) (j : Json) :
    Spec.evalFuel { env' with st := st' } fuel [] c j = Spec.evalFuel { env with st := st } fuel [] root j ∧
    Spec.evalFuel { env' with st := st' } fuel [] root j = Spec.evalFuel { env with st := st } fuel [] root j := by
  have hext := Go.cloneFuel_ext _ h
  have hs : st.size ≤ B := Nat.le_trans hext.1 hB
  have hE := Iso.cloneR_envSim hs hB env env' hd hre
  have h1 : Go.Sim B st st' d root c := Go.cloneFuel_sim B st _ d (Go.Ext.refl st) hg h hB
  have h2 : Go.Sim B st st' d root root := Go.Sim.of_good hext d root hg
  exact ⟨(Iso.evalFuel_sim hE fuel .nil ⟨d, hfree, h1⟩ j).symm, (Iso.evalFuel_sim hE fuel .nil ⟨d, hfree, h2⟩ j).symm⟩

theorem clone_validates_same_of_checkStructure_partial (st : Store) (root : NodeId) (cfuel : Nat)
    (infos : List (NodeId × Go.Info)) (hc : Go.checkStructure st cfuel [(root, "")] [] = .ok infos)
    (hfree : Iso.refFree st st.size root = true)
    (env env' : Spec.Env) (hd : env.draft = env'.draft) (hre : env.reMatch = env'.reMatch) :
    ∃ c st', Go.clone st root = .ok (c, st') ∧ ∀ fuel j,
      Spec.evalFuel { env' with st := st' } fuel [] c j = Spec.evalFuel { env with st := st } fuel [] root j := by
  obtain ⟨c, st', h, -, -, -⟩ := clone_total_of_checkStructure st root cfuel infos hc
  exact ⟨c, st', h, fun fuel j => (clone_validates_same_partial st'.size st.size st root c st'
    (Go.good_of_checkStructure _ st cfuel root infos hc) hfree h (Nat.le_refl _) env env' hd hre fuel j).1⟩

theorem clone_validate_same_partial (B d : Nat) (root c : NodeId) (env₁ env₂ : Go.VEnv)
    (hg : Go.Good B env₁.st d root) (hfree : Iso.refFree env₁.st d root = true)
    (h : Go.clone env₁.st root = .ok (c, env₂.st)) (hB : env₂.st.size ≤ B)
    (hwf₁ : Refine.EnvWF env₁) (hwf₂ : Refine.EnvWF env₂) (hst₁ : Refine.StoreWF env₁.st)
    (hst₂ : Refine.StoreWF env₂.st) (hd : env₁.draft = env₂.draft) (hre : env₁.reMatch = env₂.reMatch)
    (fuel : Nat) (j : Json) (hj : Json.WF j = true) :
    Refine.Rel j (Spec.evalFuel (Refine.specEnvOf env₁) fuel [] root j)
        (Go.validateFuel env₁ fuel [] (GoVal.ofJson j) root) ∧
      Refine.Rel j (Spec.evalFuel (Refine.specEnvOf env₁) fuel [] root j)
        (Go.validateFuel env₂ fuel [] (GoVal.ofJson j) c) := by
  have hext := Go.cloneFuel_ext _ h
  have hs : env₁.st.size ≤ B := Nat.le_trans hext.1 hB
  have hE : Iso.EnvSim (Iso.CloneR B env₁.st env₂.st) (Refine.specEnvOf env₁) (Refine.specEnvOf env₂) :=
    Iso.cloneR_envSim hs hB (Refine.specEnvOf env₁) (Refine.specEnvOf env₂) hd hre
  have h1 : Go.Sim B env₁.st env₂.st d root c := Go.cloneFuel_sim B env₁.st _ d (Go.Ext.refl _) hg h hB
  exact Iso.validate_iso env₁ env₂ hwf₁ hwf₂ hst₁ hst₂ hE fuel .nil (fun _ hx => nomatch hx) (fun _ hx => nomatch hx)
    ⟨d, hfree, h1⟩ j hj

example : Iso.refFree exTree exTree.size 0 = true := by decide

example (env : Spec.Env) : ∃ c st', Go.clone exTree 0 = .ok (c, st') ∧ ∀ fuel j,
      Spec.evalFuel { env with st := st' } fuel [] c j = Spec.evalFuel { env with st := exTree } fuel [] 0 j := by
  cases hc : Go.checkStructure exTree 7 [(0, "")] [] with
  | ok infos => exact clone_validates_same_of_checkStructure_partial exTree 0 7 infos hc (by decide) env env rfl rfl
  | fuel => exact absurd (show (Go.checkStructure exTree 7 [(0, "")] []).isOk = true by decide) (by rw [hc]; decide)
  | panic => exact absurd (show (Go.checkStructure exTree 7 [(0, "")] []).isOk = true by decide) (by rw [hc]; decide)
  | err => exact absurd (show (Go.checkStructure exTree 7 [(0, "")] []).isOk = true by decide) (by rw [hc]; decide)

end JSV.C20
