import Driver.Codec
import Driver.Regex
import Driver.SchemaDesc
import JSV.Model.Marshal
import JSV.Model.Clone
import JSV.Model.Defaults
import JSV.Model.Infer
import JSV.Model.InferEmb
import JSV.Model.Equal
import JSV.Model.Hash
import JSV.Model.Unmarshal
import JSV.Model.Resolve
import JSV.Model.Validate
import JSV.Spec.Valid
import JSV.Model.Guarded

open JSV Driver

def getArg (args : Lean.Json) (k : String) : Lean.Json := (args.getObjVal? k).toOption.getD .null

def str (s : String) : Lean.Json := .str s

def outcome (s : String) (extra : List (String × Lean.Json) := []) : Lean.Json :=
  Lean.Json.mkObj (("outcome", .str s) :: extra)

/-- FNV-1a over the bytes hashValue writes: a stand-in for maphash under one seed -/
def fnv (bs : List UInt8) : UInt64 :=
  bs.foldl (fun h b => (h ^^^ b.toUInt64) * 1099511628211) 14695981039346656037

def hashVal (v : GoVal) : UInt64 :=
  match Go.hashEnc v with
  | .ok bs => fnv bs
  | _ => 0

structure Universe where
  st : Store
  root : NodeId
  loader : Option (List (String × Go.LoaderResult))
  folded : Bool

/-- unmarshal the root document and every loader document into one store -/
def buildUniverse (args : Lean.Json) : Except String (Res Universe) := do
  let rootDoc ← decodeJson (getArg args "schema")
  let docsJ := match getArg args "docs" with | .arr xs => xs.toList | _ => []
  let hasLoader := match getArg args "loader" with | .bool b => b | _ => !docsJ.isEmpty
  match Go.unmarshal rootDoc #[] with
  | .ok (root, st) =>
    let mut st := st
    let mut tbl : List (String × Go.LoaderResult) := []
    let mut folded := Go.hasFoldedKey rootDoc
    let mut bad : Option (Res Universe) := none
    for d in docsJ do
      match d with
      | .arr #[.str uri, body] =>
        if (body.getObjVal? "fail").isOk then
          tbl := tbl ++ [(uri, .fail)]
        else if (body.getObjVal? "nil").isOk then
          tbl := tbl ++ [(uri, .nilDoc)]
        else
          let dj ← decodeJson body
          folded := folded || Go.hasFoldedKey dj
          match Go.unmarshal dj st with
          | .ok (r, st') =>
            st := st'
            tbl := tbl ++ [(uri, .doc r)]
          | _ =>
            -- a document the Loader cannot unmarshal: the Loader returns an error
            tbl := tbl ++ [(uri, .fail)]
      | _ => throw "bad docs entry"
    match bad with
    | some b => return b
    | none => return .ok { st := st, root := root, loader := if hasLoader then some tbl else none, folded := folded }
  | .err => return .err
  | .panic => return .panic
  | .fuel => return .fuel

def infoPath (infos : List (NodeId × Go.Info)) (id : Option NodeId) : String :=
  match id with
  | none => ""
  | some i => match Go.lookupNat i infos with
    | some inf => inf.path
    | none => "?"

def infoBase (infos : List (NodeId × Go.Info)) (id : Option NodeId) : String :=
  match id with
  | none => ""
  | some i => match Go.lookupNat i infos with
    | some inf => match inf.base with
      | some b => match Go.lookupNat b infos with
        | some bi => (bi.uri.map Uri.toString).getD "?"
        | none => "?"
      | none => "?"
    | none => "?"

def targetsJson (st : Store) (rs : Go.Resolved) : Lean.Json :=
  .arr <| (rs.infos.filterMap fun (id, inf) =>
    match st.get? id with
    | some n =>
      if n.ref == "" && n.dynamicRef == "" then none else
      some <| Lean.Json.mkObj [
        ("Path", str inf.path), ("Base", str (infoBase rs.infos (some id))),
        ("RefPath", str (infoPath rs.infos inf.resolvedRef)), ("RefBase", str (infoBase rs.infos inf.resolvedRef)),
        ("DynRefPath", str (infoPath rs.infos inf.resolvedDynamicRef)),
        ("DynRefBase", str (infoBase rs.infos inf.resolvedDynamicRef)),
        ("DynamicAnchor", str inf.dynamicRefAnchor)]
    | none => none).toArray

def resolveFuel : Nat := 64
def validateFuelN : Nat := 600

def doResolve (u : Universe) (base : String) : Res Go.Resolved :=
  let env : Go.Env := { st := u.st, reOk := Regex.compiles, loader := u.loader }
  Go.resolve env resolveFuel u.root base

/-- the schemas the root's Resolved knows keep their content; every other object of the store (documents the Loader was never
    asked for, …) is blanked: the Go `Resolved` has no record for them either, and the evaluation never reaches them. This is the
    environment the model is run on, so the ranked/closed certificate below is about exactly what is evaluated. -/
def knownStore (st : Store) (rs : Go.Resolved) : Store :=
  let known : Array Bool := rs.infos.foldl (fun a e => if e.1 < a.size then a.set! e.1 true else a) (Array.replicate st.size false)
  st.mapIdx fun i n => if known.getD i false then n else Go.emptyNode

def mkVEnv (u : Universe) (rs : Go.Resolved) : Go.VEnv :=
  { st := knownStore u.st rs, draft := rs.draft, infos := rs.infos, reMatch := Regex.matchString, hash := hashVal }

/-- the Spec environment read off the resolution tables -/
def mkSpecEnv (u : Universe) (rs : Go.Resolved) : Spec.Env :=
  let info (s : NodeId) : Option Go.Info := Go.lookupNat s rs.infos
  { st := knownStore u.st rs, draft := rs.draft,
    refTarget := fun s => (info s).bind (·.resolvedRef),
    dynInitial := fun s => (info s).bind (·.resolvedDynamicRef),
    dynName := fun s => ((info s).map (·.dynamicRefAnchor)).getD "",
    resource := fun s => (info s).bind (·.base),
    dynDecl := fun r name => (info r).bind fun i =>
      match Json.lookup name i.anchors with
      | some a => if a.dynamic then some a.schema else none
      | none => none,
    reMatch := Regex.matchString }

def hList (u : Universe) : Lean.Json := .arr (if u.folded then #[.str "D4"] else #[])

/-- result of Marshal on the model, and of unmarshal ∘ marshal again -/
def marshalOut (st : Store) (root : NodeId) : Lean.Json :=
  match Go.marshal st root with
  | .ok j =>
    let rt : Lean.Json := match Go.unmarshal j #[] with
      | .ok (r2, st2) => match Go.marshal st2 r2 with
        | .ok j2 => Lean.Json.mkObj [("rt", "ok"), ("rt_value", encodeJson j2)]
        | _ => Lean.Json.mkObj [("rt", "marshal-error")]
      | _ => Lean.Json.mkObj [("rt", "unmarshal-error")]
    (outcome "ok" [("value", encodeJson j)]).mergeObj rt
  | .err => outcome "marshal-error"
  | .panic => outcome "panic"
  | .fuel => outcome "fuel"

/-- structural type descriptor (harness describeType) → GoType; `none` = uses a feature the model does not cover -/
partial def decodeGoType (j : Lean.Json) : Except String (Option Go.GoType) := do
  let k ← j.getObjValAs? String "k"
  let sub (key : String) : Except String (Option Go.GoType) := decodeGoType ((j.getObjVal? key).toOption.getD .null)
  match k with
  | "basic" =>
    let kind ← j.getObjValAs? String "kind"
    pure (some (.basic kind))
  | "opaque" => pure (some (.basic "Opaque"))
  | "ref" => pure (some (.ref (← j.getObjValAs? String "name")))
  | "named" =>
    -- a DEFINED POINTER type (`type P *T`) has reflect kind Pointer and is stripped by forType before any name is looked at;
    -- the model's type language has no such types: unmodelled (the Go-side oracles still apply)
    if ((j.getObjVal? "u").toOption.bind fun u => (u.getObjValAs? String "k").toOption) == some "ptr" then pure none else
    match ← sub "u" with
    | some u => pure (some (.named (← j.getObjValAs? String "name") u))
    | none => pure none
  | "ptr" => pure ((← sub "e").map .ptr)
  | "slice" => pure ((← sub "e").map .slice)
  | "array" =>
    let n ← j.getObjValAs? Nat "n"
    pure ((← sub "e").map (.array n))
  | "map" =>
    let key ← j.getObjValAs? String "key"
    pure ((← sub "e").map (.map (if key == "string" then "String" else key)))
  | "struct" =>
    let fs ← match j.getObjVal? "fields" with
      | .ok (.arr xs) => pure xs.toList
      | _ => throw "fields"
    let mut out : List (String × String × Go.GoType) := []
    for f in fs do
      let name ← f.getObjValAs? String "name"
      let tag ← f.getObjValAs? String "tag"
      let emb := (f.getObjValAs? Bool "embedded").toOption.getD false
      let exported := (f.getObjValAs? Bool "exported").toOption.getD true
      if emb then return none
      match ← decodeGoType ((f.getObjVal? "t").toOption.getD .null) with
      | some t => out := out ++ [(name, if exported then tag else "json:\"-\"", t)]
      | none => return none
    pure (some (.struct out))
  | other => throw s!"type descriptor {other}"

/-- is the descriptor of an embedded field's type one the extended model walks or (for non-struct types) leaves alone:
    a back reference (`type T struct { *T }`) cannot be expanded, and the fields of the standard-library marshaler
    types are not in the descriptor -/
def embeddedTypeOk (j : Lean.Json) : Bool :=
  let k (x : Lean.Json) : String := (x.getObjValAs? String "k").toOption.getD ""
  let inner := if k j == "ptr" then (j.getObjVal? "e").toOption.getD .null else j
  if k inner == "ref" then false
  else if k inner == "named" then k ((inner.getObjVal? "u").toOption.getD .null) != "opaque"
  else true

/-- structural type descriptor → GoTypeE (embedded fields included); `none` = a sub-case the extended model does not cover -/
partial def decodeGoTypeE (j : Lean.Json) : Except String (Option Go.GoTypeE) := do
  let k ← j.getObjValAs? String "k"
  let sub (key : String) : Except String (Option Go.GoTypeE) := decodeGoTypeE ((j.getObjVal? key).toOption.getD .null)
  match k with
  | "basic" =>
    let kind ← j.getObjValAs? String "kind"
    pure (some (.basic kind))
  | "opaque" => pure (some (.basic "Opaque"))
  | "ref" => pure (some (.ref (← j.getObjValAs? String "name")))
  | "named" =>
    -- a DEFINED POINTER type (`type P *T`) has reflect kind Pointer and is stripped by forType before any name is looked at;
    -- the model's type language has no such types: unmodelled (the Go-side oracles still apply)
    if ((j.getObjVal? "u").toOption.bind fun u => (u.getObjValAs? String "k").toOption) == some "ptr" then pure none else
    match ← sub "u" with
    | some u => pure (some (.named (← j.getObjValAs? String "name") u))
    | none => pure none
  | "ptr" => pure ((← sub "e").map .ptr)
  | "slice" => pure ((← sub "e").map .slice)
  | "array" =>
    let n ← j.getObjValAs? Nat "n"
    pure ((← sub "e").map (.array n))
  | "map" =>
    let key ← j.getObjValAs? String "key"
    pure ((← sub "e").map (.map (if key == "string" then "String" else key)))
  | "struct" =>
    let fs ← match j.getObjVal? "fields" with
      | .ok (.arr xs) => pure xs.toList
      | _ => throw "fields"
    let mut out : List (Go.FieldE Go.GoTypeE) := []
    for f in fs do
      let name ← f.getObjValAs? String "name"
      let tag ← f.getObjValAs? String "tag"
      let emb := (f.getObjValAs? Bool "embedded").toOption.getD false
      let exported := (f.getObjValAs? Bool "exported").toOption.getD true
      let tj := (f.getObjVal? "t").toOption.getD .null
      if emb && !embeddedTypeOk tj then return none
      match ← decodeGoTypeE tj with
      | some t => out := out ++ [{ goName := name, tag := tag, exported := exported, embedded := emb, type := t }]
      | none => return none
    pure (some (.struct out))
  | other => throw s!"type descriptor {other}"

def handleValidate (args : Lean.Json) : Except String Lean.Json := do
  let base := ((getArg args "base").getStr?).toOption.getD ""
  match ← buildUniverse args with
  | .ok u =>
    -- instances: "insts" = list of tagged JSON values, or "ginsts" = list of value descriptors
    let jinsts : List Json ←
      match getArg args "insts" with
      | .arr js => js.toList.mapM decodeJson
      | _ => pure []
    let insts : List GoVal ←
      match getArg args "ginsts" with
      | .arr gs => gs.toList.mapM decodeGoVal
      | _ => pure (jinsts.map GoVal.ofJson)
    match doResolve u base with
    | .ok rs =>
      let env := mkVEnv u rs
      if !Go.guarded env then
        return Lean.Json.mkObj [("model", outcome "fuel" [("why", "in-place reference cycle")]), ("H", hList u)]
      -- the proved certificate (C01.spec_defined, C10.validate_no_panic_ranked): ranked ∧ closed; on a Resolve output it must
      -- hold whenever `guarded` does (C01.guarded_iff_ranked) — anything else is a defect of the model, reported as such
      if !(Go.ranked env && Go.closed env) then
        return Lean.Json.mkObj [("model", outcome "uncertified" [("ranked", .bool (Go.ranked env)), ("closed", .bool (Go.closed env))]), ("H", hList u)]
      let verdicts := insts.map fun g =>
        match Go.validate env Generated.supportedVersions validateFuelN rs.root g with
        | .ok _ => "valid"
        | .err => "invalid"
        | .panic => "panic"
        | .fuel => "fuel"
      let senv := mkSpecEnv u rs
      let specInsts : List (Option Json) :=
        if jinsts.isEmpty then insts.map GoVal.denote else jinsts.map some
      let rootOk := match u.st.get? rs.root with
        | some rn => Generated.supportedVersions.contains rn.schema
        | none => false
      let specVerdicts := specInsts.map fun oj =>
        match oj with
        | none => "n/a"
        | some j =>
          if !rootOk then "invalid" else
          match Spec.valid senv validateFuelN rs.root j with
          | some true => "valid"
          | some false => "invalid"
          | none => "undefined"
      pure (Lean.Json.mkObj [
        ("spec", .arr (specVerdicts.map str).toArray),
        ("model", outcome "resolved" [
          ("verdicts", .arr (verdicts.map str).toArray),
          ("log", .arr (rs.log.map str).toArray),
          ("draft", str (if rs.draft == .d7 then "draft7" else "draft2020")),
          ("targets", targetsJson u.st rs)]),
        ("H", hList u)])
    | .err => pure (Lean.Json.mkObj [("model", outcome "resolve-error"), ("H", hList u)])
    | .panic => pure (Lean.Json.mkObj [("model", outcome "panic"), ("H", hList u)])
    | .fuel => pure (Lean.Json.mkObj [("model", outcome "fuel"), ("H", hList u)])
  | .err =>
    -- the class of known finding D4 is reported here too: {"Type":5} is refused because "Type" is routed to the keyword's field
    let doc ← decodeJson (getArg args "schema")
    pure (Lean.Json.mkObj [("model", outcome "unmarshal-error"),
      ("H", .arr (if Go.hasFoldedKey doc then #[.str "D4"] else #[]))])
  | .panic => pure (Lean.Json.mkObj [("model", outcome "panic")])
  | .fuel => pure (Lean.Json.mkObj [("model", outcome "fuel")])

def handle (op : String) (args : Lean.Json) : Except String Lean.Json := do
  match op with
  | "equal" =>
    let x ← decodeGoVal (getArg args "x")
    let y ← decodeGoVal (getArg args "y")
    let r := Go.equal x y
    let spec : Lean.Json := match GoVal.denote x, GoVal.denote y with
      | some a, some b => .bool (Json.eqv a b)
      | _, _ => .null
    pure (Lean.Json.mkObj [
      ("model", resToJson (fun b => Lean.Json.mkObj [("outcome", "ok"), ("equal", .bool b)]) r),
      ("spec", spec)])
  | "hash" =>
    let x ← decodeGoVal (getArg args "x")
    let y ← decodeGoVal (getArg args "y")
    let eq := Go.equal x y
    let encEq : Lean.Json := match Go.hashEnc x, Go.hashEnc y with
      | .ok a, .ok b => .bool (a == b)
      | _, _ => .null
    pure (Lean.Json.mkObj [("model", Lean.Json.mkObj [("outcome", "ok"),
      ("equal", match eq with | .ok b => .bool b | _ => .null), ("hash_equal", encEq)])])
  | "marshal" =>
    let (st, root) ← decodeStore (getArg args "desc")
    pure (Lean.Json.mkObj [("model", marshalOut st root)])
  | "roundtrip-doc" =>
    let doc ← decodeJson (getArg args "doc")
    match Go.unmarshal doc #[] with
    | .ok (root, st) =>
      pure (Lean.Json.mkObj [("model", marshalOut st root),
        ("H", .arr (if Go.hasFoldedKey doc then #[.str "D4"] else #[]))])
    | .err => pure (Lean.Json.mkObj [("model", outcome "unmarshal-error")])
    | .panic => pure (Lean.Json.mkObj [("model", outcome "panic")])
    | .fuel => pure (Lean.Json.mkObj [("model", outcome "fuel")])
  | "clone" =>
    let (st, root) ← decodeStore (getArg args "desc")
    match Go.clone st root with
    | .ok (c, st') =>
      let a := Go.reachable st' (st'.size + 1) [root]
      let b := Go.reachable st' (st'.size + 1) [c]
      let shared := (b.filter fun x => a.contains x).length
      let textOf (r : Res Json) : Lean.Json := match r with
        | .ok j => encodeJson j
        | _ => .null
      pure (Lean.Json.mkObj [("model", outcome "ok" [
        ("marshal", str (match Go.marshal st' root with | .ok _ => "ok" | _ => "error")),
        ("value", textOf (Go.marshal st' root)), ("clone_value", textOf (Go.marshal st' c)),
        ("shared", .num shared), ("count", .arr #[.num a.eraseDups.length, .num b.eraseDups.length])])])
    | .fuel => pure (Lean.Json.mkObj [("model", outcome "fuel")])
    | _ => pure (Lean.Json.mkObj [("model", outcome "panic")])
  | "defaults" =>
    let base := ((getArg args "base").getStr?).toOption.getD ""
    match ← buildUniverse args with
    | .ok u =>
      let jinsts : List Json ← match getArg args "insts" with
        | .arr js => js.toList.mapM decodeJson
        | _ => pure []
      match doResolve u base with
      | .ok rs =>
        let env := mkVEnv u rs
        if !Go.guarded env then
          return Lean.Json.mkObj [("model", outcome "fuel")]
        let vd := match Go.validateDefaults env Generated.supportedVersions validateFuelN rs.root with
          | .ok _ => "ok" | .err => "error" | .panic => "panic" | .fuel => "fuel"
        -- what the property says about ValidateDefaults: every default validates against its schema (Spec)
        let senv := mkSpecEnv u rs
        let rootOk := match u.st.get? rs.root with
          | some rn => Generated.supportedVersions.contains rn.schema
          | none => false
        let specVd := if !rootOk then "error" else
          if (Go.allNodes u.st (u.st.size + 2) [rs.root]).all (fun id =>
              match u.st.get? id with
              | some n => match n.default with
                | some d => Spec.valid senv validateFuelN id d == some true
                | none => true
              | none => false) then "ok" else "error"
        let hasDyn := (Go.allNodes u.st (u.st.size + 2) [rs.root]).any fun id =>
          match u.st.get? id with | some n => n.dynamicRef != "" | none => false
        let once := jinsts.map fun j => Go.applyDefaults env rs.root j
        let twice := once.map fun r => match r with
          | .ok j => Go.applyDefaults env rs.root j
          | r => r
        let enc (r : Res Json) : Lean.Json := match r with
          | .ok j => Lean.Json.mkObj [("r", "ok"), ("value", encodeJson j)]
          | .err => Lean.Json.mkObj [("r", "error")]
          | .panic => Lean.Json.mkObj [("r", "panic")]
          | .fuel => Lean.Json.mkObj [("r", "fuel")]
        pure (Lean.Json.mkObj [("model", outcome "resolved" [
          ("validateDefaults", str vd), ("specValidateDefaults", str specVd), ("hasDynamicRef", .bool hasDyn),
          ("once", .arr (once.map enc).toArray), ("twice", .arr (twice.map enc).toArray)]), ("H", hList u)])
      | .err => pure (Lean.Json.mkObj [("model", outcome "resolve-error"), ("H", hList u)])
      | .panic => pure (Lean.Json.mkObj [("model", outcome "panic")])
      | .fuel => pure (Lean.Json.mkObj [("model", outcome "fuel")])
    | .err => pure (Lean.Json.mkObj [("model", outcome "unmarshal-error")])
    | _ => pure (Lean.Json.mkObj [("model", outcome "panic")])
  | "infer" =>
    -- types without embedded fields: `forType`; with embedded fields: `forTypeE` (the two agree where both apply,
    -- C16.forTypeE_conservative); `unmodelled` for the sub-cases `decodeGoTypeE` refuses
    let run : Option (Go.IOpts → Store → Res (Option NodeId × Store)) ←
      match ← decodeGoType (getArg args "structure") with
      | some t => pure (some fun (o : Go.IOpts) (st : Store) => Go.forType o 64 t st)
      | none =>
        match ← decodeGoTypeE (getArg args "structure") with
        | some t => pure (some fun (o : Go.IOpts) (st : Store) => Go.forTypeE o 64 t st)
        | none => pure none
    match run with
    | none => pure (Lean.Json.mkObj [("model", outcome "unmodelled")])
    | some run =>
      let o := getArg args "opts"
      let ignore := (o.getObjValAs? Bool "ignore").toOption.getD false
      -- the initial table: one schema {type: string} shared by the standard-library marshaler types
      let (ss, st0) := Store.alloc (#[] : Store) { type := "string" }
      let mut st := st0
      let mut tbl : List (String × NodeId) :=
        ["time.Time", "slog.Level", "big.Int", "big.Rat", "big.Float"].map fun n => (n, ss)
      match o.getObjVal? "typeSchemas" with
      | .ok (.arr xs) =>
        for x in xs do
          let tn ← x.getObjValAs? String "tname"
          let doc ← decodeJson ((x.getObjVal? "schema").toOption.getD .null)
          match Go.unmarshal doc st with
          | .ok (r, st') =>
            st := st'
            tbl := (tbl.filter fun (e : String × NodeId) => e.1 != tn) ++ [(tn, r)]
          | _ => throw "typeSchemas entry does not unmarshal"
      | _ => pure ()
      match run { ignore := ignore, schemas := tbl } st with
      | .ok (some id, st') =>
        match Go.marshal st' id with
        | .ok j => pure (Lean.Json.mkObj [("model", outcome "ok" [("value", encodeJson j)])])
        | _ => pure (Lean.Json.mkObj [("model", outcome "marshal-error")])
      | .ok (none, _) => pure (Lean.Json.mkObj [("model", outcome "nil")])
      | .err => pure (Lean.Json.mkObj [("model", outcome "error")])
      | .panic => pure (Lean.Json.mkObj [("model", outcome "panic")])
      | .fuel => pure (Lean.Json.mkObj [("model", outcome "fuel")])
  | "purity" => handleValidate args
  | "concurrent" => handleValidate args
  | "unmarshal-bytes" => pure (Lean.Json.mkObj [("model", outcome "n/a")])
  | "resolve-desc" =>
    let mode := ((getArg args "loader").getStr?).toOption.getD ""
    if !(mode == "" || mode == "error" || mode == "nil") then
      return Lean.Json.mkObj [("model", outcome "n/a")]
    let (st, root) ← decodeStore (getArg args "desc")
    let base := ((getArg args "base").getStr?).toOption.getD ""
    let u : Universe := { st := st, root := root, loader := if mode == "" then none else some [], folded := false }
    match doResolve u base with
    | .ok rs =>
      let env := mkVEnv u rs
      if !Go.guarded env then
        return Lean.Json.mkObj [("model", outcome "fuel")]
      let insts : List GoVal ← match getArg args "ginsts" with
        | .arr gs => gs.toList.mapM decodeGoVal
        | _ => pure []
      let verdicts := insts.map fun g =>
        match Go.validate env Generated.supportedVersions validateFuelN rs.root g with
        | .ok _ => "valid" | .err => "invalid" | .panic => "panic" | .fuel => "fuel"
      pure (Lean.Json.mkObj [("model", outcome "resolved" [("verdicts", .arr (verdicts.map str).toArray)])])
    | .err => pure (Lean.Json.mkObj [("model", outcome "resolve-error")])
    | .panic => pure (Lean.Json.mkObj [("model", outcome "panic")])
    | .fuel => pure (Lean.Json.mkObj [("model", outcome "fuel")])
  | "validate" => handleValidate args
  | "decorate" =>
    let ra ← handleValidate args
    let rb ← handleValidate (args.setObjVal! "schema" (getArg args "schema2"))
    pure (Lean.Json.mkObj [("model", Lean.Json.mkObj [("outcome", "pair"), ("a", ra), ("b", rb)])])
  | "uri" =>
    let base := ((getArg args "base").getStr?).toOption.getD ""
    let ref := ((getArg args "ref").getStr?).toOption.getD ""
    match Uri.parse base, Uri.parse ref with
    | .ok b, .ok r =>
      let u := Uri.resolveReference b r
      pure (Lean.Json.mkObj [("model", outcome "ok" [
        ("resolved", str (Uri.toString u)), ("fragment", str u.fragment),
        ("fragless", str (Uri.toString (Uri.dropFragment u))), ("abs", .bool (Uri.isAbs u))])])
    | .ok _, _ => pure (Lean.Json.mkObj [("model", outcome "ref-error")])
    | _, _ => pure (Lean.Json.mkObj [("model", outcome "base-error")])
  | "regex" =>
    let pat := ((getArg args "pattern").getStr?).toOption.getD ""
    let subj := ((getArg args "subject").getStr?).toOption.getD ""
    if Regex.compiles pat then
      pure (Lean.Json.mkObj [("model", outcome "ok" [("match", .bool (Regex.matchString pat subj))])])
    else pure (Lean.Json.mkObj [("model", outcome "compile-error")])
  | _ => throw s!"unknown op {op}"

partial def loop (h : IO.FS.Stream) (out : IO.FS.Stream) : IO Unit := do
  let line ← h.getLine
  if line.isEmpty then return ()
  if line.trimAscii.isEmpty then return (← loop h out)
  match Lean.Json.parse line with
  | .error e => out.putStrLn (Lean.Json.compress (Lean.Json.mkObj [("error", .str s!"parse: {e}")]))
  | .ok j =>
    let id := (j.getObjVal? "id").toOption.getD .null
    let op := (j.getObjValAs? String "op").toOption.getD ""
    let args := (j.getObjVal? "args").toOption.getD .null
    match handle op args with
    | .ok r => out.putStrLn (Lean.Json.compress (r.setObjVal! "id" id))
    | .error e => out.putStrLn (Lean.Json.compress (Lean.Json.mkObj [("id", id), ("error", .str e)]))
  loop h out

def main : IO Unit := do
  let stdin ← IO.getStdin
  let stdout ← IO.getStdout
  loop stdin stdout
