import Driver.Codec
import JSV.Model.Equal

open JSV Driver

def handle (op : String) (args : Lean.Json) : Except String Lean.Json := do
  match op with
  | "equal" =>
    let x ← decodeGoVal ((args.getObjVal? "x").toOption.getD .null)
    let y ← decodeGoVal ((args.getObjVal? "y").toOption.getD .null)
    let r := Go.equal x y
    let spec : Lean.Json := match GoVal.denote x, GoVal.denote y with
      | some a, some b => .bool (Json.eqv a b)
      | _, _ => .null
    pure (Lean.Json.mkObj [
      ("model", resToJson (fun b => Lean.Json.mkObj [("outcome", "ok"), ("equal", .bool b)]) r),
      ("spec", spec)])
  | _ => throw s!"unknown op {op}"

partial def loop (h : IO.FS.Stream) (out : IO.FS.Stream) : IO Unit := do
  let line ← h.getLine
  if line.isEmpty then return ()
  if line.trimAscii.isEmpty then return (← loop h out)
  match Lean.Json.parse line with
  | .error e => out.putStrLn (Lean.Json.compress (Lean.Json.mkObj [("error", .str s!"parse: {e}")]))
  | .ok j =>
    let id := (j.getObjVal? "id").toOption.getD .null
    let op := (j.getObjValAs? String "op").toOption.getD ""
    let args := (j.getObjVal? "args").toOption.getD .null
    match handle op args with
    | .ok r => out.putStrLn (Lean.Json.compress (r.setObjVal! "id" id))
    | .error e => out.putStrLn (Lean.Json.compress (Lean.Json.mkObj [("id", id), ("error", .str e)]))
  loop h out

def main : IO Unit := do
  let stdin ← IO.getStdin
  let stdout ← IO.getStdout
  loop stdin stdout
