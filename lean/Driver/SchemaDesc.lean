/-
  Reading schema-value descriptors (harness/schemaval.go) into the model's store.
-/
import Driver.Codec
import JSV.Model.Schema
import JSV.Model.Unmarshal

namespace Driver
open JSV

def asNodeId (j : Lean.Json) : Except String NodeId :=
  match j with
  | .null => pure Go.nilId
  | .num n => pure n.mantissa.toNat
  | _ => throw "node index"

def optNodeId (j : Lean.Json) : Except String (Option NodeId) :=
  match j with
  | .null => pure none
  | _ => do pure (some (← asNodeId j))

def optList {α} (f : Lean.Json → Except String α) (j : Lean.Json) : Except String (Option (List α)) :=
  match j with
  | .null => pure none
  | .arr xs => do pure (some (← xs.toList.mapM f))
  | _ => throw "list"

def optPairs {α} (f : Lean.Json → Except String α) (j : Lean.Json) : Except String (Option (List (String × α))) :=
  match j with
  | .null => pure none
  | .arr xs => do
    let es ← xs.toList.mapM fun kv =>
      match kv with
      | .arr #[.str k, v] => do pure (k, ← f v)
      | _ => throw "pair"
    pure (some es)
  | _ => throw "pairs"

def asStr (j : Lean.Json) : Except String String :=
  match j with
  | .str s => pure s
  | .null => pure ""
  | _ => throw "string"

def asBool (j : Lean.Json) : Except String Bool :=
  match j with
  | .bool b => pure b
  | .null => pure false
  | _ => throw "bool"

def optRat (j : Lean.Json) : Except String (Option Rat) :=
  match j with
  | .null => pure none
  | .num n => pure (some (numToRat n))
  | _ => throw "number"

def optInt (j : Lean.Json) : Except String (Option Int) :=
  match j with
  | .null => pure none
  | .num n => pure (some (numToRat n).num)
  | _ => throw "int"

def optStrList (j : Lean.Json) : Except String (Option (List String)) := optList asStr j

def setNodeField (n : Node) (name : String) (v : Lean.Json) : Except String Node := do
  match name with
  | "ID" => pure { n with id := ← asStr v }
  | "Schema" => pure { n with schema := ← asStr v }
  | "Ref" => pure { n with ref := ← asStr v }
  | "Comment" => pure { n with comment := ← asStr v }
  | "Defs" => pure { n with defs := ← optPairs asNodeId v }
  | "Definitions" => pure { n with definitions := ← optPairs asNodeId v }
  | "DependencySchemas" => pure { n with dependencySchemas := ← optPairs asNodeId v }
  | "DependencyStrings" => pure { n with dependencyStrings := ← optPairs optStrList v }
  | "Anchor" => pure { n with anchor := ← asStr v }
  | "DynamicAnchor" => pure { n with dynamicAnchor := ← asStr v }
  | "DynamicRef" => pure { n with dynamicRef := ← asStr v }
  | "Vocabulary" => pure { n with vocabulary := ← optPairs asBool v }
  | "Title" => pure { n with title := ← asStr v }
  | "Description" => pure { n with description := ← asStr v }
  | "Default" =>
    match v with
    | .null => pure n
    | _ => do
      let j ← decodeJson ((v.getObjVal? "raw").toOption.getD .null)
      pure { n with default := some j }
  | "Deprecated" => pure { n with deprecated := ← asBool v }
  | "ReadOnly" => pure { n with readOnly := ← asBool v }
  | "WriteOnly" => pure { n with writeOnly := ← asBool v }
  | "Examples" => pure { n with examples := ← optList decodeJson v }
  | "Type" => pure { n with type := ← asStr v }
  | "Types" => pure { n with types := ← optStrList v }
  | "Enum" => pure { n with enum := ← optList decodeJson v }
  | "Const" =>
    match v with
    | .null => pure n
    | _ => do
      let j ← decodeJson ((v.getObjVal? "v").toOption.getD .null)
      pure { n with const := some j }
  | "MultipleOf" => pure { n with multipleOf := ← optRat v }
  | "Minimum" => pure { n with minimum := ← optRat v }
  | "Maximum" => pure { n with maximum := ← optRat v }
  | "ExclusiveMinimum" => pure { n with exclusiveMinimum := ← optRat v }
  | "ExclusiveMaximum" => pure { n with exclusiveMaximum := ← optRat v }
  | "MinLength" => pure { n with minLength := ← optInt v }
  | "MaxLength" => pure { n with maxLength := ← optInt v }
  | "Pattern" => pure { n with pattern := ← asStr v }
  | "PrefixItems" => pure { n with prefixItems := ← optList asNodeId v }
  | "Items" => pure { n with items := ← optNodeId v }
  | "ItemsArray" => pure { n with itemsArray := ← optList asNodeId v }
  | "MinItems" => pure { n with minItems := ← optInt v }
  | "MaxItems" => pure { n with maxItems := ← optInt v }
  | "AdditionalItems" => pure { n with additionalItems := ← optNodeId v }
  | "UniqueItems" => pure { n with uniqueItems := ← asBool v }
  | "Contains" => pure { n with contains := ← optNodeId v }
  | "MinContains" => pure { n with minContains := ← optInt v }
  | "MaxContains" => pure { n with maxContains := ← optInt v }
  | "UnevaluatedItems" => pure { n with unevaluatedItems := ← optNodeId v }
  | "MinProperties" => pure { n with minProperties := ← optInt v }
  | "MaxProperties" => pure { n with maxProperties := ← optInt v }
  | "Required" => pure { n with required := ← optStrList v }
  | "DependentRequired" => pure { n with dependentRequired := ← optPairs optStrList v }
  | "Properties" => pure { n with properties := ← optPairs asNodeId v }
  | "PatternProperties" => pure { n with patternProperties := ← optPairs asNodeId v }
  | "AdditionalProperties" => pure { n with additionalProperties := ← optNodeId v }
  | "PropertyNames" => pure { n with propertyNames := ← optNodeId v }
  | "UnevaluatedProperties" => pure { n with unevaluatedProperties := ← optNodeId v }
  | "AllOf" => pure { n with allOf := ← optList asNodeId v }
  | "AnyOf" => pure { n with anyOf := ← optList asNodeId v }
  | "OneOf" => pure { n with oneOf := ← optList asNodeId v }
  | "Not" => pure { n with not := ← optNodeId v }
  | "If" => pure { n with if_ := ← optNodeId v }
  | "Then" => pure { n with then_ := ← optNodeId v }
  | "Else" => pure { n with else_ := ← optNodeId v }
  | "DependentSchemas" => pure { n with dependentSchemas := ← optPairs asNodeId v }
  | "ContentEncoding" => pure { n with contentEncoding := ← asStr v }
  | "ContentMediaType" => pure { n with contentMediaType := ← asStr v }
  | "ContentSchema" => pure { n with contentSchema := ← optNodeId v }
  | "Format" => pure { n with format := ← asStr v }
  | "Extra" => pure { n with extra := ← optPairs decodeJson v }
  | "PropertyOrder" => pure { n with propertyOrder := ← optStrList v }
  | other => throw s!"the model has no Schema field {other} (the Go struct changed?)"

/-- {"nodes":[…], "root": i} → (store, root) -/
def decodeStore (d : Lean.Json) : Except String (Store × NodeId) := do
  let nodesJ ← match d.getObjVal? "nodes" with
    | .ok (.arr xs) => pure xs.toList
    | _ => throw "nodes"
  let mut st : Store := #[]
  for nj in nodesJ do
    let mut n : Node := {}
    match nj with
    | .obj kvs =>
      for (k, v) in kvs.toArray do
        n ← setNodeField n k v
    | _ => throw "node"
    st := st.push n
  let root ← asNodeId ((d.getObjVal? "root").toOption.getD .null)
  -- a single *Schema field pointing outside the node table is a nil pointer = an absent keyword
  let sz := st.size
  let fix (o : Option NodeId) : Option NodeId := o.bind fun i => if i < sz then some i else none
  let st2 := st.map fun n => { n with
    items := fix n.items, additionalItems := fix n.additionalItems, contains := fix n.contains,
    unevaluatedItems := fix n.unevaluatedItems, additionalProperties := fix n.additionalProperties,
    propertyNames := fix n.propertyNames, unevaluatedProperties := fix n.unevaluatedProperties, not := fix n.not,
    if_ := fix n.if_, then_ := fix n.then_, else_ := fix n.else_, contentSchema := fix n.contentSchema }
  pure (st2, root)

end Driver
