/-
  Wire format between the harness/generator and the model driver.
  Model-level JSON values travel in a tagged form that keeps object order:
     null, true/false, numbers (exact decimals), strings, arrays  as themselves
     objects as {"%": [[k, v], …]}
-/
import Lean.Data.Json
import JSV.Basic.Json
import JSV.Basic.Num
import JSV.Model.GoVal

namespace Driver
open JSV

def numToRat (n : Lean.JsonNumber) : Rat := mkRat n.mantissa (10 ^ n.exponent)

partial def decodeJson (j : Lean.Json) : Except String Json :=
  match j with
  | .null => pure .null
  | .bool b => pure (.bool b)
  | .num n => pure (.num (numToRat n))
  | .str s => pure (.str s)
  | .arr xs => do
    let ys ← xs.toList.mapM decodeJson
    pure (.arr ys)
  | .obj _ =>
    match j.getObjVal? "%" with
    | .ok (.arr kvs) => do
      let es ← kvs.toList.mapM fun kv =>
        match kv with
        | .arr #[.str k, v] => do
          let v' ← decodeJson v
          pure (k, v')
        | _ => throw "bad tagged object entry"
      pure (.obj es)
    | _ => throw "untagged object"

/-- exact decimal rendering is not always possible; numbers go back as {"n": num, "d": den} strings
    only when not decimal; the generators only use dyadic values so we render num/den. -/
partial def encodeJson : Json → Lean.Json
  | .null => .null
  | .bool b => .bool b
  | .num q => Lean.Json.mkObj [("#", .str s!"{q.num}/{q.den}")]
  | .str s => .str s
  | .arr xs => .arr (xs.map encodeJson).toArray
  | .obj kvs => Lean.Json.mkObj [("%", .arr (kvs.map (fun (k, v) => Lean.Json.arr #[.str k, encodeJson v])).toArray)]

def elemIsAny (t : String) : Bool :=
  -- "[]any", "[3]any", "map[string]any", "*any"
  if t.startsWith "[]" then (t.drop 2).toString == "any"
  else if t.startsWith "*" then (t.drop 1).toString == "any"
  else if t.startsWith "[" || t.startsWith "map[" then
    ((t.splitOn "]").drop 1 |> String.intercalate "]") == "any"
  else false

def intKinds : List String := ["int", "int8", "int16", "int32", "int64", "myint"]
def uintKinds : List String := ["uint", "uint8", "uint16", "uint32", "uint64", "uintptr"]
def floatKinds : List String := ["float32", "float64", "myfloat"]

/-- a value descriptor (see harness/goval.go) as the reflect view -/
partial def decodeGoVal (j : Lean.Json) : Except String GoVal := do
  if j.isNull then return .invalid
  let t ← j.getObjValAs? String "t"
  let v := (j.getObjVal? "v").toOption.getD .null
  let wrap (x : GoVal) : GoVal := if elemIsAny t then .iface x else x
  if t == "any" then
    return .iface (← decodeGoVal v)
  if t == "bool" then
    match v with
    | .bool b => return .bool b
    | _ => throw "bool payload"
  if t == "string" || t == "mystring" then
    match v with
    | .str s => return .str s
    | _ => throw "string payload"
  if t == "jnum" then
    match v with
    | .str s => return .jnum (Num.parseDecimal s) s
    | _ => throw "jnum payload"
  if intKinds.contains t then
    match v with
    | .str s => match s.toInt? with
      | some i => return .int i
      | none => throw "int payload"
    | _ => throw "int payload"
  if uintKinds.contains t then
    match v with
    | .str s => match s.toNat? with
      | some i => return .uint i
      | none => throw "uint payload"
    | _ => throw "uint payload"
  if floatKinds.contains t then
    match v with
    | .str s => match Num.parseDecimal s with
      | some q => return .float q
      | none => throw "float payload"
    | _ => throw "float payload"
  if t == "struct" then return .other .struct
  if t == "func" || t == "chan" || t == "complex128" then return .other .opaque
  if t.startsWith "*" then
    if v.isNull then return .ptr .invalid
    return .ptr (wrap (← decodeGoVal v))
  if t.startsWith "map[" then
    let keyT := ((t.drop 4).toString.splitOn "]").head!
    if keyT != "string" && keyT != "mystring" then return .other .badmap
    match v with
    | .arr kvs =>
      let es ← kvs.toList.mapM fun kv =>
        match kv with
        | .arr #[.str k, x] => do
          let x' ← decodeGoVal x
          pure (k, wrap x')
        | _ => throw "bad map entry"
      return .map es
    | _ => throw "map payload"
  if t.startsWith "[" then
    match v with
    | .arr xs =>
      let es ← xs.toList.mapM fun x => do
        let x' ← decodeGoVal x
        pure (wrap x')
      return .list es
    | _ => throw "list payload"
  throw s!"unknown type {t}"

def resToJson {α} (f : α → Lean.Json) : Res α → Lean.Json
  | .fuel => Lean.Json.mkObj [("outcome", "fuel")]
  | .panic => Lean.Json.mkObj [("outcome", "panic")]
  | .err => Lean.Json.mkObj [("outcome", "err")]
  | .ok a => f a

end Driver
