/-
  A small backtracking matcher for the fragment of Go regexp (RE2) syntax that the generators
  emit: literals, `.`, classes, escapes \d \w \s (and negations), groups, alternation, the
  quantifiers * + ? {n} {n,} {n,m} (greedy or lazy), anchors ^ $.  `MatchString` semantics:
  unanchored search.  The regular-expression engine is a *parameter* of the model (theorems hold for
  every engine); this instance only serves the correspondence runs.
-/
namespace Driver.Regex

inductive Re where
  | eps
  | cls (neg : Bool) (ranges : List (Char × Char))
  | any                       -- `.`: anything but \n
  | bol
  | eol
  | seq (a b : Re)
  | alt (a b : Re)
  | rep (r : Re) (min : Nat) (max : Option Nat)
  deriving Inhabited

abbrev Cs := List Char

def inRanges (c : Char) (rs : List (Char × Char)) : Bool := rs.any fun (a, b) => a ≤ c && c ≤ b

def digitR : List (Char × Char) := [('0', '9')]
def wordR : List (Char × Char) := [('0', '9'), ('A', 'Z'), ('a', 'z'), ('_', '_')]
def spaceR : List (Char × Char) := [('\t', '\n'), ('\x0c', '\r'), (' ', ' ')]

/-- escape after a backslash: a class or a literal char; none = unsupported/invalid -/
def escapeClass (c : Char) : Option Re :=
  match c with
  | 'd' => some (.cls false digitR)
  | 'D' => some (.cls true digitR)
  | 'w' => some (.cls false wordR)
  | 'W' => some (.cls true wordR)
  | 's' => some (.cls false spaceR)
  | 'S' => some (.cls true spaceR)
  | 'n' => some (.cls false [('\n', '\n')])
  | 't' => some (.cls false [('\t', '\t')])
  | 'r' => some (.cls false [('\r', '\r')])
  | c => if c.isAlphanum then none else some (.cls false [(c, c)])

def isMeta (c : Char) : Bool := "\\.+*?()|[]{}^$".toList.contains c

mutual
  /-- alternation -/
  partial def parseAlt (s : Cs) : Option (Re × Cs) :=
    match parseSeq s with
    | none => none
    | some (a, '|' :: rest) =>
      match parseAlt rest with
      | some (b, rest') => some (.alt a b, rest')
      | none => none
    | some r => some r

  partial def parseSeq (s : Cs) : Option (Re × Cs) :=
    match s with
    | [] => some (.eps, [])
    | '|' :: _ => some (.eps, s)
    | ')' :: _ => some (.eps, s)
    | _ =>
      match parseRepeat s with
      | none => none
      | some (a, rest) =>
        match parseSeq rest with
        | some (b, rest') => some (.seq a b, rest')
        | none => none

  partial def parseRepeat (s : Cs) : Option (Re × Cs) :=
    match parseAtom s with
    | none => none
    | some (a, rest) => parseQuant a rest

  partial def parseQuant (a : Re) (s : Cs) : Option (Re × Cs) :=
    let lazy (r : Cs) : Cs := match r with | '?' :: r' => r' | _ => r
    match s with
    | '*' :: rest => noDouble (.rep a 0 none) (lazy rest)
    | '+' :: rest => noDouble (.rep a 1 none) (lazy rest)
    | '?' :: rest => noDouble (.rep a 0 (some 1)) (lazy rest)
    | '{' :: rest =>
      let (d1, r1) := rest.span Char.isDigit
      if d1.isEmpty then some (a, s) -- literal '{' is handled by the atom parser next time: treat as no quantifier
      else
        let n := (String.ofList d1).toNat!
        match r1 with
        | '}' :: r2 => if n > 1000 then none else noDouble (.rep a n (some n)) (lazy r2)
        | ',' :: '}' :: r2 => if n > 1000 then none else noDouble (.rep a n none) (lazy r2)
        | ',' :: r2 =>
          let (d2, r3) := r2.span Char.isDigit
          match r3 with
          | '}' :: r4 =>
            if d2.isEmpty then some (a, s) else
            let m := (String.ofList d2).toNat!
            if m < n || m > 1000 then none else noDouble (.rep a n (some m)) (lazy r4)
          | _ => some (a, s)
        | _ => some (a, s)
    | _ => some (a, s)

  /-- Go rejects a second quantifier directly after a quantifier (`a**`, `a+*`) -/
  partial def noDouble (r : Re) (s : Cs) : Option (Re × Cs) :=
    match s with
    | '*' :: _ => none
    | '+' :: _ => none
    | '?' :: _ => none
    | _ => some (r, s)

  partial def parseAtom (s : Cs) : Option (Re × Cs) :=
    match s with
    | [] => none
    | '(' :: '?' :: ':' :: rest =>
      match parseAlt rest with
      | some (r, ')' :: rest') => some (r, rest')
      | _ => none
    | '(' :: '?' :: _ => none
    | '(' :: rest =>
      match parseAlt rest with
      | some (r, ')' :: rest') => some (r, rest')
      | _ => none
    | ')' :: _ => none
    | '[' :: rest => parseClass rest
    | '.' :: rest => some (.any, rest)
    | '^' :: rest => some (.bol, rest)
    | '$' :: rest => some (.eol, rest)
    | '\\' :: c :: rest => (escapeClass c).map fun r => (r, rest)
    | '\\' :: [] => none
    | '*' :: _ => none
    | '+' :: _ => none
    | '?' :: _ => none
    | c :: rest => some (.cls false [(c, c)], rest)

  partial def parseClass (s : Cs) : Option (Re × Cs) :=
    let (neg, s) := match s with | '^' :: r => (true, r) | r => (false, r)
    -- a leading ']' is a literal
    let rec loop (s : Cs) (acc : List (Char × Char)) (first : Bool) : Option (List (Char × Char) × Cs) :=
      match s with
      | [] => none
      | ']' :: rest => if first then loop rest (acc ++ [(']', ']')]) false else some (acc, rest)
      | '\\' :: c :: rest =>
        match escapeClass c with
        | some (.cls false rs) => loop rest (acc ++ rs) false
        | _ => none
      | a :: '-' :: b :: rest =>
        if b == ']' then loop ('-' :: b :: rest) (acc ++ [(a, a)]) false
        else if b == '\\' then none
        else if b < a then none else loop rest (acc ++ [(a, b)]) false
      | a :: rest => loop rest (acc ++ [(a, a)]) false
    match loop s [] true with
    | some (rs, rest) => some (.cls neg rs, rest)
    | none => none
end

def compile (pat : String) : Option Re :=
  match parseAlt pat.toList with
  | some (r, []) => some r
  | _ => none

/-- backtracking match of `r` at the head of `s`; `total` = length of the whole subject -/
partial def m (total : Nat) (r : Re) (s : Cs) (k : Cs → Bool) : Bool :=
  match r with
  | .eps => k s
  | .cls neg rs =>
    match s with
    | c :: rest => if inRanges c rs != neg then k rest else false
    | [] => false
  | .any =>
    match s with
    | c :: rest => if c != '\n' then k rest else false
    | [] => false
  | .bol => if s.length == total then k s else false
  | .eol => if s.isEmpty then k s else false
  | .seq a b => m total a s fun s' => m total b s' k
  | .alt a b => m total a s k || m total b s k
  | .rep a mn mx =>
    if mx == some 0 then k s
    else
      -- one more iteration (must consume when the minimum is already met, to terminate)
      (m total a s fun s' =>
        if mn == 0 && s'.length == s.length then false
        else m total (.rep a (mn - 1) (mx.map (· - 1))) s' k)
      || (if mn == 0 then k s else false)

/-- regexp.MatchString: does some substring match -/
partial def search (r : Re) (subject : String) : Bool :=
  let cs := subject.toList
  let total := cs.length
  let rec go (s : Cs) : Bool :=
    m total r s (fun _ => true) || (match s with | [] => false | _ :: rest => go rest)
  go cs

def compiles (pat : String) : Bool := (compile pat).isSome

def matchString (pat subject : String) : Bool :=
  match compile pat with
  | some r => search r subject
  | none => false

end Driver.Regex
