/-
  Helper lemmas for C17: the path strings recorded by checkStructure are JSON Pointers that
  dereference to the schema they were recorded for.
-/
import JSV.Model.Resolve
import JSV.Proofs.PtrWalk
namespace JSV
namespace Pointer
open Go

theorem Path.append {st : Store} {a b c : NodeId} {p q : List String}
    (h1 : Path st a p b) (h2 : Path st b q c) : Path st a (p ++ q) c := by
  induction h1 with
  | nil a => exact h2
  | one hn hm _ ih => exact .one hn hm (ih h2)
  | many hn hm hi hlt _ ih => exact .many hn hm hi hlt (ih h2)
  | keyed hn hm hk _ ih => exact .keyed hn hm hk (ih h2)

theorem Path.nil_eq {st : Store} {a t : NodeId} (h : Path st a [] t) : t = a := by
  cases h; rfl

/-! ### segments the escaper leaves alone -/

theorem escChars_eq_self (s : Cs) (h : ∀ c ∈ s, c ≠ '~' ∧ c ≠ '/') : s.flatMap escChar = s := by
  induction s with
  | nil => rfl
  | cons c r ih =>
    rw [List.flatMap_cons, ih (fun x hx => h x (List.mem_cons_of_mem _ hx))]
    have := h c (by simp)
    simp [escChar, this.1, this.2]

theorem escapeSegment_eq_self (s : String) (h : ∀ c ∈ s.toList, c ≠ '~' ∧ c ≠ '/') :
    escapeSegment s = s := by
  rw [← String.toList_inj, toList_escapeSegment, escChars_eq_self _ h]

theorem escapeSegment_toString (i : Nat) : escapeSegment (toString i) = toString i := by
  apply escapeSegment_eq_self
  intro c hc
  rw [Nat.toString_eq_repr, Nat.toList_repr] at hc
  have := (isDig_iff c).mp (isDig_of_mem_toDigits i c hc)
  constructor <;> (rintro rfl; simp at this)

theorem escapeSegment_one (n : Node) (j : String) (x : Option NodeId)
    (h : ChildField.one j x ∈ n.childFields) : escapeSegment j = j := by
  simp only [Node.childFields, List.mem_cons, ChildField.one.injEq, reduceCtorEq, List.mem_nil_iff,
    or_false, false_or] at h
  rcases h with ⟨rfl, _⟩ | ⟨rfl, _⟩ | ⟨rfl, _⟩ | ⟨rfl, _⟩ | ⟨rfl, _⟩ | ⟨rfl, _⟩ | ⟨rfl, _⟩ | ⟨rfl, _⟩ |
    ⟨rfl, _⟩ | ⟨rfl, _⟩ | ⟨rfl, _⟩ | ⟨rfl, _⟩ <;> decide

theorem escapeSegment_many (n : Node) (j : String) (x : Option (List NodeId))
    (h : ChildField.many j x ∈ n.childFields) : escapeSegment j = j := by
  simp only [Node.childFields, List.mem_cons, ChildField.many.injEq, reduceCtorEq, List.mem_nil_iff,
    or_false, false_or] at h
  rcases h with ⟨rfl, _⟩ | ⟨rfl, _⟩ | ⟨rfl, _⟩ | ⟨rfl, _⟩ | ⟨rfl, _⟩ <;> decide

theorem escapeSegment_keyed (n : Node) (j : String) (x : Option (List (String × NodeId)))
    (h : ChildField.keyed j x ∈ n.childFields) : escapeSegment j = j := by
  simp only [Node.childFields, List.mem_cons, ChildField.keyed.injEq, reduceCtorEq, List.mem_nil_iff,
    or_false, false_or] at h
  rcases h with ⟨rfl, _⟩ | ⟨rfl, _⟩ | ⟨rfl, _⟩ | ⟨rfl, _⟩ | ⟨rfl, _⟩ | ⟨rfl, _⟩ <;> decide

theorem itemsArray_of_mem (n : Node) (x : Option (List NodeId))
    (h : ChildField.many "items" x ∈ n.childFields) : n.itemsArray = x := by
  simp only [Node.childFields, List.mem_cons, ChildField.many.injEq, reduceCtorEq, List.mem_nil_iff,
    or_false, false_or] at h
  simp at h
  exact h.symm

/-! ### render of an extended path -/

theorem slash_toList : "/".toList = ['/'] := by decide

theorem render_snoc (p : List String) (a : String) :
    render (p ++ [a]) = render p ++ "/" ++ escapeSegment a := by
  rw [← String.toList_inj]
  simp only [toList_render, String.toList_append, List.flatMap_append, List.flatMap_cons,
    List.flatMap_nil, slash_toList, toList_escapeSegment, escL]
  simp

theorem render_snoc2 (p : List String) (a b : String) :
    render (p ++ [a, b]) = render p ++ "/" ++ escapeSegment a ++ "/" ++ escapeSegment b := by
  have : p ++ [a, b] = (p ++ [a]) ++ [b] := by simp
  rw [this, render_snoc, render_snoc]

/-! ### one level of checkStructure's traversal -/

theorem lookup_of_mem_nodup {α} (kvs : List (String × α)) (k : String) (c : α)
    (hm : (k, c) ∈ kvs) (hn : (kvs.map (·.1)).Nodup) : Json.lookup k kvs = some c := by
  induction kvs with
  | nil => simp at hm
  | cons e r ih =>
    obtain ⟨k', v⟩ := e
    rw [Json.lookup_cons]
    simp only [List.map_cons, List.nodup_cons] at hn
    rcases List.mem_cons.mp hm with h | h
    · simp only [Prod.mk.injEq] at h; simp [h.1, h.2]
    · have hne : k' ≠ k := by
        rintro rfl
        exact hn.1 (List.mem_map.mpr ⟨(k', c), h, rfl⟩)
      simp [hne, ih h hn.2]

/-- what the theorem needs of a visited schema: the union field `items` holds at most one of its
    two forms (part of basicChecks), and the association lists that stand for Go maps have distinct
    keys -/
def NodeOk (n : Node) : Prop :=
  (n.items = none ∨ n.itemsArray = none) ∧
  ∀ j kvs, ChildField.keyed j (some kvs) ∈ n.childFields → (kvs.map (·.1)).Nodup

theorem basicChecksOk_items (n : Node) (h : basicChecksOk n = true) :
    n.items = none ∨ n.itemsArray = none := by
  simp only [basicChecksOk, Bool.and_eq_true, Bool.not_eq_true'] at h
  have := h.1.1.2
  cases hi : n.items <;> cases ha : n.itemsArray <;> simp_all

theorem childEntries_spec (st : Store) (a : NodeId) (n : Node) (p : List String)
    (hn : st.get? a = some n) (hok : NodeOk n) (c : NodeId) (q : String)
    (h : (c, q) ∈ childEntries n (render p)) :
    ∃ p', Path st a p' c ∧ q = render (p ++ p') := by
  unfold childEntries at h
  rw [List.mem_flatMap] at h
  obtain ⟨f, hf, h⟩ := h
  cases f with
  | one j x =>
    cases x with
    | none => simp at h
    | some c' =>
      simp only [List.mem_singleton, Prod.mk.injEq] at h
      obtain ⟨rfl, rfl⟩ := h
      exact ⟨[j], .one hn hf (.nil _), by rw [render_snoc, escapeSegment_one n j _ hf]⟩
  | many j x =>
    cases x with
    | none => simp at h
    | some cs =>
      simp only [Option.getD_some, List.mem_map] at h
      obtain ⟨⟨c', i⟩, hm, heq⟩ := h
      simp only [Prod.mk.injEq] at heq
      obtain ⟨rfl, rfl⟩ := heq
      obtain ⟨hi, hc⟩ := List.mem_zipIdx' hm
      refine ⟨[j, toString i], ?_, by rw [render_snoc2, escapeSegment_many n j _ hf, escapeSegment_toString]⟩
      rw [hc]
      refine .many hn hf ?_ hi (.nil _)
      rintro rfl
      have := itemsArray_of_mem n _ hf
      rcases hok.1 with h | h
      · exact h
      · rw [h] at this; simp at this
  | keyed j x =>
    cases x with
    | none => simp at h
    | some kvs =>
      simp only [Option.getD_some, List.mem_map] at h
      obtain ⟨⟨k, c'⟩, hm, heq⟩ := h
      simp only [Prod.mk.injEq] at heq
      obtain ⟨rfl, rfl⟩ := heq
      exact ⟨[j, k], .keyed hn hf (lookup_of_mem_nodup kvs k c' hm (hok.2 j kvs hf)) (.nil _),
        by rw [render_snoc2, escapeSegment_keyed n j _ hf]⟩

/-! ### checkStructure -/

theorem render_eq_empty (p : List String) (h : render p = "") : p = [] := by
  cases p with
  | nil => rfl
  | cons s ss =>
    have := congrArg String.toList h
    rw [toList_render] at this
    simp at this

/-- an entry of checkStructure's result: the schema exists, and the recorded path is the rendering of
    a chain of schema-bearing fields from the root to it ("root" standing for the empty pointer) -/
def AccOk (st : Store) (root : NodeId) (e : NodeId × Info) : Prop :=
  (st.get? e.1).isSome = true ∧
  ∃ p, Path st root p e.1 ∧ e.2.path = if render p == "" then "root" else render p

theorem checkStructure_acc_subset (st : Store) : ∀ fuel work acc res,
    checkStructure st fuel work acc = .ok res → ∀ e ∈ acc, e ∈ res := by
  intro fuel
  induction fuel with
  | zero => intro work acc res h; simp [checkStructure] at h
  | succ fuel ih =>
    intro work acc res h e he
    cases work with
    | nil => simp [checkStructure] at h; subst h; exact he
    | cons w work =>
      obtain ⟨id, path⟩ := w
      rw [checkStructure] at h
      split at h
      · simp at h
      · split at h
        · simp at h
        · exact ih _ _ _ h e (List.mem_append_left _ he)

theorem checkStructure_paths (st : Store) (root : NodeId) : ∀ fuel work acc res,
    checkStructure st fuel work acc = .ok res →
    (∀ e ∈ res, ∀ n, st.get? e.1 = some n → NodeOk n) →
    (∀ w ∈ work, ∃ p, Path st root p w.1 ∧ w.2 = render p) →
    (∀ e ∈ acc, AccOk st root e) →
    ∀ e ∈ res, AccOk st root e := by
  intro fuel
  induction fuel with
  | zero => intro work acc res h; simp [checkStructure] at h
  | succ fuel ih =>
    intro work acc res h hok hwork hacc
    cases work with
    | nil => simp [checkStructure] at h; subst h; exact hacc
    | cons w work =>
      obtain ⟨id, path⟩ := w
      rw [checkStructure] at h
      split at h
      · simp at h
      · rename_i n hn
        split at h
        · simp at h
        · obtain ⟨p0, hp0, hpath⟩ := hwork (id, path) (by simp)
          simp only at hpath
          have hmem : (id, ({ path := if path == "" then "root" else path } : Info)) ∈ res :=
            checkStructure_acc_subset st _ _ _ _ h _ (by simp)
          have hnok : NodeOk n := hok _ hmem n hn
          apply ih _ _ _ h hok
          · intro w hw
            rcases List.mem_append.mp hw with hw | hw
            · obtain ⟨c, q⟩ := w
              rw [hpath] at hw
              obtain ⟨p', hp', hq⟩ := childEntries_spec st id n p0 hn hnok c q hw
              exact ⟨p0 ++ p', hp0.append hp', hq⟩
            · exact hwork w (List.mem_cons_of_mem _ hw)
          · intro e he
            rcases List.mem_append.mp he with he | he
            · exact hacc e he
            · simp only [List.mem_singleton] at he
              subst he
              exact ⟨by rw [hn]; rfl, p0, hp0, by rw [hpath]⟩

/-- every schema registered by checkStructure is addressable by the path recorded for it -/
theorem checkStructure_addressable (st : Store) (fuel : Nat) (root : NodeId) (res : List (NodeId × Info))
    (h : checkStructure st fuel [(root, "")] [] = .ok res)
    (hok : ∀ e ∈ res, ∀ n, st.get? e.1 = some n → NodeOk n) :
    ∀ e ∈ res, (e.1 = root ∧ e.2.path = "root") ∨
      dereference st true true root e.2.path = .ok e.1 := by
  intro e he
  have := checkStructure_paths st root fuel _ _ _ h hok
    (by intro w hw; simp only [List.mem_singleton] at hw; subst hw; exact ⟨[], .nil _, rfl⟩)
    (fun _ h => absurd h (by simp)) e he
  obtain ⟨hex, p, hp, hpath⟩ := this
  by_cases hr : render p = ""
  · left
    have := render_eq_empty p hr
    subst this
    exact ⟨hp.nil_eq, by rw [hpath]; rfl⟩
  · right
    have : (render p == "") = false := by simpa using hr
    rw [this] at hpath
    simp only [Bool.false_eq_true, if_false] at hpath
    rw [hpath, dereference_of_walk st true true root _ p _ (parse_render p) (walk_path st true hp)]
    cases hg : st.get? e.1 <;> simp_all [finish]

end Pointer
end JSV
