/-
  C14 helpers, part 3: every keyword of the Spec is invariant under key permutation of the instance and of the
  schema-side maps.
-/
import JSV.Proofs.InvPerm2
import JSV.Proofs.Refine
namespace JSV
namespace Inv
open Go GoVal

/-! ## permuted schema objects and stores -/

/-- `none`/`none`, or two orders of the same entry list -/
def optPerm {α : Type} : Option (List α) → Option (List α) → Prop
  | none, none => True
  | some a, some b => a.Perm b
  | _, _ => False

theorem optPerm.getD {α : Type} {a b : Option (List α)} (h : optPerm a b) : (a.getD []).Perm (b.getD []) := by
  cases a <;> cases b <;> simp_all [optPerm]

theorem optPerm.refl {α : Type} (a : Option (List α)) : optPerm a a := by
  cases a <;> simp [optPerm]

/-- replace the eight maps of a schema object -/
@[reducible] def withMaps (a : Node) (p pp d df ds : Option (List (String × NodeId)))
    (dst dr : Option (List (String × Option (List String)))) (dsc : Option (List (String × NodeId))) : Node :=
  { a with properties := p, patternProperties := pp, defs := d, definitions := df, dependencySchemas := ds,
           dependencyStrings := dst, dependentRequired := dr, dependentSchemas := dsc }

/-- `b` is `a` with the entry lists of its eight maps reordered; every other field is the same -/
def permNode (a b : Node) : Prop :=
  ∃ p pp d df ds dst dr dsc,
    optPerm a.properties p ∧ optPerm a.patternProperties pp ∧ optPerm a.defs d ∧ optPerm a.definitions df ∧
    optPerm a.dependencySchemas ds ∧ optPerm a.dependencyStrings dst ∧ optPerm a.dependentRequired dr ∧
    optPerm a.dependentSchemas dsc ∧ b = withMaps a p pp d df ds dst dr dsc

theorem permNode.refl (a : Node) : permNode a a :=
  ⟨_, _, _, _, _, _, _, _, optPerm.refl _, optPerm.refl _, optPerm.refl _, optPerm.refl _, optPerm.refl _,
    optPerm.refl _, optPerm.refl _, optPerm.refl _, rfl⟩

/-- the same schema objects at the same places, up to the order of their maps -/
def permStore (s1 s2 : Store) : Prop :=
  s1.size = s2.size ∧
  ∀ i, match s1.get? i, s2.get? i with
    | some a, some b => permNode a b
    | none, none => True
    | _, _ => False

theorem permStore.refl (s : Store) : permStore s s :=
  ⟨rfl, fun i => by cases h : s.get? i <;> simp [permNode.refl]⟩

/-! ## facts about `permJson` -/

theorem permJson_typeName {a b : Json} (h : permJson a b) : a.typeName = b.typeName := by
  cases a <;> cases b <;> simp_all [permJson, Json.typeName]

/-- entries related by key and value, the left value well formed -/
def ERW (p q : String × Json) : Prop := p.1 = q.1 ∧ permJson p.2 q.2 ∧ Json.WF p.2 = true

/-- elements related, the left one well formed -/
def JRW (x y : Json) : Prop := permJson x y ∧ Json.WF x = true

theorem permJson_obj_PR {k1 k2 : List (String × Json)} (h : permJson (.obj k1) (.obj k2))
    (hw : Json.WF (.obj k1) = true) : PR ERW k1 k2 := by
  obtain ⟨k', h1, h2⟩ := permJson_obj.1 h
  have hw' := (WF_obj_iff.1 hw).2
  exact PR.imp_mem (PR.perm_right (PR.of_all₂ h1) h2) (fun a b ha _ hr => ⟨hr.1, hr.2, hw' a ha⟩)

theorem permJson_arr_all₂ {xs ys : List Json} (h : permJson (.arr xs) (.arr ys)) (hw : Json.WF (.arr xs) = true) :
    All₂ JRW xs ys :=
  All₂.imp (fun a _ ha _ hr => ⟨hr, (WF_arr_iff.1 hw) a ha⟩) (permJson_arr.1 h)

theorem PR_ERW_keys {k1 k2 : List (String × Json)} (h : PR ERW k1 k2) : (k1.map (·.1)).Perm (k2.map (·.1)) :=
  PR.perm_of_eq (PR.map _ _ h (fun _ _ hr => hr.1))

theorem lookup_isSome_PR {k1 k2 : List (String × Json)} (h : PR ERW k1 k2) (k : String) :
    (Json.lookup k k1).isSome = (Json.lookup k k2).isSome := by
  rw [Bool.eq_iff_iff, Refine.lookup_isSome_iff, Refine.lookup_isSome_iff]
  exact (PR_ERW_keys h).mem_iff

/-- first-hit lookup in a duplicate-free association list does not depend on the order -/
theorem lookup_perm {α : Type} {l1 l2 : List (String × α)} (hp : l1.Perm l2) (hn : (Json.keys l1).Nodup) (k : String) :
    Json.lookup k l1 = Json.lookup k l2 := by
  have hn2 : (Json.keys l2).Nodup := (hp.map (fun (p : String × α) => p.1)).nodup_iff.1 hn
  cases h1 : Json.lookup k l1 with
  | some v =>
    have := Json.mem_of_lookup h1
    exact (Json.lookup_of_mem_nodup hn2 (hp.mem_iff.1 this)).symm
  | none =>
    cases h2 : Json.lookup k l2 with
    | none => rfl
    | some v =>
      have := Json.mem_of_lookup h2
      rw [Json.lookup_of_mem_nodup hn (hp.mem_iff.2 this)] at h1
      cases h1

/-! ## `eqv` against values equal up to key order -/

theorem eqv_perm_right (e : Json) {a b : Json} (h : permJson a b) (ha : Json.WF a = true) :
    Json.eqv e a = Json.eqv e b := by
  have hb := permJson_WF a b h ha
  have hab := eqv_perm a b h ha hb
  have hba : Json.eqv b a = true := by rw [Json.eqv_symm_of_WF b a hb ha]; exact hab
  rw [Bool.eq_iff_iff]
  exact ⟨fun h1 => Json.eqv_trans_imp e a b h1 hab, fun h1 => Json.eqv_trans_imp e b a h1 hba⟩

theorem eqv_perm_both {a b c d : Json} (h1 : permJson a b) (h2 : permJson c d) (ha : Json.WF a = true)
    (hc : Json.WF c = true) : Json.eqv a c = Json.eqv b d := by
  have hb := permJson_WF a b h1 ha
  have hd := permJson_WF c d h2 hc
  rw [eqv_perm_right a h2 hc, Json.eqv_symm_of_WF a d ha hd, eqv_perm_right d h1 ha, Json.eqv_symm_of_WF d b hd hb]

theorem distinct_sim : ∀ {xs ys : List Json}, All₂ JRW xs ys → Spec.distinct xs = Spec.distinct ys
  | [], [], _ => rfl
  | x :: xs, y :: ys, h => by
    simp only [Spec.distinct]
    rw [distinct_sim h.2]
    congr 1
    exact PR.all_eq _ _ (PR.of_all₂ h.2) (fun a b hr => by rw [eqv_perm_both h.1.1 hr.1 h.1.2 hr.2])
  | [], _ :: _, h => h.elim
  | _ :: _, [], h => h.elim

/-! ## the assertions -/

theorem typeOk_sim (n : Node) {j1 j2 : Json} (h : permJson j1 j2) : Spec.typeOk n j1 = Spec.typeOk n j2 := by
  unfold Spec.typeOk Spec.typeMatches
  simp only [permJson_typeName h]

theorem enumOk_sim (n : Node) {j1 j2 : Json} (h : permJson j1 j2) (hw : Json.WF j1 = true) :
    Spec.enumOk n j1 = Spec.enumOk n j2 := by
  unfold Spec.enumOk
  cases n.enum with
  | none => rfl
  | some es => simp only [eqv_perm_right _ h hw]

theorem constOk_sim (n : Node) {j1 j2 : Json} (h : permJson j1 j2) (hw : Json.WF j1 = true) :
    Spec.constOk n j1 = Spec.constOk n j2 := by
  unfold Spec.constOk
  cases n.const with
  | none => rfl
  | some c => simp only [eqv_perm_right _ h hw]

theorem numericOk_sim (n : Node) {j1 j2 : Json} (h : permJson j1 j2) : Spec.numericOk n j1 = Spec.numericOk n j2 := by
  cases j1 <;> cases j2 <;> simp_all [permJson, Spec.numericOk]

theorem stringOk_sim (env : Spec.Env) (n : Node) {j1 j2 : Json} (h : permJson j1 j2) :
    Spec.stringOk env n j1 = Spec.stringOk env n j2 := by
  cases j1 <;> cases j2 <;> simp_all [permJson, Spec.stringOk]

theorem arrayLimitsOk_sim (n : Node) {j1 j2 : Json} (h : permJson j1 j2) (hw : Json.WF j1 = true) :
    Spec.arrayLimitsOk n j1 = Spec.arrayLimitsOk n j2 := by
  cases j1 <;> cases j2 <;> try (first | rfl | (simp [permJson] at h; done))
  rename_i xs ys
  have ha := permJson_arr_all₂ h hw
  simp only [Spec.arrayLimitsOk, ha.length, distinct_sim ha]

theorem objectLimitsOk_sim (env : Spec.Env) (n1 n2 : Node) (hmin : n2.minProperties = n1.minProperties)
    (hmax : n2.maxProperties = n1.maxProperties) (hreq : n2.required = n1.required)
    (hds : (n1.dependencyStrings.getD []).Perm (n2.dependencyStrings.getD []))
    (hdr : (n1.dependentRequired.getD []).Perm (n2.dependentRequired.getD []))
    {j1 j2 : Json} (h : permJson j1 j2) (hw : Json.WF j1 = true) :
    Spec.objectLimitsOk env n1 j1 = Spec.objectLimitsOk env n2 j2 := by
  cases j1 <;> cases j2 <;> try (first | rfl | (simp [permJson] at h; done))
  rename_i k1 k2
  have hpr := permJson_obj_PR h hw
  have hdep : (match env.draft with
      | .d7 => n1.dependencyStrings.getD []
      | .d2020 => n1.dependentRequired.getD []).Perm
      (match env.draft with
      | .d7 => n2.dependencyStrings.getD []
      | .d2020 => n2.dependentRequired.getD []) := by
    cases env.draft <;> assumption
  simp only [Spec.objectLimitsOk, hmin, hmax, hreq, hpr.length, lookup_isSome_PR hpr]
  congr 1
  exact PR.all_eq _ _ (PR.of_perm (R := (· = ·)) (fun _ _ => rfl) hdep) (fun a b hab => by subst hab; rfl)

/-! ## keywords that apply subschemas -/

/-- the induction hypothesis: the recursive calls agree on instances equal up to key order -/
def SubSim (sub1 sub2 : NodeId → Json → Spec.Out) : Prop :=
  ∀ t j1 j2, permJson j1 j2 → Json.WF j1 = true → OutSim (sub1 t j1) (sub2 t j2)

section
variable {sub1 sub2 : NodeId → Json → Spec.Out} (hs : SubSim sub1 sub2)
variable {j1 j2 : Json} (hj : permJson j1 j2) (hw : Json.WF j1 = true)
include hs hj hw

theorem ids_sim (ss : List NodeId) :
    PR OutSim (ss.map fun t => sub1 t j1) (ss.map fun t => sub2 t j2) :=
  PR.of_all₂ (All₂.map _ _ (fun a b (h : a = b) => by subst h; exact hs a j1 j2 hj hw)
    (All₂.refl (R := (· = ·)) (fun _ _ => rfl)))

theorem inPlace_sim (present : Bool) (t : Option NodeId) :
    OutSim (Spec.inPlace sub1 present t j1) (Spec.inPlace sub2 present t j2) := by
  unfold Spec.inPlace
  cases present
  · simp only [Bool.false_eq_true, if_false]; exact OutSim_empty
  · simp only [if_true]
    cases t with
    | none => trivial
    | some t => exact hs t j1 j2 hj hw

theorem kwRef_sim (env : Spec.Env) (s : NodeId) (n : Node) :
    OutSim (Spec.kwRef env sub1 s n j1) (Spec.kwRef env sub2 s n j2) :=
  inPlace_sim hs hj hw _ _

theorem kwDynamicRef_sim (env : Spec.Env) (scope : List NodeId) (s : NodeId) (n : Node) :
    OutSim (Spec.kwDynamicRef env sub1 scope s n j1) (Spec.kwDynamicRef env sub2 scope s n j2) := by
  unfold Spec.kwDynamicRef
  split
  · cases env.dynInitial s with
    | none => trivial
    | some initial => exact hs _ j1 j2 hj hw
  · exact OutSim_empty

theorem kwAllOf_sim (n : Node) : OutSim (Spec.kwAllOf sub1 n j1) (Spec.kwAllOf sub2 n j2) := by
  unfold Spec.kwAllOf
  cases n.allOf with
  | none => exact OutSim_empty
  | some ss => exact seq_map_sim (ids_sim hs hj hw ss) _ _ (fun _ _ h => conj_sim h)

theorem kwAnyOf_sim (n : Node) : OutSim (Spec.kwAnyOf sub1 n j1) (Spec.kwAnyOf sub2 n j2) := by
  unfold Spec.kwAnyOf
  cases n.anyOf with
  | none => exact OutSim_empty
  | some ss =>
    refine seq_map_sim (ids_sim hs hj hw ss) _ _ (fun rs1 rs2 h => ?_)
    simp only [validCount_sim h]
    split
    · exact validUnion_sim h
    · trivial

theorem kwOneOf_sim (n : Node) : OutSim (Spec.kwOneOf sub1 n j1) (Spec.kwOneOf sub2 n j2) := by
  unfold Spec.kwOneOf
  cases n.oneOf with
  | none => exact OutSim_empty
  | some ss =>
    refine seq_map_sim (ids_sim hs hj hw ss) _ _ (fun rs1 rs2 h => ?_)
    simp only [validCount_sim h]
    split
    · exact validUnion_sim h
    · trivial

theorem kwNot_sim (n : Node) : OutSim (Spec.kwNot sub1 n j1) (Spec.kwNot sub2 n j2) := by
  unfold Spec.kwNot
  cases n.not with
  | none => exact OutSim_empty
  | some t =>
    refine OptRel.map (hs t j1 j2 hj hw) (fun r1 r2 hr => ?_)
    simp only [RSim.isSome_eq hr]
    split
    · trivial
    · exact EvEqv.refl _

theorem kwIf_sim (n : Node) : OutSim (Spec.kwIf sub1 n j1) (Spec.kwIf sub2 n j2) := by
  unfold Spec.kwIf
  cases n.if_ with
  | none => exact OutSim_empty
  | some c =>
    have hc := hs c j1 j2 hj hw
    dsimp only
    generalize sub1 c j1 = o1 at hc ⊢
    generalize sub2 c j2 = o2 at hc ⊢
    cases o1 <;> cases o2
    · trivial
    · exact hc.elim
    · exact hc.elim
    · rename_i rc1 rc2
      have hsome : rc1.isSome = rc2.isSome := RSim.isSome_eq hc
      have hev : EvEqv (rc1.getD {}) (rc2.getD {}) := by
        cases rc1 <;> cases rc2
        · exact EvEqv.refl _
        · exact hc.elim
        · exact hc.elim
        · exact hc
      dsimp only
      rw [hsome]
      cases (if rc2.isSome = true then n.then_ else n.else_) with
      | none => exact hev
      | some b =>
        refine OptRel.map (hs b j1 j2 hj hw) (fun r1 r2 hr => ?_)
        exact OptRel.map hr (fun e1 e2 he => EvEqv.union hev he)

end

end Inv
end JSV
