/-
  `forTypeE` is conservative over `forType`: on a type without embedded fields (`GoType.toE`) whose structs have
  pairwise distinct Go field names (which the Go compiler and reflect.StructOf enforce) the two models return the
  same result and the same store.
-/
import JSV.Model.InferEmb
import JSV.Proofs.InfEqns
namespace JSV
namespace Go

mutual
  /-- the Go field names of every struct type in `T` are pairwise distinct -/
  def DistinctNames : GoType → Bool
    | .basic _ => true
    | .named _ u => DistinctNames u
    | .ref _ => true
    | .ptr e => DistinctNames e
    | .slice e => DistinctNames e
    | .array _ e => DistinctNames e
    | .map _ e => DistinctNames e
    | .struct fs => EncJson.nodup (goNamesOf fs) && distinctNamesFields fs
  def distinctNamesFields : List (String × String × GoType) → Bool
    | [] => true
    | f :: rest => DistinctNames f.2.2 && distinctNamesFields rest
  def goNamesOf : List (String × String × GoType) → List String
    | [] => []
    | f :: rest => f.1 :: goNamesOf rest
end

/-! ## VisibleFields of a struct without embedded fields -/

/-- the declared fields as `reflect.StructField`s -/
def plainV (pre : List Nat) : Nat → List (String × String × GoType) → List VField
  | _, [] => []
  | i, f :: rest =>
    { index := pre ++ [i], goName := f.1, tag := f.2.1, exported := true, anonymous := false, type := f.2.2.toE } ::
      plainV pre (i + 1) rest

theorem allFields_toE (pre : List Nat) : ∀ (i : Nat) (fs : List (String × String × GoType)),
    allFields pre i (fieldsToE fs) = plainV pre i fs
  | _, [] => by simp only [fieldsToE, allFields, plainV]
  | i, f :: rest => by
    simp only [fieldsToE, allFields, plainV, Bool.false_eq_true, if_false, List.nil_append]
    rw [allFields_toE pre (i + 1) rest]

theorem plainV_goNames (pre : List Nat) : ∀ (i : Nat) (fs : List (String × String × GoType)),
    (plainV pre i fs).map (·.goName) = goNamesOf fs
  | _, [] => by simp only [plainV, goNamesOf, List.map_nil]
  | i, f :: rest => by
    simp only [plainV, goNamesOf, List.map_cons]
    rw [plainV_goNames pre (i + 1) rest]

theorem eq_of_nodup_map {α β} (g : α → β) : ∀ {l : List α}, (l.map g).Nodup → ∀ {a b}, a ∈ l → b ∈ l → g a = g b → a = b
  | [], _, _, _, ha, _, _ => nomatch ha
  | x :: l, h, a, b, ha, hb, hg => by
    rw [List.map_cons, List.nodup_cons] at h
    rcases List.mem_cons.1 ha with ha | ha
    · rcases List.mem_cons.1 hb with hb | hb
      · rw [ha, hb]
      · exact absurd (by rw [← ha, hg]; exact List.mem_map_of_mem hb) h.1
    · rcases List.mem_cons.1 hb with hb | hb
      · exact absurd (by rw [← hb, ← hg]; exact List.mem_map_of_mem ha) h.1
      · exact eq_of_nodup_map g h.2 ha hb hg

/-- with distinct Go names nothing is hidden -/
theorem visibleFields_toE (fs : List (String × String × GoType)) (h : EncJson.nodup (goNamesOf fs) = true) :
    visibleFields (fieldsToE fs) = plainV [] 0 fs := by
  unfold visibleFields
  rw [allFields_toE]
  refine List.filter_eq_self.2 fun f hf => ?_
  unfold isVisible
  rw [List.all_eq_true]
  intro o ho
  have hnd : ((plainV [] 0 fs).map (·.goName)).Nodup := by
    rw [plainV_goNames]
    exact (nodup_iff _).1 h
  by_cases hn : o.goName = f.goName
  · have : o = f := eq_of_nodup_map (·.goName) hnd ho hf hn
    subst this
    simp
  · simp [hn]

/-! ## the loop -/

theorem structLoopE_plain (opts : IOpts) {recE : IRecE} {rec : IRec} (seen : List String) (pre : List Nat) :
    ∀ (fs : List (String × String × GoType)) (i : Nat) (n : Node) (st : Store),
      (∀ f, f ∈ fs → ∀ s, recE f.2.2.toE seen s = rec f.2.2 seen s) →
      structLoopE opts recE seen (plainV pre i fs) none n st = structLoop rec seen fs n st
  | [], _, _, _, _ => by simp only [plainV, structLoopE, structLoop]
  | (g, tag, ft) :: rest, i, n, st, hrec => by
    have ih := fun n st => structLoopE_plain opts seen pre rest (i + 1) n st fun f hf => hrec f (List.mem_cons_of_mem _ hf)
    have hr : ∀ s, recE ft.toE seen s = rec ft seen s := hrec _ List.mem_cons_self
    simp only [plainV, structLoopE, structLoop, Bool.false_eq_true, if_false, underSkip, fieldStepE, fieldJSONInfoE, if_true]
    split
    · rw [Res.bind_ok]
      exact ih _ _
    · rw [Res.bind_assoc, hr]
      refine Res.bind_congr fun r => ?_
      obtain ⟨fs', st1⟩ := r
      cases fs' with
      | none =>
        simp only [Res.bind_ok]
        exact ih _ _
      | some fid =>
        simp only
        generalize tagLookup "jsonschema" tag = o
        cases o with
        | none =>
          simp only [Res.bind_ok]
          exact ih _ _
        | some d =>
          by_cases hd : d = ""
          · subst hd
            rfl
          · simp only [hd, if_false]
            by_cases hb : badDescription d = true
            · have hb' := hb
              unfold badDescription at hb'
              simp only [hb, hb', if_true, Res.bind_err]
            · have hb' := hb
              unfold badDescription at hb'
              simp only [hb, hb']
              exact ih _ _

/-! ## the step -/

theorem stripPtrsE_toE : ∀ T : GoType, stripPtrsE T.toE = ((stripPtrs T).1.toE, (stripPtrs T).2)
  | .ptr e => by
    simp only [GoType.toE, stripPtrsE, stripPtrs]
    rw [stripPtrsE_toE e]
  | .basic _ => rfl
  | .named _ _ => rfl
  | .ref _ => rfl
  | .slice _ => rfl
  | .array _ _ => rfl
  | .map _ _ => rfl
  | .struct _ => rfl

theorem distinctNames_stripPtrs : ∀ T : GoType, DistinctNames (stripPtrs T).1 = DistinctNames T
  | .ptr e => by
    simp only [stripPtrs, DistinctNames]
    exact distinctNames_stripPtrs e
  | .basic _ => rfl
  | .named _ _ => rfl
  | .ref _ => rfl
  | .slice _ => rfl
  | .array _ _ => rfl
  | .map _ _ => rfl
  | .struct _ => rfl

theorem typeNameE_toE : ∀ t : GoType, typeNameE t.toE = typeName t
  | .ptr _ => rfl
  | .basic _ => rfl
  | .named _ _ => rfl
  | .ref _ => rfl
  | .slice _ => rfl
  | .array _ _ => rfl
  | .map _ _ => rfl
  | .struct _ => rfl

theorem distinctNamesFields_mem : ∀ {fs : List (String × String × GoType)}, distinctNamesFields fs = true →
    ∀ f, f ∈ fs → DistinctNames f.2.2 = true
  | [], _, _, hf => nomatch hf
  | g :: rest, h, f, hf => by
    simp only [distinctNamesFields, Bool.and_eq_true] at h
    rcases List.mem_cons.1 hf with rfl | hf
    · exact h.1
    · exact distinctNamesFields_mem h.2 f hf

/-- a struct: the loops agree -/
theorem structCase_toE (opts : IOpts) {recE : IRecE} {rec : IRec}
    (hrec : ∀ T seen st, DistinctNames T = true → recE T.toE seen st = rec T seen st)
    (fs : List (String × String × GoType)) (hd : DistinctNames (.struct fs) = true) (seen : List String) (n : Node) (st : Store) :
    structLoopE opts recE seen (visibleFields (fieldsToE fs)) none n st = structLoop rec seen fs n st := by
  simp only [DistinctNames, Bool.and_eq_true] at hd
  rw [visibleFields_toE fs hd.1]
  exact structLoopE_plain opts seen [] fs 0 _ _ fun f hf s => hrec _ _ _ (distinctNamesFields_mem hd.2 f hf)

theorem inferStepE_toE (opts : IOpts) {recE : IRecE} {rec : IRec}
    (hrec : ∀ T seen st, DistinctNames T = true → recE T.toE seen st = rec T seen st) :
    ∀ T seen st, DistinctNames T = true → inferStepE opts recE T.toE seen st = inferStep opts rec T seen st := by
  intro T seen st hd
  unfold inferStepE inferStep
  rw [stripPtrsE_toE]
  rw [← distinctNames_stripPtrs] at hd
  generalize stripPtrs T = p at hd
  obtain ⟨t, an⟩ := p
  cases t with
  | basic k => rfl
  | ref nm => rfl
  | ptr e => rfl
  | slice e =>
    have he : ∀ seen st, recE e.toE seen st = rec e seen st := fun seen st => hrec e seen st (by simpa only [DistinctNames] using hd)
    simp only [GoType.toE, he]
    rfl
  | array len e =>
    have he : ∀ seen st, recE e.toE seen st = rec e seen st := fun seen st => hrec e seen st (by simpa only [DistinctNames] using hd)
    simp only [GoType.toE, he]
    rfl
  | map kk e =>
    have he : ∀ seen st, recE e.toE seen st = rec e seen st := fun seen st => hrec e seen st (by simpa only [DistinctNames] using hd)
    simp only [GoType.toE, he]
    rfl
  | struct fs =>
    have hs := fun seen n st => structCase_toE opts hrec fs hd seen n st
    simp only [GoType.toE, hs]
    rfl
  | named nm u =>
    have hu : DistinctNames u = true := by simpa only [DistinctNames] using hd
    cases u with
    | basic k => rfl
    | ref nm' => rfl
    | ptr e => rfl
    | named nm' u' => rfl
    | slice e =>
      have he : ∀ seen st, recE e.toE seen st = rec e seen st := fun seen st => hrec e seen st (by simpa only [DistinctNames] using hu)
      simp only [GoType.toE, he]
      rfl
    | array len e =>
      have he : ∀ seen st, recE e.toE seen st = rec e seen st := fun seen st => hrec e seen st (by simpa only [DistinctNames] using hu)
      simp only [GoType.toE, he]
      rfl
    | map kk e =>
      have he : ∀ seen st, recE e.toE seen st = rec e seen st := fun seen st => hrec e seen st (by simpa only [DistinctNames] using hu)
      simp only [GoType.toE, he]
      rfl
    | struct fs =>
      have hs := fun seen n st => structCase_toE opts hrec fs hu seen n st
      simp only [GoType.toE, hs]
      rfl

theorem inferFuelE_toE (opts : IOpts) : ∀ (fuel : Nat) (T : GoType) (seen : List String) (st : Store),
    DistinctNames T = true → inferFuelE opts fuel T.toE seen st = inferFuel opts fuel T seen st
  | 0, _, _, _, _ => rfl
  | fuel + 1, T, seen, st, hd =>
    inferStepE_toE opts (fun T seen st hd => inferFuelE_toE opts fuel T seen st hd) T seen st hd

end Go
end JSV
