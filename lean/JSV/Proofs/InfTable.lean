/-
  C04 with entries of the type table (`ForOptions.TypeSchemas`, the initial entries): a declared type WITH an entry gets a
  clone of the entry (plus `null` for a pointer).  If every entry that `T` meets is a schema without subschemas
  (`LeafSchema`) that accepts the encodings of its type (`EntryAccepts`), the schema `forType` builds accepts every
  encoded value (`inferFuel_modelsT` + `Models.sound`); no hypothesis on the declared types without entries is needed.
-/
import JSV.Proofs.InfSound
import JSV.Proofs.InfNamed
namespace JSV
namespace EncJson
open Go Spec

/-- a schema without subschemas and without references: only assertion keywords (`type`, `enum`, `const`, `minimum`,
    `pattern`, `format`, …) -/
structure LeafSchema (m : Node) : Prop where
  ref : m.ref = ""
  dynamicRef : m.dynamicRef = ""
  defs : m.defs = none
  additionalItems : m.additionalItems = none
  additionalProperties : m.additionalProperties = none
  allOf : m.allOf = none
  anyOf : m.anyOf = none
  contains : m.contains = none
  contentSchema : m.contentSchema = none
  definitions : m.definitions = none
  dependencySchemas : m.dependencySchemas = none
  dependentSchemas : m.dependentSchemas = none
  else_ : m.else_ = none
  if_ : m.if_ = none
  items : m.items = none
  itemsArray : m.itemsArray = none
  not : m.not = none
  oneOf : m.oneOf = none
  patternProperties : m.patternProperties = none
  prefixItems : m.prefixItems = none
  properties : m.properties = none
  propertyNames : m.propertyNames = none
  then_ : m.then_ = none
  unevaluatedItems : m.unevaluatedItems = none
  unevaluatedProperties : m.unevaluatedProperties = none

theorem LeafSchema.plain {m : Node} (L : LeafSchema m) : Plain m :=
  ⟨L.ref, L.dynamicRef, L.allOf, L.anyOf, L.oneOf, L.if_, L.contains, L.propertyNames, L.dependentSchemas,
   L.unevaluatedItems, L.unevaluatedProperties⟩

theorem LeafSchema.desc {m : Node} (L : LeafSchema m) (d : String) : LeafSchema { m with description := d } :=
  ⟨L.ref, L.dynamicRef, L.defs, L.additionalItems, L.additionalProperties, L.allOf, L.anyOf, L.contains, L.contentSchema,
   L.definitions, L.dependencySchemas, L.dependentSchemas, L.else_, L.if_, L.items, L.itemsArray, L.not, L.oneOf,
   L.patternProperties, L.prefixItems, L.properties, L.propertyNames, L.then_, L.unevaluatedItems, L.unevaluatedProperties⟩

theorem LeafSchema.tableNull {m : Node} (L : LeafSchema m) (b : Bool) : LeafSchema (tableNull b m) := by
  unfold Go.tableNull
  split
  · split
    · exact ⟨L.ref, L.dynamicRef, L.defs, L.additionalItems, L.additionalProperties, L.allOf, L.anyOf, L.contains,
        L.contentSchema, L.definitions, L.dependencySchemas, L.dependentSchemas, L.else_, L.if_, L.items, L.itemsArray,
        L.not, L.oneOf, L.patternProperties, L.prefixItems, L.properties, L.propertyNames, L.then_, L.unevaluatedItems,
        L.unevaluatedProperties⟩
    · split
      · exact ⟨L.ref, L.dynamicRef, L.defs, L.additionalItems, L.additionalProperties, L.allOf, L.anyOf, L.contains,
          L.contentSchema, L.definitions, L.dependencySchemas, L.dependentSchemas, L.else_, L.if_, L.items, L.itemsArray,
          L.not, L.oneOf, L.patternProperties, L.prefixItems, L.properties, L.propertyNames, L.then_, L.unevaluatedItems,
          L.unevaluatedProperties⟩
      · exact L
  · exact L

/-- the clone of a schema without subschemas is a copy of the one node -/
theorem clone_leaf {st : Store} {sid : NodeId} {m : Node} (h : st.get? sid = some m) (L : LeafSchema m) :
    clone st sid = .ok (st.size, st.push m) := by
  show cloneStep (cloneFuel (st.size + 1)) sid st = _
  unfold cloneStep
  rw [h]
  simp only [L.defs, L.additionalItems, L.additionalProperties, L.allOf, L.anyOf, L.contains, L.contentSchema,
    L.definitions, L.dependencySchemas, L.dependentSchemas, L.else_, L.if_, L.items, L.itemsArray, L.not, L.oneOf,
    L.patternProperties, L.prefixItems, L.properties, L.propertyNames, L.then_, L.unevaluatedItems,
    L.unevaluatedProperties, cloneMap, cloneOpt, cloneList, Res.bind_ok, Store.alloc]
  congr 3
  cases m
  cases L
  simp_all

/-- a schema without subschemas accepts exactly what its assertions accept, whatever the store around it -/
theorem leaf_valid_iff {st : Store} {re : String → String → Bool} {id : NodeId} {m : Node} (hn : HasNode st id m)
    (L : LeafSchema m) (f : Nat) (scope : List NodeId) (j : Json) :
    Valid (evalFuel (specEnvNoRefs st re) (f + 1) scope id j) ↔ asserts (specEnvNoRefs st re) m j = true := by
  rw [evalFuel_frag hn L.plain f scope j]
  constructor
  · exact fun h => h.2.2.2
  · intro ha
    refine ⟨⟨_, kwNot_none L.not j⟩, kwItems_none rfl L.prefixItems L.items _, ?_, ha⟩
    cases j with
    | obj kvs =>
      refine kwProps_obj_valid L.patternProperties fun p _ => ⟨fun t ht => ?_, fun _ t ht => ?_⟩
      · simp [L.properties] at ht
      · rw [L.additionalProperties] at ht; cases ht
    | _ => exact ⟨_, kwProps_nonobj rfl⟩

/-- the assertions do not look at the store -/
theorem asserts_store (st st' : Store) (re : String → String → Bool) (m : Node) (j : Json) :
    asserts (specEnvNoRefs st re) m j = asserts (specEnvNoRefs st' re) m j := rfl

/-- adding `null` to the types of a schema that has a type keyword (not D17) loses no instance -/
theorem asserts_tableNull {env : Spec.Env} {m : Node} {j : Json} (b : Bool)
    (ht : b = true → (m.type ≠ "" ∨ m.types.isSome = true))
    (h : asserts env m j = true) : asserts env (tableNull b m) j = true := by
  simp only [asserts, Bool.and_eq_true] at h ⊢
  obtain ⟨⟨⟨⟨⟨⟨h1, h2⟩, h3⟩, h4⟩, h5⟩, h6⟩, h7⟩ := h
  unfold Go.tableNull
  split
  · split
    · rename_i hty
      refine ⟨⟨⟨⟨⟨⟨?_, h2⟩, h3⟩, h4⟩, h5⟩, h6⟩, h7⟩
      unfold typeOk at h1 ⊢
      simp only [hty, if_true] at h1
      simp [h1]
    · rename_i hty
      have hty' : m.type = "" := by simpa using hty
      split
      · refine ⟨⟨⟨⟨⟨⟨?_, h2⟩, h3⟩, h4⟩, h5⟩, h6⟩, h7⟩
        unfold typeOk at h1 ⊢
        simp only [hty', bne_self_eq_false, Bool.false_eq_true, if_false] at h1 ⊢
        rename_i hb _
        rcases ht hb with ht | ht
        · exact absurd hty' ht
        · obtain ⟨ts, hts⟩ := Option.isSome_iff_exists.1 ht
          simp only [hts, Option.getD_some, List.any_cons, Bool.or_eq_true] at h1 ⊢
          exact Or.inr h1
      · exact ⟨⟨⟨⟨⟨⟨h1, h2⟩, h3⟩, h4⟩, h5⟩, h6⟩, h7⟩
  · exact ⟨⟨⟨⟨⟨⟨h1, h2⟩, h3⟩, h4⟩, h5⟩, h6⟩, h7⟩

/-! ## the hypothesis on the entries of the type table -/

/-- **the entry `sid` of the type table accepts the encodings of a declared type with underlying type `u`**; `an`: the
    type is used through a pointer.
    * the entry is a schema without subschemas and without references (`LeafSchema`: `{"type":"string"}`,
      `{"type":"string","format":"date-time"}`, `{"type":"integer","minimum":0}`, an `enum` …);
    * it accepts the encoding of every value of the type (fuel 1: nothing below it);
    * through a pointer: it has a type keyword (otherwise `null` is not *added* to its types: they become `["null"]`, the
      known finding D17), and with `null` added to its types it accepts `null` (an `enum` or `const` may still refuse). -/
def EntryAccepts (st : Store) (sid : NodeId) (u : GoType) (an : Bool) : Prop :=
  ∃ m, st.get? sid = some m ∧ LeafSchema m ∧
    (∀ re v, HasType u v → Spec.valid (specEnvNoRefs st re) 1 sid (encode u v) = some true) ∧
    (an = true → (m.type ≠ "" ∨ m.types.isSome = true) ∧
      ∀ re, Spec.valid (specEnvNoRefs #[tableNull true m] re) 1 0 .null = some true)

mutual
  /-- `EntryAccepts` for every declared type of `T` that has an entry in the type table and that `forType` meets (not
      inside `json:"-"` fields, not below another entry); the flag: a pointer was stripped just above -/
  def EntriesAccept (opts : IOpts) (st : Store) : Bool → GoType → Prop
    | _, .basic _ => True
    | _, .ptr e => EntriesAccept opts st true e
    | _, .slice e => EntriesAccept opts st false e
    | _, .array _ e => EntriesAccept opts st false e
    | _, .map _ e => EntriesAccept opts st false e
    | _, .struct fields => EntriesAcceptFields opts st fields
    | an, .named n u =>
      (match Json.lookup n opts.schemas with
       | some sid => EntryAccepts st sid u an
       | none => EntriesAccept opts st false u)
    | _, .ref _ => True
  def EntriesAcceptFields (opts : IOpts) (st : Store) : List (String × String × GoType) → Prop
    | [] => True
    | f :: rest =>
      ((fieldJSONInfo f.1 f.2.1).omitted = true ∨ EntriesAccept opts st false f.2.2) ∧ EntriesAcceptFields opts st rest
end

/-- without entries for the declared types of `T` there is nothing to assume -/
theorem entriesAccept_of_empty (opts : IOpts) (st : Store) (h : opts.schemas = []) :
    (∀ (T : GoType) (an : Bool), EntriesAccept opts st an T) ∧
    ∀ fs : List (String × String × GoType), EntriesAcceptFields opts st fs := by
  have key : ∀ n : Nat, (∀ (T : GoType) (an : Bool), sizeOf T ≤ n → EntriesAccept opts st an T) ∧
      ∀ fs : List (String × String × GoType), sizeOf fs ≤ n → EntriesAcceptFields opts st fs := by
    intro n
    induction n with
    | zero =>
      constructor
      · intro T an hs; cases T <;> simp at hs
      · intro fs hs; cases fs <;> simp at hs
    | succ n ih =>
      constructor
      · intro T an hs
        cases T with
        | basic k => simp only [EntriesAccept]
        | ref k => simp only [EntriesAccept]
        | ptr e => simp only [EntriesAccept]; exact ih.1 e _ (by simp at hs; omega)
        | slice e => simp only [EntriesAccept]; exact ih.1 e _ (by simp at hs; omega)
        | array k e => simp only [EntriesAccept]; exact ih.1 e _ (by simp at hs; omega)
        | map k e => simp only [EntriesAccept]; exact ih.1 e _ (by simp at hs; omega)
        | struct fs => simp only [EntriesAccept]; exact ih.2 fs (by simp at hs; omega)
        | named k u =>
          simp only [EntriesAccept, h, Json.lookup]
          exact ih.1 u _ (by simp at hs; omega)
      · intro fs hs
        cases fs with
        | nil => simp only [EntriesAcceptFields]
        | cons f rest =>
          obtain ⟨g, tag, ft⟩ := f
          simp only [EntriesAcceptFields]
          exact ⟨Or.inr (ih.1 ft _ (by simp at hs; omega)), ih.2 rest (by simp at hs; omega)⟩
  exact ⟨fun T an => (key _).1 T an (Nat.le_refl _), fun fs => (key _).2 fs (Nat.le_refl _)⟩

end EncJson

namespace Go
open EncJson Spec

theorem stripPtrs_entriesAccept (opts : IOpts) (st : Store) : ∀ (T : GoType) (b : Bool),
    EntriesAccept opts st b T → EntriesAccept opts st (b || (stripPtrs T).2) (stripPtrs T).1
  | .ptr e, b, h => by
    simp only [EntriesAccept] at h
    simp only [stripPtrs, Bool.or_true]
    have := stripPtrs_entriesAccept opts st e true h
    simpa using this
  | .basic _, b, h => by simpa [stripPtrs] using h
  | .named _ _, b, h => by simpa [stripPtrs] using h
  | .ref _, b, h => by simpa [stripPtrs] using h
  | .slice _, b, h => by simpa [stripPtrs, EntriesAccept] using h
  | .array _ _, b, h => by simpa [stripPtrs, EntriesAccept] using h
  | .map _ _, b, h => by simpa [stripPtrs, EntriesAccept] using h
  | .struct _, b, h => by simpa [stripPtrs, EntriesAccept] using h

theorem stripPtrs_inDomainN : ∀ (T : GoType), InDomainN (stripPtrs T).1 = InDomainN T
  | .ptr e => by simp only [stripPtrs, InDomainN]; exact stripPtrs_inDomainN e
  | .basic _ => rfl
  | .named _ _ => rfl
  | .ref _ => rfl
  | .slice _ => rfl
  | .array _ _ => rfl
  | .map _ _ => rfl
  | .struct _ => rfl

theorem stripPtrs_models (nfs : Bool) (st : Store) : ∀ (T : GoType) (b : Bool) (id : NodeId),
    Models nfs st T b id ↔ Models nfs st (stripPtrs T).1 (b || (stripPtrs T).2) id
  | .ptr e, b, id => by
    simp only [stripPtrs, Models, Bool.or_true]
    rw [stripPtrs_models nfs st e true id]
    simp
  | .basic _, b, id => by simp [stripPtrs]
  | .named _ _, b, id => by simp [stripPtrs]
  | .ref _, b, id => by simp [stripPtrs]
  | .slice _, b, id => by simp [stripPtrs]
  | .array _ _, b, id => by simp [stripPtrs]
  | .map _ _, b, id => by simp [stripPtrs]
  | .struct _, b, id => by simp [stripPtrs]

theorem inDomainFieldsN_mem : ∀ {fields : List (String × String × GoType)}, inDomainFieldsN fields = true →
    ∀ f, f ∈ fields → (fieldJSONInfo f.1 f.2.1).omitted = false → InDomainN f.2.2 = true
  | [], _, _, hf, _ => nomatch hf
  | g :: rest, h, f, hf, ho => by
    simp only [inDomainFieldsN, Bool.and_eq_true, Bool.or_eq_true] at h
    rcases List.mem_cons.1 hf with rfl | hf
    · rcases h.1 with h1 | h1
      · rw [ho] at h1; cases h1
      · exact h1
    · exact inDomainFieldsN_mem h.2 f hf ho

theorem entriesAcceptFields_mem {opts : IOpts} {st : Store} : ∀ {fields : List (String × String × GoType)},
    EntriesAcceptFields opts st fields → ∀ f, f ∈ fields → (fieldJSONInfo f.1 f.2.1).omitted = false →
    EntriesAccept opts st false f.2.2
  | [], _, _, hf, _ => nomatch hf
  | g :: rest, h, f, hf, ho => by
    simp only [EntriesAcceptFields] at h
    rcases List.mem_cons.1 hf with rfl | hf
    · rcases h.1 with h1 | h1
      · rw [ho] at h1; cases h1
      · exact h1
    · exact entriesAcceptFields_mem h.2 f hf ho

/-- a declared type without an entry on which `forType` does not fail: it is not being expanded, and its underlying type
    is a basic kind, slice, array, map or struct -/
theorem inferStep_named_ok {opts : IOpts} {rec : IRec} {t0 u : GoType} {nm : String} {an : Bool}
    {seen : List String} {st : Store} {r : Option NodeId × Store} (h : stripPtrs t0 = (.named nm u, an))
    (hs : Json.lookup nm opts.schemas = none) (hok : inferStep opts rec t0 seen st = .ok r) :
    seen.contains nm = false ∧ namedShape u = true := by
  cases hc : seen.contains nm with
  | true =>
    rw [inferStep_seen (t := .named nm u) h rfl hc] at hok
    cases hok
  | false =>
    refine ⟨rfl, ?_⟩
    unfold inferStep at hok
    rw [h] at hok
    simp only [typeName, hc, Option.bind_some, hs, Bool.false_eq_true, if_false] at hok
    cases u with
    | ptr e => cases hok
    | named n' u' => cases hok
    | ref n' => cases hok
    | _ => rfl

/-- `NeverDrops` on the stores that satisfy an invariant of the run -/
def NeverDropsOn (P : Store → Prop) (rec : IRec) (seen : List String) (fields : List (String × String × GoType)) : Prop :=
  ∀ f, f ∈ fields → (fieldJSONInfo f.1 f.2.1).omitted = false → ∀ st st1, P st → rec f.2.2 seen st = .ok (none, st1) → False

/-- `structLoop_lists` when the recursive call is only known on the stores that satisfy `P` -/
theorem structLoop_listsOn {P : Store → Prop} (hP : ∀ st st', P st → Ext st st' → P st') {rec : IRec}
    (hinv : IRecInv rec) {seen : List String} :
    ∀ (fields : List (String × String × GoType)) {n : Node} {st : Store} {n' : Node} {st' : Store}, P st →
      NeverDropsOn P rec seen fields → structLoop rec seen fields n st = .ok (n', st') →
      n'.propertyOrder.getD [] = n.propertyOrder.getD [] ++ jsonNames fields ∧
      n'.required.getD [] = n.required.getD [] ++ alwaysNames fields ∧
      ∀ k, k ∈ (n'.properties.getD []).map (·.1) ↔ (k ∈ (n.properties.getD []).map (·.1) ∨ k ∈ jsonNames fields)
  | [], n, st, n', st', _, _, h => by
    simp only [structLoop] at h
    cases h
    simp [jsonNames, alwaysNames]
  | (g, tag, ft) :: rest, n, st, n', st', hst, hnd, h => by
    have hnd' : NeverDropsOn P rec seen rest := fun f hf => hnd f (List.mem_cons_of_mem _ hf)
    rw [jsonNames_cons, alwaysNames_cons]
    rcases structLoop_cons h with ⟨ho, h⟩ | ⟨ho', st1, h1, _⟩ | ⟨ho, fid, st1, st2, hr1, hst2, h⟩
    · obtain ⟨h1, h2, h3⟩ := structLoop_listsOn hP hinv rest hst hnd' h
      rw [ensureProps_order] at h1
      rw [ensureProps_required] at h2
      rw [ensureProps_getD] at h3
      simp only [ho, Bool.true_or, if_true]
      exact ⟨h1, h2, h3⟩
    · exact (hnd _ List.mem_cons_self ho' _ _ hst h1).elim
    · obtain ⟨he1, hid1, _⟩ := hinv _ _ _ _ _ hr1
      have hst2' : P st2 := by
        rcases hst2 with rfl | ⟨d, rfl⟩
        · exact hP _ _ hst he1
        · refine hP _ _ hst ?_
          unfold descSet
          split
          · exact he1.set! (hid1 fid rfl).1 _
          · exact he1
      obtain ⟨h1, h2, h3⟩ := structLoop_listsOn hP hinv rest hst2' hnd' h
      simp only [ho, Bool.false_or, Bool.false_eq_true, if_false]
      refine ⟨?_, ?_, ?_⟩
      · rw [h1]
        simp only [addField, ensureProps_order, Option.getD_some, List.append_assoc, List.singleton_append]
      · rw [h2]
        simp only [addField, ensureProps_required]
        cases he : (fieldJSONInfo g tag).omitempty <;> cases hz : (fieldJSONInfo g tag).omitzero <;> simp
      · intro k
        rw [h3]
        simp only [addField, ensureProps_getD, Option.getD_some, List.map_append,
          List.mem_append, List.mem_map, List.mem_filter, List.mem_cons, List.map_cons, List.map_nil,
          List.not_mem_nil, or_false]
        constructor
        · rintro ((⟨p, ⟨hp, _⟩, rfl⟩ | h) | h)
          · exact Or.inl ⟨p, hp, rfl⟩
          · exact Or.inr (Or.inl h)
          · exact Or.inr (Or.inr h)
        · rintro (⟨p, hp, rfl⟩ | h | h)
          · by_cases hk : p.1 = (fieldJSONInfo g tag).name
            · exact Or.inl (Or.inr hk)
            · exact Or.inl (Or.inl ⟨p, ⟨hp, by simpa using hk⟩, rfl⟩)
          · exact Or.inl (Or.inr h)
          · exact Or.inr h

/-! ## `forType` builds a schema that `Models` describes, entries of the type table included -/

/-- what is assumed of the recursive call, on the stores that extend the one holding the type table -/
def RecOkT (opts : IOpts) (st0 : Store) (rec : IRec) : Prop :=
  ∀ T seen st r st', Ext st0 st → InDomainN T = true → EntriesAccept opts st0 false T →
    rec T seen st = .ok (r, st') → ∃ id, r = some id ∧ Models opts.nullForSlices st' T false id

/-- one step on a type that is, under its pointers, not a declared type -/
theorem inferStep_modelsT_shape {opts : IOpts} {st0 : Store} {rec : IRec} (hinv : IRecInv rec)
    (hrec : RecOkT opts st0 rec) {T t : GoType} {an : Bool} {seen : List String} {st : Store} {r : Option NodeId}
    {st' : Store} (hs : stripPtrs T = (t, an)) (hsh : namedShape t = true) (hdomT : InDomainN t = true)
    (hacc : EntriesAccept opts st0 false t) (hext : Ext st0 st) (h : inferStep opts rec T seen st = .ok (r, st')) :
    ∃ id, r = some id ∧ Models opts.nullForSlices st' t an id := by
  cases t with
  | ptr e => simp [namedShape] at hsh
  | named nm u => simp [namedShape] at hsh
  | ref nm => simp [namedShape] at hsh
  | basic kind =>
    simp only [InDomainN] at hdomT
    obtain ⟨ty, mn, mx, hk⟩ := kindEntry_domain hdomT
    rw [inferStep_basic hs, hk] at h
    cases h
    refine ⟨_, rfl, ?_⟩
    simp only [Models]
    exact ⟨ty, mn, mx, hk, HasNode.of_get (get?_push_size _ _)⟩
  | slice e =>
    simp only [InDomainN] at hdomT
    simp only [EntriesAccept] at hacc
    rw [inferStep_slice hs] at h
    obtain ⟨⟨es, st1⟩, he, h⟩ := Res.bind_eq_ok h
    obtain ⟨eid, rfl, hm⟩ := hrec _ _ _ _ _ hext hdomT hacc he
    cases h
    refine ⟨_, rfl, ?_⟩
    simp only [Models]
    exact ⟨eid, Models.mono (Ext.push _ _).toDExt _ _ _ hm, HasNode.of_get (get?_push_size _ _)⟩
  | array len e =>
    simp only [InDomainN] at hdomT
    simp only [EntriesAccept] at hacc
    rw [inferStep_array hs] at h
    obtain ⟨⟨es, st1⟩, he, h⟩ := Res.bind_eq_ok h
    obtain ⟨eid, rfl, hm⟩ := hrec _ _ _ _ _ hext hdomT hacc he
    cases h
    refine ⟨_, rfl, ?_⟩
    simp only [Models]
    exact ⟨eid, Models.mono (Ext.push _ _).toDExt _ _ _ hm, HasNode.of_get (get?_push_size _ _)⟩
  | map keyKind e =>
    simp only [InDomainN, Bool.and_eq_true, beq_iff_eq] at hdomT
    simp only [EntriesAccept] at hacc
    rw [inferStep_map hs] at h
    simp only [hdomT.1, bne_self_eq_false, Bool.false_eq_true, if_false] at h
    obtain ⟨⟨es, st1⟩, he, h⟩ := Res.bind_eq_ok h
    obtain ⟨eid, rfl, hm⟩ := hrec _ _ _ _ _ hext hdomT.2 hacc he
    cases h
    refine ⟨_, rfl, ?_⟩
    simp only [Models]
    exact ⟨eid, Models.mono (Ext.push _ _).toDExt _ _ _ hm, HasNode.of_get (get?_push_size _ _)⟩
  | struct fields =>
    simp only [InDomainN, Bool.and_eq_true] at hdomT
    simp only [EntriesAccept] at hacc
    obtain ⟨⟨hnd, _⟩, hdf⟩ := hdomT
    obtain ⟨n, st1, hl, rfl, rfl⟩ := inferStep_struct_ok hs h
    refine ⟨_, rfl, ?_⟩
    have hrm : RecModels (Ext st0) opts.nullForSlices rec seen fields :=
      fun f hf ho s r s1 hs1 hr =>
        hrec _ _ _ _ _ hs1 (inDomainFieldsN_mem hdf f hf ho) (entriesAcceptFields_mem hacc f hf ho) hr
    have hext2 : Ext st0 ((st.push emptyNode).push (falseNode st.size)) :=
      hext.trans ((Ext.push _ _).trans (Ext.push _ _))
    have hP : ∀ s s', Ext st0 s → Ext s s' → Ext st0 s' := fun _ _ h1 h2 => h1.trans h2
    obtain ⟨hmf, _⟩ := structLoop_models (P := Ext st0) hP hinv fields hext2 hrm hl hnd (fun _ _ => rfl)
    have hndrop : NeverDropsOn (Ext st0) rec seen fields := fun f hf ho s s1 hs1 hr => by
      obtain ⟨fid, hfid, _⟩ := hrm f hf ho s _ s1 hs1 hr
      cases hfid
    obtain ⟨_, hrq, hkeys⟩ := structLoop_listsOn (P := Ext st0) hP hinv fields hext2 hndrop hl
    have hcore := node_of_core (structLoop_core fields hl)
    have hext' : Ext ((st.push emptyNode).push (falseNode st.size)) (st1.push (addNull an (finalOrder n))) :=
      (structLoop_inv hinv seen _ _ _ _ _ hl).1.trans (Ext.push _ _)
    have hnot : HasNode (st1.push (addNull an (finalOrder n))) st.size emptyNode := by
      refine HasNode.of_get (hext'.get? ?_)
      rw [get?_push_lt _ (by rw [Array.size_push]; exact Nat.lt_succ_self _)]
      exact get?_push_size _ _
    have hfalse : HasNode (st1.push (addNull an (finalOrder n))) (st.size + 1) (falseNode st.size) := by
      refine HasNode.of_get (hext'.get? ?_)
      have := get?_push_size (st.push emptyNode) (falseNode st.size)
      rwa [Array.size_push] at this
    simp only [Models]
    refine ⟨st.size, st.size + 1, n.properties, (finalOrder n).propertyOrder, n.required, hnot, hfalse, ?_, ?_, ?_,
      ModelsFields.mono (Ext.push _ _).toDExt _ _ hmf⟩
    · refine HasNode.of_get ?_
      rw [get?_push_size]
      congr 2
      have : finalOrder n = { n with propertyOrder := (finalOrder n).propertyOrder } := by
        unfold finalOrder
        split
        · split <;> rfl
        · rfl
      rw [this, hcore]
      rfl
    · rw [hrq]; rfl
    · intro k hk
      have := (hkeys k).1 hk
      simpa [structNode0] using this

theorem inferStep_modelsT (opts : IOpts) (hnfs : opts.nullForSlices = true) (st0 : Store) {rec : IRec}
    (hinv : IRecInv rec) (hrec : RecOkT opts st0 rec) : RecOkT opts st0 (inferStep opts rec) := by
  intro T seen st r st' hext hdomT haccT h
  rw [← stripPtrs_inDomainN] at hdomT
  have hacc := stripPtrs_entriesAccept opts st0 T false haccT
  simp only [stripPtrs_models opts.nullForSlices st' T]
  have hnp := stripPtrs_not_ptr T
  generalize hs : stripPtrs T = p at hdomT hacc hnp
  obtain ⟨t, an⟩ := p
  simp only [Bool.false_or] at hdomT hacc hnp ⊢
  cases t with
  | ptr e => exact absurd rfl (hnp e)
  | ref nm => simp [InDomainN] at hdomT
  | basic kind => exact inferStep_modelsT_shape hinv hrec hs rfl hdomT (by simp only [EntriesAccept]) hext h
  | slice e => exact inferStep_modelsT_shape hinv hrec hs rfl hdomT (by simpa only [EntriesAccept] using hacc) hext h
  | array len e => exact inferStep_modelsT_shape hinv hrec hs rfl hdomT (by simpa only [EntriesAccept] using hacc) hext h
  | map kk e => exact inferStep_modelsT_shape hinv hrec hs rfl hdomT (by simpa only [EntriesAccept] using hacc) hext h
  | struct fs => exact inferStep_modelsT_shape hinv hrec hs rfl hdomT (by simpa only [EntriesAccept] using hacc) hext h
  | named nm u =>
    simp only [InDomainN] at hdomT
    simp only [EntriesAccept] at hacc
    cases hl : Json.lookup nm opts.schemas with
    | some sid =>
      -- an entry of the type table: a clone of the one node, `null` added for a pointer
      rw [hl] at hacc
      obtain ⟨m, hm, L, hv, hnull⟩ := hacc
      cases hc : seen.contains nm with
      | true =>
        rw [inferStep_seen (t := .named nm u) hs rfl hc] at h
        cases h
      | false =>
        rw [inferStep_table (t := .named nm u) hs rfl hc hl, clone_leaf (hext.get? hm) L, Res.bind_ok] at h
        simp only at h
        rw [get?_push_size] at h
        simp only at h
        rw [set!_push_size, hnfs, Bool.true_and] at h
        cases h
        refine ⟨_, rfl, ?_⟩
        simp only [Models]
        intro st'' hd re f scope hf
        obtain ⟨f, rfl⟩ : ∃ f', f = f' + 1 := ⟨f - 1, by omega⟩
        have hnode : HasNode st'' st.size (tableNull an m) := HasNode.mono hd (HasNode.of_get (get?_push_size _ _))
        have L' := L.tableNull an
        refine ⟨fun han => ?_, fun v hv' => ?_⟩
        · subst han
          rw [leaf_valid_iff hnode L']
          obtain ⟨_, hn0⟩ := hnull rfl
          have h0 : Valid (evalFuel (specEnvNoRefs #[tableNull true m] re) (0 + 1) [] 0 .null) := valid_iff_isSome.2 (hn0 re)
          exact (leaf_valid_iff (st := #[tableNull true m]) (HasNode.of_get rfl) L' 0 [] .null).1 h0
        · rw [leaf_valid_iff hnode L']
          have h0 : Valid (evalFuel (specEnvNoRefs st0 re) (0 + 1) [] sid (encode u v)) := valid_iff_isSome.2 (hv re v hv')
          have h1 := (leaf_valid_iff (HasNode.of_get hm) L 0 [] (encode u v)).1 h0
          exact asserts_tableNull an (fun han => (hnull han).1) h1
    | none =>
      -- a declared type that `forType` expands
      rw [hl] at hacc
      obtain ⟨hseen, hsh⟩ := inferStep_named_ok hs hl h
      rw [inferStep_named_transparent hs hseen hl hsh] at h
      have hup : ∀ e, u ≠ .ptr e := by cases u <;> simp_all [namedShape]
      obtain ⟨id, hid, hm⟩ := inferStep_modelsT_shape hinv hrec (stripPtrs_wrapPtr hup an) hsh hdomT hacc hext h
      refine ⟨id, hid, ?_⟩
      simp only [Models]
      intro st'' hd re f scope hf
      rw [hnfs] at hm
      exact Models.sound (re := re) u an id (Models.mono hd u an id hm) f scope (by omega)

theorem inferFuel_modelsT (opts : IOpts) (hnfs : opts.nullForSlices = true) (st0 : Store) :
    ∀ fuel, RecOkT opts st0 (inferFuel opts fuel)
  | 0 => fun _ _ _ _ _ _ _ _ h => by cases h
  | fuel + 1 => inferStep_modelsT opts hnfs st0 (inferFuel_inv opts fuel) (inferFuel_modelsT opts hnfs st0 fuel)

end Go

namespace EncJson
open Go Spec

/-! ## the entry `{"type":"string"}` -/

theorem leafSchema_strNode : LeafSchema strNode :=
  ⟨rfl, rfl, rfl, rfl, rfl, rfl, rfl, rfl, rfl, rfl, rfl, rfl, rfl, rfl, rfl, rfl, rfl, rfl, rfl, rfl, rfl, rfl, rfl, rfl, rfl⟩

/-- the entry `{"type":"string"}` accepts the encodings of a marshaler type whose JSON form is a string -/
theorem entryAccepts_string {st : Store} {sid : NodeId} (h : st.get? sid = some strNode) (an : Bool) :
    EntryAccepts st sid (.basic "String") an := by
  refine ⟨strNode, h, leafSchema_strNode, fun re v hv => ?_, fun _ => ⟨Or.inl (by decide), fun re => ?_⟩⟩
  · refine valid_iff_isSome.1 ((leaf_valid_iff (HasNode.of_get h) leafSchema_strNode 0 [] _).2 ?_)
    cases v with
    | str s => simp [encode, asserts, typeOk, strNode, typeMatches, Json.typeName, enumOk, constOk, numericOk, stringOk,
        arrayLimitsOk, objectLimitsOk]
    | int i => obtain ⟨lo, hi, hr, _⟩ := (show ∃ lo hi, intRange "String" = some (lo, hi) ∧ lo ≤ i ∧ i ≤ hi from hv); simp [intRange] at hr
    | float q => exact absurd (show "String" ∈ floatKinds from hv) (by decide)
    | _ => simp [HasType, basicHasType] at hv
  · refine valid_iff_isSome.1 ((leaf_valid_iff (st := #[tableNull true strNode]) (HasNode.of_get rfl)
      (leafSchema_strNode.tableNull true) 0 [] _).2 ?_)
    simp [asserts, typeOk, strNode, tableNull, typeMatches, Json.typeName, enumOk, constOk, numericOk, stringOk,
        arrayLimitsOk, objectLimitsOk]

/-! ## an entry `{"type": ty}` -/

theorem leafSchema_typeOnly (ty : String) : LeafSchema { type := ty } :=
  ⟨rfl, rfl, rfl, rfl, rfl, rfl, rfl, rfl, rfl, rfl, rfl, rfl, rfl, rfl, rfl, rfl, rfl, rfl, rfl, rfl, rfl, rfl, rfl, rfl, rfl⟩

/-- an entry `{"type": ty}` accepts the encodings of a type all of whose encodings have the JSON type `ty` -/
theorem entryAccepts_typeOnly {st : Store} {sid : NodeId} {ty : String} {u : GoType} (hty : ty ≠ "")
    (h : st.get? sid = some { type := ty }) (hu : ∀ v, HasType u v → typeMatches ty (encode u v) = true) (an : Bool) :
    EntryAccepts st sid u an := by
  refine ⟨{ type := ty }, h, leafSchema_typeOnly ty, fun re v hv => ?_, fun _ => ⟨Or.inl hty, fun re => ?_⟩⟩
  · refine valid_iff_isSome.1 ((leaf_valid_iff (HasNode.of_get h) (leafSchema_typeOnly ty) 0 [] _).2 ?_)
    have := hu v hv
    generalize encode u v = j at this
    cases j <;> simp [asserts, typeOk, hty, this, enumOk, constOk, numericOk, stringOk, arrayLimitsOk, objectLimitsOk,
      specEnvNoRefs]
  · refine valid_iff_isSome.1 ((leaf_valid_iff (st := #[tableNull true { type := ty }]) (HasNode.of_get rfl)
      ((leafSchema_typeOnly ty).tableNull true) 0 [] _).2 ?_)
    simp [asserts, typeOk, tableNull, hty, typeMatches, Json.typeName, enumOk, constOk, numericOk, stringOk,
        arrayLimitsOk, objectLimitsOk]

end EncJson
end JSV
