/-
  Helper lemmas for C03: every `$ref` met by resolveRefs gets a recorded target, and recorded targets
  are never lost (second traversal of resolveDoc / resolveRefsLoop / resolveRef, for the facts about
  table lookups).
-/
import JSV.Proofs.ResInv
namespace JSV
namespace Go
namespace RInv
open Uri

/-- the info object found for `id` has a `$ref` target -/
def HasRef (infos : List (NodeId × Info)) (id : NodeId) : Prop :=
  ∃ i t, lookupNat id infos = some i ∧ i.resolvedRef = some t

/-- table entries stay, recorded `$ref` targets stay recorded -/
def Keeps (s s' : RState) : Prop :=
  (∀ id, (lookupNat id s.infos).isSome = true → (lookupNat id s'.infos).isSome = true) ∧
  (∀ id, HasRef s.infos id → HasRef s'.infos id)

theorem Keeps.refl (s : RState) : Keeps s s := ⟨fun _ h => h, fun _ h => h⟩
theorem Keeps.trans {a b c : RState} (h1 : Keeps a b) (h2 : Keeps b c) : Keeps a c :=
  ⟨fun id h => h2.1 id (h1.1 id h), fun id h => h2.2 id (h1.2 id h)⟩
theorem Keeps.of_infos_eq {a b : RState} (h : b.infos = a.infos) : Keeps a b := by
  unfold Keeps; rw [h]; exact ⟨fun _ h => h, fun _ h => h⟩

theorem lookupNat_setNat {α} (k j : Nat) (v : α) (l : List (Nat × α)) :
    lookupNat k (setNat j v l) = if j = k then some v else lookupNat k l := by
  induction l with
  | nil => simp [setNat, lookupNat]
  | cons e r ih =>
    obtain ⟨k', v'⟩ := e
    unfold setNat
    split
    · rename_i hk
      subst hk
      by_cases h : k' = k
      · simp [lookupNat, h]
      · simp [lookupNat, h]
    · rename_i hk
      by_cases h : k' = k
      · subst h
        have hk' : ¬ j = k' := fun e => hk e.symm
        simp [lookupNat, hk']
      · simp only [lookupNat, h, if_false, ih]

theorem lookupNat_append_of_isSome {α} (k : Nat) (a b : List (Nat × α))
    (h : (lookupNat k a).isSome = true) : lookupNat k (a ++ b) = lookupNat k a := by
  induction a with
  | nil => simp [lookupNat] at h
  | cons e r ih =>
    obtain ⟨k', v⟩ := e
    simp only [List.cons_append, lookupNat] at h ⊢
    split
    · rfl
    · rename_i hk; rw [if_neg hk] at h; exact ih h

theorem updInfo_infos_lookup (s : RState) (id : NodeId) (f : Info → Info) (k : NodeId) :
    lookupNat k (s.updInfo id f).infos =
      if id = k then (lookupNat k s.infos).map f else lookupNat k s.infos := by
  unfold RState.updInfo
  split
  · rename_i i hi
    show lookupNat k (setNat id (f i) s.infos) = _
    rw [lookupNat_setNat]
    split
    · rename_i h; subst h; rw [hi]; rfl
    · rfl
  · rename_i hi
    split
    · rename_i h; subst h; rw [hi]; rfl
    · rfl

theorem updInfo_keeps (s : RState) (id : NodeId) (f : Info → Info)
    (hf : ∀ i t, i.resolvedRef = some t → ∃ t', (f i).resolvedRef = some t') :
    Keeps s (s.updInfo id f) := by
  constructor
  · intro k hk
    rw [updInfo_infos_lookup]
    split
    · cases h : lookupNat k s.infos <;> simp_all
    · exact hk
  · intro k ⟨i, t, hi, ht⟩
    unfold HasRef
    rw [updInfo_infos_lookup]
    split
    · obtain ⟨t', ht'⟩ := hf i t ht
      exact ⟨f i, t', by rw [hi]; rfl, ht'⟩
    · exact ⟨i, t, hi, ht⟩

theorem setAnchor_keeps (s : RState) (b t : NodeId) (a : String) (d : Bool) : Keeps s (setAnchor s b t a d) := by
  unfold setAnchor
  split
  · exact Keeps.refl s
  · apply updInfo_keeps
    intro i t ht
    split
    · exact ⟨t, ht⟩
    · exact ⟨t, ht⟩

theorem resolveURIsLoop_keeps (env : Env) (draft : Draft) (root : NodeId) :
    ∀ fuel work s s', resolveURIsLoop env draft root fuel work s = .ok s' → Keeps s s' := by
  intro fuel
  induction fuel with
  | zero => intro work s s' h; simp [resolveURIsLoop] at h
  | succ fuel ih =>
    intro work s s' h
    cases work with
    | nil => simp [resolveURIsLoop] at h; subst h; exact Keeps.refl _
    | cons e work =>
      obtain ⟨id, base⟩ := e
      rw [resolveURIsLoop] at h
      split at h
      · rw [bind_eq_ok] at h
        obtain ⟨⟨s1, base1⟩, hstep, hrest⟩ := h
        have h1 : Keeps s s1 := by
          split at hstep
          · rw [bind_eq_ok] at hstep
            obtain ⟨idURI, _, hstep⟩ := hstep
            split at hstep
            · simp at hstep
            · split at hstep
              · simp only [Res.ok.injEq, Prod.mk.injEq] at hstep
                rw [← hstep.1]
                exact setAnchor_keeps _ _ _ _ _
              · split at hstep
                · simp at hstep
                · simp only at hstep
                  split at hstep
                  · simp at hstep
                  · simp only [Res.ok.injEq, Prod.mk.injEq] at hstep
                    rw [← hstep.1]
                    split
                    · exact (updInfo_keeps _ _ _ (by intro i t ht; exact ⟨t, ht⟩)).trans (Keeps.of_infos_eq (setDoc_infos _ _))
                    · exact updInfo_keeps _ _ _ (by intro i t ht; exact ⟨t, ht⟩)
          · simp only [Res.ok.injEq, Prod.mk.injEq] at hstep
            rw [← hstep.1]; exact Keeps.refl _
        simp only at hrest
        have h2 := ih _ _ _ hrest
        refine h1.trans (Keeps.trans ?_ h2)
        have h3 : Keeps s1 (s1.updInfo id fun i => { i with base := some base1 }) :=
          updInfo_keeps _ _ _ (by intro i t ht; exact ⟨t, ht⟩)
        split
        · exact h3.trans ((setAnchor_keeps _ _ _ _ _).trans (setAnchor_keeps _ _ _ _ _))
        · exact h3
      · simp at h

/-- what the open-recursion callback must satisfy -/
def RecKeeps (recDoc : ResolveDoc) : Prop :=
  ∀ root base draft s s', recDoc root base draft s = .ok s' → Keeps s s'

theorem info?_lookup (s : RState) (root id : NodeId) (i : Info) (h : s.info? root id = some i) :
    lookupNat id s.infos = some i := by
  unfold RState.info? at h
  split at h
  · split at h
    · exact h
    · simp at h
  · simp at h

theorem resolveRef_keeps (env : Env) (recDoc : ResolveDoc) (hrec : RecKeeps recDoc)
    (root : NodeId) (s : RState) (id : NodeId) (ref : String) (o : RefOut) (s' : RState)
    (h : resolveRef env recDoc root s id ref = .ok (o, s')) :
    Keeps s s' ∧ (lookupNat id s.infos).isSome = true := by
  unfold resolveRef at h
  rw [bind_eq_ok] at h
  obtain ⟨refURI0, _, h⟩ := h
  split at h
  · simp at h
  rename_i info hinfo
  split at h
  · simp at h
  split at h
  · simp at h
  split at h
  · simp only at h
    rw [bind_eq_ok] at h
    obtain ⟨⟨referenced, s1⟩, hfound, h⟩ := h
    have h1 : Keeps s s1 := by
      split at hfound
      · simp only [Res.ok.injEq, Prod.mk.injEq] at hfound
        rw [← hfound.2]; exact Keeps.refl _
      · split at hfound
        · simp only [Res.ok.injEq, Prod.mk.injEq] at hfound
          rw [← hfound.2]
          exact Keeps.of_infos_eq (mergeKnown_infos _ _ _)
        · split at hfound
          · simp at hfound
          · split at hfound
            · simp at hfound
            · simp at hfound
            · simp at hfound
            · rw [bind_eq_ok] at hfound
              obtain ⟨s2, hdoc, hfound⟩ := hfound
              simp only [Res.ok.injEq, Prod.mk.injEq] at hfound
              rw [← hfound.2]
              have k := hrec _ _ _ _ _ hdoc
              exact (Keeps.trans (Keeps.of_infos_eq rfl) k).trans (Keeps.of_infos_eq (mergeKnown_infos _ _ _))
    have h2 : s' = s1 := by
      simp only at h
      split at h
      · split at h
        · simp at h
        · split at h
          · simp at h
          · simp only [Res.ok.injEq, Prod.mk.injEq] at h
            exact h.2.symm
      · rw [bind_eq_ok] at h
        obtain ⟨t, ht, h⟩ := h
        simp only [Res.ok.injEq, Prod.mk.injEq] at h
        exact h.2.symm
    rw [h2]
    exact ⟨h1, by rw [info?_lookup _ _ _ _ hinfo]; rfl⟩
  · simp at h

theorem resolveRefsLoop_keeps (env : Env) (recDoc : ResolveDoc) (hrec : RecKeeps recDoc) (root : NodeId) :
    ∀ ids s s', resolveRefsLoop env recDoc root ids s = .ok s' →
      Keeps s s' ∧ ∀ id ∈ ids, ∀ n, env.st.get? id = some n → n.ref ≠ "" → HasRef s'.infos id := by
  intro ids
  induction ids with
  | nil => intro s s' h; simp [resolveRefsLoop] at h; subst h; exact ⟨Keeps.refl _, fun _ h => absurd h (by simp)⟩
  | cons id rest ih =>
    intro s s' h
    rw [resolveRefsLoop] at h
    split at h
    · simp at h
    · rename_i n hn
      simp only at h
      rw [bind_eq_ok] at h
      obtain ⟨s1, h1, h⟩ := h
      rw [bind_eq_ok] at h
      obtain ⟨s2, h2, h⟩ := h
      have g1 : Keeps s s1 ∧ (n.ref ≠ "" → HasRef s1.infos id) := by
        split at h1
        · rw [bind_eq_ok] at h1
          obtain ⟨⟨o, sa⟩, hr, h1⟩ := h1
          simp only [Res.ok.injEq] at h1
          obtain ⟨k, hl⟩ := resolveRef_keeps env recDoc hrec _ _ _ _ _ _ hr
          rw [← h1]
          refine ⟨k.trans (updInfo_keeps _ _ _ (by intro i t _; exact ⟨_, rfl⟩)), fun _ => ?_⟩
          have hl' := k.1 id hl
          unfold HasRef
          rw [updInfo_infos_lookup, if_pos rfl]
          cases hg : lookupNat id sa.infos with
          | none => rw [hg] at hl'; simp at hl'
          | some i => exact ⟨_, _, rfl, rfl⟩
        · rename_i hne
          simp only [Res.ok.injEq] at h1; rw [← h1]
          exact ⟨Keeps.refl _, fun h => absurd (by simpa using h) hne⟩
      have g2 : Keeps s1 s2 := by
        split at h2
        · rw [bind_eq_ok] at h2
          obtain ⟨⟨o, sa⟩, hr, h2⟩ := h2
          simp only [Res.ok.injEq] at h2
          obtain ⟨k, _⟩ := resolveRef_keeps env recDoc hrec _ _ _ _ _ _ hr
          rw [← h2]
          exact k.trans (updInfo_keeps _ _ _ (by intro i t ht; exact ⟨t, ht⟩))
        · simp only [Res.ok.injEq] at h2; rw [← h2]; exact Keeps.refl _
      obtain ⟨k3, c3⟩ := ih _ _ h
      refine ⟨g1.1.trans (g2.trans k3), ?_⟩
      intro id' hid' n' hn' hne
      rcases List.mem_cons.mp hid' with e | e
      · subst e
        rw [hn] at hn'
        simp only [Option.some.injEq] at hn'
        subst hn'
        exact k3.2 _ (g2.2 _ (g1.2 hne))
      · exact c3 id' e n' hn' hne

theorem resolveDocStep_keeps (env : Env) (recDoc : ResolveDoc) (hrec : RecKeeps recDoc)
    (root : NodeId) (baseURI : Url) (inherit : Draft) (s s' : RState)
    (h : resolveDocStep env recDoc root baseURI inherit s = .ok s') :
    Keeps s s' ∧ ∀ id ∈ allNodes env.st (env.st.size + 2) [root], ∀ n, env.st.get? id = some n →
      n.ref ≠ "" → HasRef s'.infos id := by
  unfold resolveDocStep at h
  split at h
  · simp at h
  split at h
  · simp at h
  simp only at h
  rw [bind_eq_ok] at h
  obtain ⟨fresh, hfresh, h⟩ := h
  split at h
  · simp at h
  rw [bind_eq_ok] at h
  obtain ⟨sB, hB, h⟩ := h
  have kB := resolveURIsLoop_keeps _ _ _ _ _ _ _ hB
  obtain ⟨kC, cC⟩ := resolveRefsLoop_keeps env recDoc hrec _ _ _ _ h
  refine ⟨?_, cC⟩
  have kA : Keeps s { s with infos := s.infos ++ fresh } := by
    constructor
    · intro id hid
      show (lookupNat id (s.infos ++ fresh)).isSome = true
      rw [lookupNat_append_of_isSome _ _ _ hid]; exact hid
    · intro id ⟨i, t, hi, ht⟩
      refine ⟨i, t, ?_, ht⟩
      show lookupNat id (s.infos ++ fresh) = some i
      rw [lookupNat_append_of_isSome _ _ _ (by rw [hi]; rfl)]; exact hi
  exact kA.trans (((Keeps.of_infos_eq (setDoc_infos _ _)).trans
    (updInfo_keeps _ _ _ (by intro i t ht; exact ⟨t, ht⟩))).trans (kB.trans (Keeps.trans (Keeps.of_infos_eq rfl) kC)))

theorem resolveDoc_keeps (env : Env) : ∀ fuel, RecKeeps (resolveDoc env fuel) := by
  intro fuel
  induction fuel with
  | zero => intro root base draft s s' h; simp [resolveDoc] at h
  | succ fuel ih => intro root base draft s s' h; exact (resolveDocStep_keeps env _ ih _ _ _ _ _ h).1

theorem lookupNat_filter_key {α} (k : Nat) (p : Nat → Bool) (l : List (Nat × α)) (hp : p k = true) :
    lookupNat k (l.filter fun e => p e.1) = lookupNat k l := by
  induction l with
  | nil => rfl
  | cons e r ih =>
    obtain ⟨k', v⟩ := e
    rw [List.filter_cons]
    by_cases hk : k' = k
    · subst hk; simp [hp, lookupNat]
    · split
      · simp [lookupNat, hk, ih]
      · simp [lookupNat, hk, ih]

end RInv
end Go
end JSV
