/-
  Helper lemmas for C17: net/url's percent-encoding (`Uri.escape`) is undone by `Uri.unescape`, in every mode
  and for every String.  The UTF-8 half: the bytes of a String are the concatenation of the encodings of its
  characters, and `String.fromUTF8?` of the bytes of a String gives the String back.
-/
import JSV.Model.Uri
namespace JSV
namespace Uri

/-! ### UTF-8 -/

theorem byteArray_toList_loop (bs : ByteArray) (i : Nat) (r : List UInt8) :
    ByteArray.toList.loop bs i r = r.reverse ++ bs.data.toList.drop i := by
  fun_induction ByteArray.toList.loop bs i r with
  | case1 i r h ih =>
    rw [ih]
    have hi : i < bs.data.toList.length := by rw [Array.length_toList, ByteArray.size_data]; exact h
    rw [List.drop_eq_getElem_cons hi]
    have : bs.get! i = bs.data.toList[i] := by
      obtain ⟨data⟩ := bs
      have h' : i < data.size := h
      show data[i]! = data.toList[i]
      rw [getElem!_pos data i h', Array.getElem_toList]
    rw [this, List.reverse_cons, List.append_assoc]; rfl
  | case2 i r h =>
    have : bs.data.toList.length ≤ i := by rw [Array.length_toList, ByteArray.size_data]; exact Nat.le_of_not_lt h
    rw [List.drop_of_length_le this, List.append_nil]

theorem byteArray_toList (bs : ByteArray) : bs.toList = bs.data.toList := by
  unfold ByteArray.toList
  rw [byteArray_toList_loop]; rfl

/-- the bytes the model writes for one character are its UTF-8 encoding -/
theorem utf8_singleton (c : Char) : (String.singleton c).toUTF8.toList = String.utf8EncodeChar c := by
  rw [byteArray_toList, String.toUTF8_eq_toByteArray, String.toByteArray_singleton, List.utf8Encode_singleton,
    List.toList_data_toByteArray]

/-- decoding the concatenated encodings of the characters of a String gives the String -/
theorem utf8Decode_encode (s : String) :
    utf8Decode (s.toList.flatMap fun c => (String.singleton c).toUTF8.toList) = some s := by
  have h1 : (s.toList.flatMap fun c => (String.singleton c).toUTF8.toList) = s.toByteArray.data.toList := by
    rw [← String.utf8Encode_toList]
    unfold List.utf8Encode
    rw [List.toList_data_toByteArray]
    congr 1
    funext c
    exact utf8_singleton c
  unfold utf8Decode
  rw [h1, Array.toArray_toList]
  unfold String.fromUTF8?
  rw [dif_pos s.isValidUTF8]
  rfl

/-! ### hex digits -/

theorem hexVal_hexDigit_fin : ∀ n : Fin 16, hexVal (hexDigit n.val) = some n.val := by decide

theorem hexVal_hexDigit (n : Nat) (h : n < 16) : hexVal (hexDigit n) = some n :=
  hexVal_hexDigit_fin ⟨n, h⟩

/-- `%XY` for one byte -/
def pct (b : UInt8) : Cs := ['%', hexDigit (b.toNat / 16), hexDigit (b.toNat % 16)]

theorem byte_of_nibbles (b : UInt8) : UInt8.ofNat (b.toNat / 16 * 16 + b.toNat % 16) = b := by
  rw [Nat.div_add_mod', UInt8.ofNat_toNat]

/-! ### unescape after escape -/

theorem unescapeBytes_pct (bs : List UInt8) (rest : Cs) (r : List UInt8) (h : unescapeBytes rest = some r) :
    unescapeBytes (bs.flatMap pct ++ rest) = some (bs ++ r) := by
  induction bs with
  | nil => exact h
  | cons b bs ih =>
    have hlt : b.toNat < 256 := b.toNat_lt
    show unescapeBytes ('%' :: hexDigit (b.toNat / 16) :: hexDigit (b.toNat % 16) :: (bs.flatMap pct ++ rest)) = _
    rw [unescapeBytes, hexVal_hexDigit _ (by omega), hexVal_hexDigit _ (Nat.mod_lt _ (by decide)), ih]
    simp only [byte_of_nibbles, List.cons_append]

theorem unescapeBytes_plain (c : Char) (hc : c ≠ '%') (rest : Cs) (r : List UInt8) (h : unescapeBytes rest = some r) :
    unescapeBytes (c :: rest) = some ((String.singleton c).toUTF8.toList ++ r) := by
  rw [unescapeBytes, h]
  · intro _ _ _ e _; exact hc e
  · intro e; exact hc e

theorem shouldEscape_percent (m : Mode) : shouldEscape '%' m = true := by
  cases m <;> decide

/-- the characters `escape` writes for one character -/
def escChar (m : Mode) (c : Char) : Cs :=
  if shouldEscape c m then (String.singleton c).toUTF8.toList.flatMap pct else [c]

theorem escape_toList (s : String) (m : Mode) : (escape s m).toList = s.toList.flatMap (escChar m) := by
  unfold escape
  rw [String.toList_ofList]
  rfl

theorem unescapeBytes_esc (m : Mode) (l : List Char) :
    unescapeBytes (l.flatMap (escChar m)) = some (l.flatMap fun c => (String.singleton c).toUTF8.toList) := by
  induction l with
  | nil => rfl
  | cons c l ih =>
    rw [List.flatMap_cons, List.flatMap_cons]
    unfold escChar
    split
    · exact unescapeBytes_pct _ _ _ ih
    · rename_i hne
      have hc : c ≠ '%' := by
        intro e; rw [e, shouldEscape_percent] at hne; exact hne rfl
      exact unescapeBytes_plain c hc _ _ ih

/-- percent-encoding round-trips, in every mode -/
theorem unescape_escape (s : String) (m : Mode) : unescape (escape s m).toList = some s := by
  unfold unescape
  rw [escape_toList, unescapeBytes_esc]
  exact utf8Decode_encode s

/-! ### the Fragment field -/

theorem setFragment_escape (u : Url) (s : String) :
    setFragment u (escape s .fragment).toList = some { u with fragment := s, rawFragment := "" } := by
  unfold setFragment
  rw [unescape_escape]
  simp only [String.ofList_toList, beq_self_eq_true, if_true]

theorem setPath_escape (u : Url) (s : String) :
    setPath u (escape s .path).toList = some { u with path := s, rawPath := "" } := by
  unfold setPath
  rw [unescape_escape]
  simp only [String.ofList_toList, beq_self_eq_true, if_true]

theorem parseNoFrag_nil : parseNoFrag [] = .ok {} := by decide +kernel

/-- url.Parse of `#` followed by the escaping of `p`: the URL whose only component is the fragment `p` -/
theorem parse_hash_escape (p : String) : parse ("#" ++ escape p .fragment) = .ok { fragment := p } := by
  unfold parse
  have hl : ("#" ++ escape p .fragment).toList = '#' :: (escape p .fragment).toList := by
    rw [String.toList_append]; rfl
  have hcut : cut '#' ('#' :: (escape p .fragment).toList) = ([], (escape p .fragment).toList, true) := by
    rfl
  rw [hl, hcut]
  simp only [parseNoFrag_nil, Res.bind_ok]
  split
  · rename_i hempty
    have hnil : (escape p .fragment).toList = [] := by simpa using hempty
    have := unescape_escape p .fragment
    rw [hnil] at this
    have hp : p = "" := by
      have h0 : unescape [] = some "" := by decide +kernel
      rw [h0] at this
      simp only [Option.some.injEq] at this
      exact this.symm
    rw [hp]
  · rw [setFragment_escape]

end Uri
end JSV
