/-
  The vocabulary of the draft (`Spec.vocab`): under draft-07 the keywords `minContains`, `maxContains`,
  `unevaluatedItems`, `unevaluatedProperties`, `$dynamicRef` are unknown keywords.  The Spec evaluates the schema object
  with these fields blanked; the evaluator guards its reads by the draft.  The bridge: a block that takes the
  draft, run on the node, is the same block run under 2020-12 on the blanked node — so the block lemmas are
  proved once, for 2020-12 and an arbitrary node.
-/
import JSV.Spec.Refine
namespace JSV
namespace Refine
open Go

@[simp] theorem vocab_d2020 (n : Node) : Spec.vocab .d2020 n = n := rfl

theorem vocab_idem (d : Draft) (n : Node) : Spec.vocab d (Spec.vocab d n) = Spec.vocab d n := by
  cases d <;> rfl

@[simp] theorem vocab_d7_minContains (n : Node) : (Spec.vocab .d7 n).minContains = none := rfl
@[simp] theorem vocab_d7_maxContains (n : Node) : (Spec.vocab .d7 n).maxContains = none := rfl
@[simp] theorem vocab_d7_unevaluatedItems (n : Node) : (Spec.vocab .d7 n).unevaluatedItems = none := rfl
@[simp] theorem vocab_d7_unevaluatedProperties (n : Node) : (Spec.vocab .d7 n).unevaluatedProperties = none := rfl
@[simp] theorem vocab_d7_dynamicRef (n : Node) : (Spec.vocab .d7 n).dynamicRef = "" := rfl
@[simp] theorem vocab_contains (d : Draft) (n : Node) : (Spec.vocab d n).contains = n.contains := rfl

theorem vocab_eq_of_env {env : Spec.Env} (hd : env.draft = .d2020) (n : Node) : Spec.vocab env.draft n = n := by
  rw [hd]; rfl

@[simp] theorem beq_d2020_d7 : (Draft.d2020 == Draft.d7) = false := rfl
@[simp] theorem beq_d7_d2020 : (Draft.d7 == Draft.d2020) = false := rfl
@[simp] theorem beq_d7_d7 : (Draft.d7 == Draft.d7) = true := rfl
@[simp] theorem beq_d2020_d2020 : (Draft.d2020 == Draft.d2020) = true := rfl

/-! ### the evaluator's draft guards -/

theorem bContains_vocab (d : Draft) (rec : Go.Rec) (stack : List NodeId) (n : Node) (xs : List GoVal) (anns : Anns) :
    bContains d rec stack n xs anns = bContains .d2020 rec stack (Spec.vocab d n) xs anns := by
  cases d
  · unfold bContains; simp [Spec.vocab]
  · rfl

theorem bArrayLimits_vocab (d : Draft) (n : Node) (xs : List GoVal) (cnt : Nat) :
    bArrayLimits d n xs cnt = bArrayLimits .d2020 (Spec.vocab d n) xs cnt := by
  cases d
  · unfold bArrayLimits; simp [Spec.vocab]
  · rfl

theorem bUnevaluatedItems_vocab (d : Draft) (rec : Go.Rec) (stack : List NodeId) (n : Node) (xs : List GoVal)
    (anns : Anns) :
    bUnevaluatedItems d rec stack n xs anns = bUnevaluatedItems .d2020 rec stack (Spec.vocab d n) xs anns := by
  cases d
  · unfold bUnevaluatedItems; simp [Spec.vocab]
  · rfl

theorem bUnevaluatedProps_vocab (d : Draft) (rec : Go.Rec) (stack : List NodeId) (n : Node)
    (kvs : List (String × GoVal)) (anns : Anns) :
    bUnevaluatedProps d rec stack n kvs anns = bUnevaluatedProps .d2020 rec stack (Spec.vocab d n) kvs anns := by
  cases d
  · unfold bUnevaluatedProps; simp [Spec.vocab]
  · rfl

/-- the `$dynamicRef` block reads the draft off the environment: on the node = on the blanked node -/
theorem bDynamicRef_vocab (env : VEnv) (rec : Go.Rec) (stack : List NodeId) (n : Node) (info : Option Info)
    (inst : GoVal) (anns : Anns) :
    bDynamicRef env rec stack n info inst anns = bDynamicRef env rec stack (Spec.vocab env.draft n) info inst anns := by
  unfold bDynamicRef
  cases hd : env.draft
  · simp
  · rfl

theorem bDynamicRef_d7 (env : VEnv) (hd : env.draft = .d7) (rec : Go.Rec) (stack : List NodeId) (n : Node)
    (info : Option Info) (inst : GoVal) (anns : Anns) : bDynamicRef env rec stack n info inst anns = .ok anns := by
  unfold bDynamicRef; simp [hd]

theorem kwDynamicRef_d7 (env : Spec.Env) (sub : NodeId → Json → Spec.Out) (scope : List NodeId) (s : NodeId) (n : Node)
    (j : Json) : Spec.kwDynamicRef env sub scope s (Spec.vocab .d7 n) j = some (some {}) := by
  simp [Spec.kwDynamicRef]

/-- draft-07: the four blocks do not depend on the four fields -/
theorem bUnevaluatedItems_d7 (rec : Go.Rec) (stack : List NodeId) (n : Node) (xs : List GoVal) (anns : Anns) :
    bUnevaluatedItems .d7 rec stack n xs anns = .ok anns := rfl

theorem bUnevaluatedProps_d7 (rec : Go.Rec) (stack : List NodeId) (n : Node) (kvs : List (String × GoVal))
    (anns : Anns) : bUnevaluatedProps .d7 rec stack n kvs anns = .ok anns := rfl

end Refine
end JSV
