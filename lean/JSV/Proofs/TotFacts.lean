/-
  C10 source facts: the hand-written expectation for `Generated.panicSites`
  (every explicit `panic(...)` and `assert(...)` call of the package: function, kind, first argument text).
-/
import JSV.Generated.Facts
namespace JSV
namespace C10

def expectedPanicSites : List (String × String × String) := [
  -- assertions on internal invariants (modelled as `.panic` outcomes of the corresponding Model functions)
  ("(*Resolved).validateDefaults", "assert", "s != nil"),
  ("(*Schema).checkStructure", "assert", "len(infos) == 0"),
  ("(*resolver).resolveRef", "assert", "referencedSchema != nil"),
  -- applyDefaults on a value that is neither map nor struct (after the kind switch)
  ("(*state).applyDefaults", "panic", "fmt.Sprintf(\"applyDefaults: property %s: bad value %s of kind %s\",\n\tprop, instance, instance.Kind())"),
  ("(*state).resolveDynamicRef", "assert", "(info.resolvedDynamicRef == nil) != (info.dynamicRefAnchor == \"\")"),
  ("(*state).validate", "assert", "schema != nil"),
  ("(*state).validate", "assert", "(schemaInfo.resolvedDynamicRef == nil) != (schemaInfo.dynamicRefAnchor == \"\")"),
  -- the assert helper itself
  ("assert", "panic", "\"assertion failed: \" + msg"),
  -- equalValue / hashValue on kinds that are not JSON data (C10.equalValue_no_panic, hashEnc_no_panic: unreachable on JSON)
  ("equalValue", "panic", "\"cannot compare functions\""),
  ("equalValue", "panic", "fmt.Sprintf(\"unsupported kind: %s\", x.Kind())"),
  ("hashValue", "panic", "\"map with non-string key\""),
  ("hashValue", "panic", "fmt.Sprintf(\"unsupported kind: %s\", v.Kind())"),
  -- property helpers reached only with an object-kind instance
  ("numPropertiesBounds", "panic", "fmt.Sprintf(\"properties: bad value: %s of kind %s\", v, v.Kind())"),
  ("properties", "panic", "fmt.Sprintf(\"bad value %s of kind %s\", v, v.Kind())"),
  ("property", "panic", "fmt.Sprintf(\"property(%q): bad value %s of kind %s\", name, v, v.Kind())")]

end C10
end JSV
