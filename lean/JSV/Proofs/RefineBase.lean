/-
  Refinement proof, part 1: facts about `ofJson`, the assertion blocks, the representation lemmas of
  the compressed annotation record, and the list combinators of the Spec.
-/
import JSV.Proofs.Vocab
import JSV.Props.C11
import JSV.Props.C12
namespace JSV
namespace Refine
open Go GoVal

/-! ## `ofJson` -/

theorem ofJsonList_eq_map (xs : List Json) :
    ofJsonList xs = xs.map (fun x => GoVal.iface (ofJson x)) := by
  induction xs with
  | nil => simp [ofJsonList]
  | cons x xs ih => simp [ofJsonList, ih]

theorem ofJsonObj_eq_map (kvs : List (String × Json)) :
    ofJsonObj kvs = kvs.map (fun p => (p.1, GoVal.iface (ofJson p.2))) := by
  induction kvs with
  | nil => simp [ofJsonObj]
  | cons p kvs ih => obtain ⟨k, v⟩ := p; simp [ofJsonObj, ih]

@[simp] theorem strip_iface (v : GoVal) : strip (.iface v) = strip v := by simp [strip]

theorem strip_ofJson (j : Json) : strip (ofJson j) = ofJson j := by
  cases j <;> simp [ofJson, strip]

theorem strip_iface_ofJson (j : Json) : strip (.iface (ofJson j)) = ofJson j := by
  simp [strip_ofJson]

theorem denoteList_ofJsonList : ∀ (xs : List Json), (∀ x, x ∈ xs → denote (ofJson x) = some x) →
    denoteList (ofJsonList xs) = some xs
  | [], _ => by simp [ofJsonList, denoteList]
  | x :: xs, h => by
    have h1 := h x (by simp)
    have h2 := denoteList_ofJsonList xs (fun y hy => h y (by simp [hy]))
    simp [ofJsonList, denoteList, denote, h1, h2]

theorem denoteObj_ofJsonObj : ∀ (kvs : List (String × Json)), (∀ k v, (k, v) ∈ kvs → denote (ofJson v) = some v) →
    denoteObj (ofJsonObj kvs) = some kvs
  | [], _ => by simp [ofJsonObj, denoteObj]
  | (k, v) :: kvs, h => by
    have h1 := h k v (by simp)
    have h2 := denoteObj_ofJsonObj kvs (fun k' v' hy => h k' v' (by simp [hy]))
    simp [ofJsonObj, denoteObj, denote, h1, h2]

theorem denote_ofJson : ∀ j : Json, denote (ofJson j) = some j := by
  apply Json.induct
  · simp [ofJson, denote]
  · intro b; simp [ofJson, denote]
  · intro q; simp [ofJson, denote]
  · intro s; simp [ofJson, denote]
  · intro xs ih; simp [ofJson, denote, denoteList_ofJsonList xs ih]
  · intro kvs ih; simp [ofJson, denote, denoteObj_ofJsonObj kvs ih]

theorem jsonType_ofJson (j : Json) : jsonType (ofJson j) = some j.typeName := by
  cases j <;> simp [ofJson, jsonType, Json.typeName]

theorem jsonNumber_ofJson_num (q : Rat) : jsonNumber (ofJson (.num q)) = some q := by
  simp [ofJson, jsonNumber]

theorem jsonNumber_ofJson_of_not_num (j : Json) (h : ∀ q, j ≠ .num q) : jsonNumber (ofJson j) = none := by
  cases j <;> simp [ofJson, jsonNumber] at *

theorem stringOf_ofJson_str (s : String) : stringOf (ofJson (.str s)) = some s := by
  simp [ofJson, stringOf]

theorem stringOf_ofJson_of_not_str (j : Json) (h : ∀ s, j ≠ .str s) : stringOf (ofJson j) = none := by
  cases j <;> simp [ofJson, stringOf] at *

theorem lookup_map_snd {α β} (f : α → β) (k : String) : ∀ (kvs : List (String × α)),
    Json.lookup k (kvs.map (fun p => (p.1, f p.2))) = (Json.lookup k kvs).map f
  | [] => by simp
  | (k', v) :: rest => by
    simp only [List.map_cons, Json.lookup_cons]
    by_cases h : k' = k
    · simp [h]
    · simp [h, lookup_map_snd f k rest]

theorem lookup_ofJsonObj (k : String) (kvs : List (String × Json)) :
    Json.lookup k (ofJsonObj kvs) = (Json.lookup k kvs).map (fun v => GoVal.iface (ofJson v)) := by
  rw [ofJsonObj_eq_map]; exact lookup_map_snd (fun v => GoVal.iface (ofJson v)) k kvs

theorem lookup_isSome_iff {α} {k : String} {kvs : List (String × α)} :
    (Json.lookup k kvs).isSome = true ↔ k ∈ kvs.map (·.1) := by
  constructor
  · intro h
    obtain ⟨v, hv⟩ := Option.isSome_iff_exists.1 h
    exact List.mem_map.2 ⟨(k, v), Json.mem_of_lookup hv, rfl⟩
  · intro h; obtain ⟨v, hv⟩ := Json.lookup_isSome_of_mem_keys h; simp [hv]

/-! ## assertion blocks -/

theorem any_typeMatches (got : String) (ts : List String) :
    (ts.any fun t => got == t || (got == "integer" && t == "number"))
      = (ts.contains got || (got == "integer" && ts.contains "number")) := by
  induction ts with
  | nil => simp
  | cons t ts ih =>
    simp only [List.any_cons, ih, List.contains_cons]
    have : ("number" == t) = (t == "number") := by
      rw [Bool.eq_iff_iff, beq_iff_eq, beq_iff_eq]; exact eq_comm
    rw [this]
    cases (got == t) <;> cases (got == "integer") <;> cases (t == "number") <;>
      cases (List.contains ts got) <;> cases (List.contains ts "number") <;> rfl

/-- `if b then nil else error` -/
def okIf (b : Bool) : Res Unit := if b then .ok () else .err
@[simp] theorem okIf_true : okIf true = .ok () := rfl
@[simp] theorem okIf_false : okIf false = .err := rfl
theorem ite_err_okIf (c : Bool) (b : Bool) : (if c = true then Res.err else okIf b) = okIf (!c && b) := by
  cases c <;> simp
theorem ite_okIf (b : Bool) : (if b = true then Res.ok () else Res.err) = okIf b := rfl

theorem bType_eq (n : Node) (j : Json) : bType n (ofJson j) = okIf (Spec.typeOk n j) := by
  unfold bType Spec.typeOk okIf
  rw [jsonType_ofJson]
  by_cases h1 : n.type = ""
  · cases h2 : n.types with
    | none => simp [h1]
    | some ts => simp [h1, Spec.typeMatches, any_typeMatches]
  · simp [h1, Spec.typeMatches]

theorem equalValue_ofJson (e j : Json) : equalValue (ofJson e) (ofJson j) = .ok (Json.eqv e j) :=
  C11.equal_iff (ofJson e) (ofJson j) e j (denote_ofJson e) (denote_ofJson j)

theorem enumLoop_eq (j : Json) : ∀ es, enumLoop (ofJson j) es = .ok (es.any fun e => Json.eqv e j)
  | [] => by simp [enumLoop]
  | e :: es => by
    rw [enumLoop, equalValue_ofJson]
    simp only [Res.bind_ok, List.any_cons]
    cases Json.eqv e j <;> simp [enumLoop_eq j es]

theorem bEnum_eq (n : Node) (j : Json) : bEnum n (ofJson j) = okIf (Spec.enumOk n j) := by
  unfold bEnum Spec.enumOk
  cases n.enum with
  | none => simp
  | some es => simp only [enumLoop_eq, Res.bind_ok, ite_okIf]

theorem bConst_eq (n : Node) (j : Json) : bConst n (ofJson j) = okIf (Spec.constOk n j) := by
  unfold bConst Spec.constOk
  cases n.const with
  | none => simp
  | some c => simp only [equalValue_ofJson, Res.bind_ok, ite_okIf]

theorem rat_le (a b : Rat) : decide (a ≤ b) = !decide (b < a) := by
  by_cases h : b < a
  · have := Rat.not_le.2 h; simp [h, this]
  · have := Rat.not_lt.1 h; simp [h, this]

theorem int_le (a b : Int) : decide (a ≤ b) = !decide (b < a) := by
  by_cases h : b < a
  · have := Int.not_le.2 h; simp [h, this]
  · have := Int.not_lt.1 h; simp [h, this]

set_option linter.unusedSimpArgs false in
theorem bNumeric_eq (n : Node) (j : Json) : bNumeric n (ofJson j) = okIf (Spec.numericOk n j) := by
  unfold bNumeric
  by_cases hq : ∃ q, j = .num q
  · obtain ⟨q, rfl⟩ := hq
    simp only [jsonNumber_ofJson_num, Spec.numericOk]
    generalize n.multipleOf = mo
    generalize n.minimum = mi
    generalize n.maximum = ma
    generalize n.exclusiveMinimum = emi
    generalize n.exclusiveMaximum = ema
    rw [← okIf_true]
    cases mo <;> cases mi <;> cases ma <;> cases emi <;> cases ema <;>
      simp only [Option.isSome_some, Option.isSome_none, Bool.or_false, Bool.or_true, Bool.true_or, Bool.false_or,
        if_true, if_false, Bool.true_and, Bool.and_true, Bool.false_eq_true, ite_err_okIf, rat_le, GT.gt, GE.ge,
        multipleOk, Bool.not_false, Bool.not_not, Bool.and_assoc]
  · have hn : ∀ q, j ≠ .num q := fun q h => hq ⟨q, h⟩
    rw [jsonNumber_ofJson_of_not_num j hn]
    have : Spec.numericOk n j = true := by
      cases j <;> simp [Spec.numericOk] at *
    simp [this]

set_option linter.unusedSimpArgs false in
theorem bString_eq (env : VEnv) (n : Node) (i : Info) (j : Json) :
    bString env n (some i) (ofJson j) = okIf (Spec.stringOk (specEnvOf env) n j) := by
  unfold bString
  by_cases hs : ∃ s, j = .str s
  · obtain ⟨s, rfl⟩ := hs
    simp only [stringOf_ofJson_str, Spec.stringOk, specEnvOf]
    generalize n.minLength = mi
    generalize n.maxLength = ma
    by_cases hp : n.pattern = ""
    · rw [← okIf_true]
      cases mi <;> cases ma <;>
      simp only [hp, Option.isSome_some, Option.isSome_none, Bool.or_false, Bool.or_true, Bool.true_or, Bool.false_or,
        if_true, if_false, Bool.true_and, Bool.and_true, Bool.false_eq_true, ite_err_okIf, int_le, GT.gt, GE.ge,
        Bool.not_false, Bool.not_not, Bool.and_assoc, bne_self_eq_false, beq_self_eq_true]
    · have hp1 : (n.pattern != "") = true := by simp [hp]
      have hp2 : (n.pattern == "") = false := by simp [hp]
      cases mi <;> cases ma <;>
      simp only [hp1, hp2, Option.isSome_some, Option.isSome_none, Bool.or_false, Bool.or_true, Bool.true_or, Bool.false_or,
        if_true, if_false, Bool.true_and, Bool.and_true, Bool.false_eq_true, ite_err_okIf, int_le, GT.gt, GE.ge,
        Bool.not_false, Bool.not_not, Bool.and_assoc, ite_okIf]
  · have hn : ∀ s, j ≠ .str s := fun s h => hs ⟨s, h⟩
    rw [stringOf_ofJson_of_not_str j hn]
    have : Spec.stringOk (specEnvOf env) n j = true := by
      cases j <;> simp [Spec.stringOk] at *
    simp [this]

/-! ## the compressed annotation record -/

theorem γprop_merge (a b : Anns) (k : String) : γprop (a.merge b) k = (γprop a k || γprop b k) := by
  simp only [γprop, Anns.merge, List.contains_append]
  ac_rfl

theorem decide_lt_max (i x y : Nat) :
    decide (i < (if y > x then y else x)) = (decide (i < x) || decide (i < y)) := by
  rw [Bool.eq_iff_iff]
  simp only [decide_eq_true_eq, Bool.or_eq_true]
  split <;> omega

theorem γitem_merge (a b : Anns) (i : Nat) : γitem (a.merge b) i = (γitem a i || γitem b i) := by
  have hE : decide (i < (a.merge b).endIndex) = (decide (i < a.endIndex) || decide (i < b.endIndex)) :=
    decide_lt_max i a.endIndex b.endIndex
  have h1 : (a.merge b).allItems = (a.allItems || b.allItems) := rfl
  have h2 : (a.merge b).evaluatedIndexes = a.evaluatedIndexes ++ b.evaluatedIndexes := rfl
  unfold γitem
  rw [hE, h1, h2, List.contains_append]
  ac_rfl

theorem γprop_noteProperties (a : Anns) (ps : List String) (k : String) :
    γprop (a.noteProperties ps) k = (γprop a k || ps.contains k) := by
  simp only [γprop, Anns.noteProperties, List.contains_append, Bool.or_assoc]

theorem γitem_noteProperties (a : Anns) (ps : List String) (i : Nat) :
    γitem (a.noteProperties ps) i = γitem a i := rfl

theorem γitem_noteEndIndex (a : Anns) (e i : Nat) :
    γitem (a.noteEndIndex e) i = (γitem a i || decide (i < e)) := by
  by_cases hgt : e > a.endIndex
  · rw [Anns.noteEndIndex, if_pos hgt]
    have : decide (i < e) = (decide (i < a.endIndex) || decide (i < e)) := by
      rw [Bool.eq_iff_iff]; simp only [decide_eq_true_eq, Bool.or_eq_true]; omega
    unfold γitem
    show (a.allItems || decide (i < e) || a.evaluatedIndexes.contains i) = _
    rw [this]
    ac_rfl
  · rw [Anns.noteEndIndex, if_neg hgt]
    have : decide (i < a.endIndex) = (decide (i < a.endIndex) || decide (i < e)) := by
      rw [Bool.eq_iff_iff]; simp only [decide_eq_true_eq, Bool.or_eq_true]; omega
    unfold γitem
    rw [this]
    ac_rfl

theorem γprop_noteEndIndex (a : Anns) (e : Nat) (k : String) : γprop (a.noteEndIndex e) k = γprop a k := by
  simp only [γprop, Anns.noteEndIndex]; split <;> rfl

theorem γitem_noteIndex (a : Anns) (i' i : Nat) :
    γitem (a.noteIndex i') i = (γitem a i || decide (i = i')) := by
  have : [i'].contains i = decide (i = i') := by simp
  unfold γitem
  show (a.allItems || decide (i < a.endIndex) || (a.evaluatedIndexes ++ [i']).contains i) = _
  rw [List.contains_append, this]
  simp only [Bool.or_assoc]

theorem γprop_noteIndex (a : Anns) (i' : Nat) (k : String) : γprop (a.noteIndex i') k = γprop a k := rfl

theorem γitem_allItems (a : Anns) (i : Nat) : γitem { a with allItems := true } i = true := by simp [γitem]
theorem γprop_allItems (a : Anns) (k : String) : γprop { a with allItems := true } k = γprop a k := rfl
theorem γprop_allProperties (a : Anns) (k : String) : γprop { a with allProperties := true } k = true := by
  simp [γprop]
theorem γitem_allProperties (a : Anns) (i : Nat) : γitem { a with allProperties := true } i = γitem a i := rfl
theorem γprop_empty (k : String) : γprop {} k = false := by simp [γprop]
theorem γitem_empty (i : Nat) : γitem {} i = false := by simp [γitem]

/-- `a'` stands for the sets of `a` extended by `ev` (on the properties / items of `j`) -/
def Ext (j : Json) (a a' : Anns) (ev : Spec.Ev) : Prop :=
  (∀ k, k ∈ keysOf j → γprop a' k = (γprop a k || ev.props.contains k)) ∧
  (∀ i, i < lenOf j → γitem a' i = (γitem a i || ev.items.contains i))

theorem Ext_refl (j : Json) (a : Anns) : Ext j a a {} := by
  constructor <;> intros <;> simp

theorem Ext_trans {j : Json} {a b c : Anns} {e1 e2 : Spec.Ev} (h1 : Ext j a b e1) (h2 : Ext j b c e2) :
    Ext j a c (e1.union e2) := by
  constructor
  · intro k hk; rw [h2.1 k hk, h1.1 k hk]; simp only [Spec.Ev.union, List.contains_append, Bool.or_assoc]
  · intro i hi; rw [h2.2 i hi, h1.2 i hi]; simp only [Spec.Ev.union, List.contains_append, Bool.or_assoc]

theorem Ext_merge {j : Json} (a : Anns) {b : Anns} {ev : Spec.Ev} (h : AnnsMatch j b ev) :
    Ext j a (a.merge b) ev := by
  constructor
  · intro k hk; rw [γprop_merge, h.1 k hk]
  · intro i hi; rw [γitem_merge, h.2 i hi]

theorem Ext_congr {j : Json} {a a' : Anns} {e e' : Spec.Ev} (h : Ext j a a' e)
    (hp : ∀ k, k ∈ keysOf j → e.props.contains k = e'.props.contains k)
    (hi : ∀ i, i < lenOf j → e.items.contains i = e'.items.contains i) : Ext j a a' e' := by
  constructor
  · intro k hk; rw [h.1 k hk, hp k hk]
  · intro i hi'; rw [h.2 i hi', hi i hi']

theorem AnnsMatch_empty (j : Json) : AnnsMatch j {} {} := by
  constructor <;> intros <;> simp [γprop, γitem]

theorem AnnsMatch_of_Ext {j : Json} {a a' : Anns} {e0 e : Spec.Ev} (h0 : AnnsMatch j a e0) (h : Ext j a a' e) :
    AnnsMatch j a' (e0.union e) := by
  constructor
  · intro k hk; rw [h.1 k hk, h0.1 k hk]; simp only [Spec.Ev.union, List.contains_append]
  · intro i hi; rw [h.2 i hi, h0.2 i hi]; simp only [Spec.Ev.union, List.contains_append]

theorem AnnsMatch_of_Ext_empty {j : Json} {a' : Anns} {e : Spec.Ev} (h : Ext j {} a' e) : AnnsMatch j a' e := by
  constructor
  · intro k hk; rw [h.1 k hk, γprop_empty, Bool.false_or]
  · intro i hi; rw [h.2 i hi, γitem_empty, Bool.false_or]

/-- what a block that threads the annotations must do when its keyword evaluates to `r` -/
def Blk (j : Json) (a : Anns) (r : Spec.R) (m : Res Anns) : Prop :=
  match r with
  | none => m = .err
  | some ev => ∃ a', m = .ok a' ∧ Ext j a a' ev

/-- binary conjunction of results -/
def conj2 (r1 r2 : Spec.R) : Spec.R :=
  match r1, r2 with
  | some e1, some e2 => some (e1.union e2)
  | _, _ => none

@[simp] theorem conj2_none_left (r : Spec.R) : conj2 none r = none := rfl
@[simp] theorem conj2_none_right (r : Spec.R) : conj2 r none = none := by cases r <;> rfl
@[simp] theorem conj2_some (e1 e2 : Spec.Ev) : conj2 (some e1) (some e2) = some (e1.union e2) := rfl

theorem Blk_bind {j : Json} {a : Anns} {r1 r2 : Spec.R} {m1 : Res Anns} {f : Anns → Res Anns}
    (h1 : Blk j a r1 m1) (h2 : ∀ a1, Blk j a1 r2 (f a1)) : Blk j a (conj2 r1 r2) (Res.bind m1 f) := by
  cases r1 with
  | none => simp only [Blk] at h1; simp [h1, Blk]
  | some e1 =>
    obtain ⟨a1, hm, hx⟩ := h1
    subst hm
    simp only [Res.bind_ok]
    have h2' := h2 a1
    cases r2 with
    | none => simp only [Blk] at h2'; simp [h2', Blk]
    | some e2 =>
      obtain ⟨a2, hm2, hx2⟩ := h2'
      exact ⟨a2, hm2, Ext_trans hx hx2⟩

theorem Blk_ok (j : Json) (a : Anns) : Blk j a (some {}) (.ok a) := ⟨a, rfl, Ext_refl j a⟩

/-! ## the list combinators of the Spec -/

open Spec in
theorem sequence_eq_some {α} : ∀ {l : List (Option α)} {rs : List α}, sequence l = some rs ↔ l = rs.map some
  | [], rs => by cases rs <;> simp [sequence]
  | none :: l, rs => by cases rs <;> simp [sequence]
  | some a :: l, rs => by
    cases rs with
    | nil => simp [sequence]
    | cons r rs =>
      simp only [sequence, Option.map_eq_some_iff, List.map_cons, List.cons.injEq, Option.some.injEq]
      constructor
      · rintro ⟨rs', h, rfl, rfl⟩; exact ⟨rfl, sequence_eq_some.1 h⟩
      · rintro ⟨rfl, h⟩; exact ⟨rs, sequence_eq_some.2 h, rfl, rfl⟩

theorem sequence_map_some {α} (rs : List α) : Spec.sequence (rs.map some) = some rs :=
  sequence_eq_some.2 rfl

theorem foldl_union (es : List Spec.Ev) (e0 : Spec.Ev) :
    es.foldl Spec.Ev.union e0 = ⟨e0.props ++ es.flatMap (·.props), e0.items ++ es.flatMap (·.items)⟩ := by
  induction es generalizing e0 with
  | nil => simp
  | cons e es ih => simp [ih, Spec.Ev.union, List.append_assoc]

theorem unions_eq (es : List Spec.Ev) : Spec.Ev.unions es = ⟨es.flatMap (·.props), es.flatMap (·.items)⟩ := by
  simp [Spec.Ev.unions, foldl_union]

theorem unions_nil : Spec.Ev.unions [] = {} := rfl
theorem unions_cons (e : Spec.Ev) (es : List Spec.Ev) :
    Spec.Ev.unions (e :: es) = e.union (Spec.Ev.unions es) := by
  simp [unions_eq, Spec.Ev.union]

theorem conj_nil : Spec.conj [] = some {} := rfl

theorem conj_cons (r : Spec.R) (rs : List Spec.R) : Spec.conj (r :: rs) = conj2 r (Spec.conj rs) := by
  cases r with
  | none => simp [Spec.conj]
  | some e =>
    by_cases h : rs.all Option.isSome = true
    · simp [Spec.conj, h, unions_cons]
    · simp [Spec.conj, h]

theorem validCount_cons (r : Spec.R) (rs : List Spec.R) :
    Spec.validCount (r :: rs) = (if r.isSome then 1 else 0) + Spec.validCount rs := by
  cases r <;> simp [Spec.validCount] <;> omega

theorem validUnion_cons_none (rs : List Spec.R) : Spec.validUnion (none :: rs) = Spec.validUnion rs := by
  simp [Spec.validUnion]

theorem validUnion_cons_some (e : Spec.Ev) (rs : List Spec.R) :
    Spec.validUnion (some e :: rs) = e.union (Spec.validUnion rs) := by
  simp [Spec.validUnion, unions_cons]

/-- a defined and valid sub-result -/
def okOut (o : Spec.Out) : Bool :=
  match o with
  | some (some _) => true
  | _ => false

theorem allHold_map_some (rs : List Spec.R) : Spec.allHold rs = (rs.map some).all okOut := by
  induction rs with
  | nil => rfl
  | cons r rs ih =>
    simp only [Spec.allHold, List.all_cons, List.map_cons] at *
    rw [ih]; cases r <;> rfl

/-- the shape shared by the keywords that only require every sub-application to hold -/
theorem sequence_allHold {l : List Spec.Out} {rs : List Spec.R} (h : Spec.sequence l = some rs) :
    (∀ o, o ∈ l → ∃ r, o = some r) ∧ Spec.allHold rs = l.all okOut := by
  have hl := sequence_eq_some.1 h
  subst hl
  refine ⟨?_, allHold_map_some rs⟩
  intro o ho
  obtain ⟨r, _, hr⟩ := List.mem_map.1 ho
  exact ⟨r, hr.symm⟩

theorem all_eq_of_mem_iff {α} {p : α → Bool} {l1 l2 : List α} (h : ∀ x, x ∈ l1 ↔ x ∈ l2) :
    l1.all p = l2.all p := by
  rw [Bool.eq_iff_iff, List.all_eq_true, List.all_eq_true]
  constructor
  · intro H x hx; exact H x ((h x).2 hx)
  · intro H x hx; exact H x ((h x).1 hx)

end Refine
end JSV
