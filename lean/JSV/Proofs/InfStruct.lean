/-
  Helper lemmas for C16 / C04 / C09: one iteration of the struct-field loop of `forType`, and what the
  loop does to `properties`, `propertyOrder` and `required`.
-/
import JSV.Proofs.InfStore
import JSV.Spec.EncJson
namespace JSV
namespace Go
open EncJson (jsonNames alwaysNames nodup)

/-- `if s.Properties == nil { s.Properties = make(map[string]*Schema) }` -/
def ensureProps (n : Node) : Node := if n.properties.isNone then { n with properties := some [] } else n

/-- the field is entered into `properties`, `propertyOrder` and (unless omitempty / omitzero) `required` -/
def addField (n : Node) (info : JsonInfo) (fid : NodeId) : Node :=
  { n with properties := some ((n.properties.getD []).filter (·.1 != info.name) ++ [(info.name, fid)]),
           propertyOrder := some ((n.propertyOrder.getD []) ++ [info.name]),
           required := if !info.omitempty && !info.omitzero then some ((n.required.getD []) ++ [info.name]) else n.required }

/-- `fs.Description = tag` -/
def descSet (st : Store) (fid : NodeId) (d : String) : Store :=
  match st.get? fid with
  | some fn => st.set! fid { fn with description := d }
  | none => st

/-- one iteration of the loop, inverted -/
theorem structLoop_cons {rec : IRec} {seen : List String} {goName tag : String} {ft : GoType}
    {rest : List (String × String × GoType)} {n : Node} {st : Store} {n' : Node} {st' : Store}
    (h : structLoop rec seen ((goName, tag, ft) :: rest) n st = .ok (n', st')) :
    ((fieldJSONInfo goName tag).omitted = true ∧ structLoop rec seen rest (ensureProps n) st = .ok (n', st')) ∨
    ((fieldJSONInfo goName tag).omitted = false ∧ ∃ st1, rec ft seen st = .ok (none, st1) ∧
        structLoop rec seen rest (ensureProps n) st1 = .ok (n', st')) ∨
    ((fieldJSONInfo goName tag).omitted = false ∧ ∃ fid st1 st2, rec ft seen st = .ok (some fid, st1) ∧
        (st2 = st1 ∨ ∃ d, st2 = descSet st1 fid d) ∧
        structLoop rec seen rest (addField (ensureProps n) (fieldJSONInfo goName tag) fid) st2 = .ok (n', st')) := by
  simp only [structLoop] at h
  split at h
  · rename_i ho
    exact Or.inl ⟨ho, h⟩
  · rename_i ho
    have ho : (fieldJSONInfo goName tag).omitted = false := by simpa using ho
    obtain ⟨⟨fs, st1⟩, hfs, h⟩ := Res.bind_eq_ok h
    simp only at h
    split at h
    · exact Or.inr (Or.inl ⟨ho, st1, hfs, h⟩)
    · rename_i fid
      refine Or.inr (Or.inr ⟨ho, fid, st1, ?_⟩)
      split at h
      · cases h
      · split at h
        · cases h
        · exact ⟨_, hfs, Or.inr ⟨_, rfl⟩, h⟩
      · exact ⟨_, hfs, Or.inl rfl, h⟩

/-! ### the part of the node the loop does not touch -/

def coreOf (n : Node) : Node := { n with properties := none, propertyOrder := none, required := none }

theorem coreOf_ensureProps (n : Node) : coreOf (ensureProps n) = coreOf n := by
  unfold ensureProps
  split <;> rfl

theorem coreOf_addField (n : Node) (info : JsonInfo) (fid : NodeId) : coreOf (addField n info fid) = coreOf n := rfl

theorem structLoop_core {rec : IRec} {seen : List String} :
    ∀ (fields : List (String × String × GoType)) {n : Node} {st : Store} {n' : Node} {st' : Store},
      structLoop rec seen fields n st = .ok (n', st') → coreOf n' = coreOf n
  | [], n, st, n', st', h => by
    simp only [structLoop] at h
    cases h; rfl
  | (g, tag, ft) :: rest, n, st, n', st', h => by
    rcases structLoop_cons h with ⟨_, h⟩ | ⟨_, st1, _, h⟩ | ⟨_, fid, st1, st2, _, _, h⟩
    · rw [structLoop_core rest h, coreOf_ensureProps]
    · rw [structLoop_core rest h, coreOf_ensureProps]
    · rw [structLoop_core rest h, coreOf_addField, coreOf_ensureProps]

/-! ### propertyOrder, required, keys of properties -/

/-- the recursive call never drops a type (true of `forType` without IgnoreInvalidTypes, and on the domain) -/
def NeverDrops (rec : IRec) (seen : List String) (fields : List (String × String × GoType)) : Prop :=
  ∀ f, f ∈ fields → (fieldJSONInfo f.1 f.2.1).omitted = false → ∀ st st1, rec f.2.2 seen st = .ok (none, st1) → False

theorem ensureProps_getD (n : Node) : (ensureProps n).properties.getD [] = n.properties.getD [] := by
  unfold ensureProps
  split
  · rename_i h
    cases hp : n.properties with
    | none => rfl
    | some p => rw [hp] at h; cases h
  · rfl

theorem ensureProps_order (n : Node) : (ensureProps n).propertyOrder = n.propertyOrder := by
  unfold ensureProps
  split <;> rfl

theorem ensureProps_required (n : Node) : (ensureProps n).required = n.required := by
  unfold ensureProps
  split <;> rfl

theorem jsonNames_cons (f : String × String × GoType) (rest : List (String × String × GoType)) :
    jsonNames (f :: rest) =
      if (fieldJSONInfo f.1 f.2.1).omitted then jsonNames rest else (fieldJSONInfo f.1 f.2.1).name :: jsonNames rest := by
  unfold jsonNames
  rw [List.filterMap_cons]
  cases (fieldJSONInfo f.1 f.2.1).omitted <;> rfl

theorem alwaysNames_cons (f : String × String × GoType) (rest : List (String × String × GoType)) :
    alwaysNames (f :: rest) =
      if (fieldJSONInfo f.1 f.2.1).omitted || (fieldJSONInfo f.1 f.2.1).omitempty || (fieldJSONInfo f.1 f.2.1).omitzero
      then alwaysNames rest else (fieldJSONInfo f.1 f.2.1).name :: alwaysNames rest := by
  unfold alwaysNames
  rw [List.filterMap_cons]
  cases (fieldJSONInfo f.1 f.2.1).omitted <;> cases (fieldJSONInfo f.1 f.2.1).omitempty <;>
    cases (fieldJSONInfo f.1 f.2.1).omitzero <;> rfl

theorem structLoop_lists {rec : IRec} {seen : List String} :
    ∀ (fields : List (String × String × GoType)) {n : Node} {st : Store} {n' : Node} {st' : Store},
      NeverDrops rec seen fields → structLoop rec seen fields n st = .ok (n', st') →
      n'.propertyOrder.getD [] = n.propertyOrder.getD [] ++ jsonNames fields ∧
      n'.required.getD [] = n.required.getD [] ++ alwaysNames fields ∧
      ∀ k, k ∈ (n'.properties.getD []).map (·.1) ↔ (k ∈ (n.properties.getD []).map (·.1) ∨ k ∈ jsonNames fields)
  | [], n, st, n', st', _, h => by
    simp only [structLoop] at h
    cases h
    simp [jsonNames, alwaysNames]
  | (g, tag, ft) :: rest, n, st, n', st', hnd, h => by
    have hnd' : NeverDrops rec seen rest := fun f hf => hnd f (List.mem_cons_of_mem _ hf)
    rw [jsonNames_cons, alwaysNames_cons]
    rcases structLoop_cons h with ⟨ho, h⟩ | ⟨ho', st1, h1, _⟩ | ⟨ho, fid, st1, st2, _, _, h⟩
    · obtain ⟨h1, h2, h3⟩ := structLoop_lists rest hnd' h
      rw [ensureProps_order] at h1
      rw [ensureProps_required] at h2
      rw [ensureProps_getD] at h3
      simp only [ho, Bool.true_or, if_true]
      exact ⟨h1, h2, h3⟩
    · exact (hnd _ List.mem_cons_self ho' _ _ h1).elim
    · obtain ⟨h1, h2, h3⟩ := structLoop_lists rest hnd' h
      simp only [ho, Bool.false_or, Bool.false_eq_true, if_false]
      refine ⟨?_, ?_, ?_⟩
      · rw [h1]
        simp only [addField, ensureProps_order, Option.getD_some, List.append_assoc, List.singleton_append]
      · rw [h2]
        simp only [addField, ensureProps_required]
        cases he : (fieldJSONInfo g tag).omitempty <;> cases hz : (fieldJSONInfo g tag).omitzero <;> simp
      · intro k
        rw [h3]
        simp only [addField, ensureProps_getD, Option.getD_some, List.map_append,
          List.mem_append, List.mem_map, List.mem_filter, List.mem_cons, List.map_cons, List.map_nil,
          List.not_mem_nil, or_false]
        constructor
        · rintro ((⟨p, ⟨hp, _⟩, rfl⟩ | h) | h)
          · exact Or.inl ⟨p, hp, rfl⟩
          · exact Or.inr (Or.inl h)
          · exact Or.inr (Or.inr h)
        · rintro (⟨p, hp, rfl⟩ | h | h)
          · by_cases hk : p.1 = (fieldJSONInfo g tag).name
            · exact Or.inl (Or.inr hk)
            · exact Or.inl (Or.inl ⟨p, ⟨hp, by simpa using hk⟩, rfl⟩)
          · exact Or.inl (Or.inr h)
          · exact Or.inr h

end Go
end JSV
